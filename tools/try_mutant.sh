#!/bin/bash
# usage: try_mutant.sh <patch.diff> <check ids...>   — applies the patch to /repo, runs the repo's own tests and the
# named checks (quick tier), prints a summary, and always restores /repo afterwards.
set -u
PATCH=$1; shift
cd /repo || exit 2
if ! git diff --quiet; then echo "repo dirty"; exit 2; fi
git apply "$PATCH" || { echo "patch does not apply"; exit 2; }
trap 'cd /repo && git checkout -- . ' EXIT
echo "== repo tests with mutant"
( cd /repo && cargo test --workspace --no-fail-fast --offline 2>&1 | grep -E "^test result|FAILED|failed|error(\[|:)" | sort | uniq -c | head -20 )
for id in "$@"; do
  echo "== check $id"
  ( cd /verif && ./check "$id" 2>&1 | grep -E "^(VIOLATION|OK|KNOWN|MACHINERY)|^  config" | head -8 )
done
