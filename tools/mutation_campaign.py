#!/usr/bin/env python3
"""Mutation campaign: how many small source mutations of /repo do the checks kill?

usage: mutation_campaign.py <crate> <n_mutants> [rng_seed]

For each sampled mutant (one token-level change in one source line of the crate): apply it to /repo, rebuild the
default-configuration explorer (N0, vdev, features on), run the crate's conformance property and the cheap structural
properties (C04, C11, C13, C16, C19, C12) restricted to that crate.  A mutant that no check reports is then run
through the crate's own tests (`cargo test -p <crate>`): if those fail it is "killed by the repository's tests"
(uninteresting); otherwise it is a SURVIVOR and its diff is written to /verif/tools/mutation_results/<crate>/.
/repo is restored after every mutant.  Survivors are either equivalent mutants or gaps to look at by hand.
"""
import json, os, random, re, subprocess, sys, time

sys.path.insert(0, "/verif/lib")
from vlib import core  # noqa: E402
from vlib.core import Cfg  # noqa: E402

CONF = {"aes": "C02", "des": "C05", "aria": "C06", "camellia": "C06", "sm4": "C06", "kuznyechik": "C07", "magma": "C07",
        "belt-block": "C07", "serpent": "C08", "twofish": "C08", "cast6": "C08", "blowfish": "C09", "cast5": "C09",
        "idea": "C09", "rc2": "C09", "xtea": "C09", "rc5": "C10", "speck": "C10", "threefish": "C10", "gift": "C10"}
KRATE = {"speck": "speck-cipher", "gift": "gift-cipher"}
OTHER = ["C04", "C11", "C13", "C16", "C19", "C12", "C18", "C14", "C17"]

OPS = [
    (r"\brotate_left\b", "rotate_right"), (r"\brotate_right\b", "rotate_left"),
    (r"\bwrapping_add\b", "wrapping_sub"), (r"\bwrapping_sub\b", "wrapping_add"),
    (r"<<", ">>"), (r">>", "<<"), (r"\^", "|"), (r"&(?!&|mut|self|\[|'|[A-Za-z_(])", "|"), (r"\|(?!\|)", "^"),
    (r"\.\.=", ".."), (r"(?<![=<>!])<=(?!=)", "<"), (r"(?<![=<>!-])>=(?!=)", ">"), (r"(?<![<=!>-])<(?![<=:A-Za-z_])", "<="),
    (r"\+ 1\b", "+ 2"), (r"- 1\b", "- 2"), (r"!=", "=="), (r"==", "!="),
]


def literal_mutations(line):
    out = []
    for m in re.finditer(r"\b0x([0-9a-fA-F_]+)\b", line):
        digits = m.group(1).replace("_", "")
        if len(digits) > 16 or not digits:
            continue
        v = int(digits, 16)
        for bit in (0, 3, max(0, 4 * len(digits) - 1)):
            nv = v ^ (1 << bit)
            out.append((m.start(), m.end(), f"0x{nv:0{len(digits)}x}"))
    for m in re.finditer(r"(?<![\w.])(\d{1,3})(?![\w.])", line):
        v = int(m.group(1))
        out.append((m.start(), m.end(), str(v + 1)))
        if v > 0:
            out.append((m.start(), m.end(), str(v - 1)))
    return out


def candidates(path):
    src = open(path).read().split("\n")
    out = []
    in_test = False
    for i, line in enumerate(src):
        s = line.strip()
        # an inline test module (`mod tests {`) ends the mutable part of the file; `#[cfg(test)] mod tests;` does not
        if (s.startswith("mod tests") or s.startswith("mod test ")) and "{" in s:
            in_test = True
        if s.startswith("#[cfg(test)]") and i + 1 < len(src) and "{" in src[i + 1] and src[i + 1].strip().startswith("mod "):
            in_test = True
        if in_test:
            continue
        if not s or s.startswith(("//", "#", "use ", "pub use", "mod ", "///", "//!")) or "debug_assert" in s or "assert!" in s:
            continue
        for pat, rep in OPS:
            for m in re.finditer(pat, line):
                out.append((i, m.start(), m.end(), rep))
        for a, b, rep in literal_mutations(line):
            out.append((i, a, b, rep))
    return src, out


def sh(cmd, cwd=None, env=None, timeout=1800):
    r = subprocess.run(cmd, shell=True, cwd=cwd, env=env, capture_output=True, text=True, timeout=timeout)
    return r.returncode, r.stdout + r.stderr


def main():
    crate = sys.argv[1]
    n = int(sys.argv[2])
    rng = random.Random(int(sys.argv[3]) if len(sys.argv) > 3 else 1)
    krate = KRATE.get(crate, crate)
    files = []
    for root, _, names in os.walk(f"/repo/{crate}/src"):
        for f in names:
            shadow_only = any(x in root for x in ("armv8", "neon")) or f == "fixslice32.rs"
            if os.environ.get("MUT_SHADOW"):
                shadow_only = not shadow_only or "test" in f
            if f.endswith(".rs") and "test" not in f and not shadow_only:
                files.append(os.path.join(root, f))
    # MUT_FILES: regex selecting the files to mutate; MUT_CFG: configuration to run (default N0 full build)
    if os.environ.get("MUT_FILES"):
        files = [f for f in files if re.search(os.environ["MUT_FILES"], f)]
    allc = []
    for f in files:
        src, c = candidates(f)
        allc += [(f, x) for x in c]
    rng.shuffle(allc)
    outdir = f"/verif/tools/mutation_results/{crate}"
    os.makedirs(outdir, exist_ok=True)
    cname = os.environ.get("MUT_CFG", "N0")
    cfg = Cfg(cname, "vdev", True, lite=(cname not in ("N0", "N0d")))
    outdir = outdir + ("" if cname == "N0" else "-" + cname)
    os.makedirs(outdir, exist_ok=True)
    core.ensure_seam()
    stats = {"tried": 0, "no_compile": 0, "killed": 0, "killed_by_repo_tests": 0, "survived": 0, "by_check": {}}
    rc, _ = sh("git diff --quiet", cwd="/repo")
    assert rc == 0, "/repo dirty"
    log = open(os.path.join(outdir, "log.jsonl"), "a")
    for f, (i, a, b, rep) in allc:
        if stats["tried"] >= n:
            break
        src = open(f).read().split("\n")
        old = src[i]
        new = old[:a] + rep + old[b:]
        if new == old:
            continue
        src[i] = new
        open(f, "w").write("\n".join(src))
        rec = {"file": f, "line": i + 1, "old": old.strip(), "new": new.strip()}
        try:
            try:
                core.ensure_shadows()   # shadow crates are derived from /repo's working tree
                core.build(cfg)
            except core.BuildFailure:
                stats["no_compile"] += 1
                rec["result"] = "no_compile"
                continue
            stats["tried"] += 1
            killer = None
            for prop in [CONF[crate]] + OTHER:
                if prop in ("C18",) and crate != "belt-block":
                    continue
                if prop == "C14" and crate != "blowfish":
                    continue
                if prop == "C17" and crate != "aes":
                    continue
                res, crash = core.run_xplore(cfg, prop, "quick", ["--crates", krate], timeout=900)
                if crash is not None or (res and res["violations_total"] > 0):
                    killer = prop
                    break
            if killer:
                stats["killed"] += 1
                stats["by_check"][killer] = stats["by_check"].get(killer, 0) + 1
                rec["result"] = "killed:" + killer
            else:
                rc, out = sh(f"cargo test -p {krate} --offline 2>&1 | grep -E 'test result|error' ", cwd="/repo")
                bad = [l for l in out.splitlines() if ("test result" in l and " 0 failed" not in l) or "error" in l]
                if bad:
                    stats["killed_by_repo_tests"] += 1
                    rec["result"] = "killed_by_repo_tests_only"
                else:
                    stats["survived"] += 1
                    rec["result"] = "SURVIVED"
                    d = subprocess.run("git diff", shell=True, cwd="/repo", capture_output=True, text=True).stdout
                    open(os.path.join(outdir, f"survivor_{stats['survived']:03d}.diff"), "w").write(d)
        finally:
            subprocess.run("git checkout -- .", shell=True, cwd="/repo")
            core.ensure_shadows()
            log.write(json.dumps(rec) + "\n")
            log.flush()
    print(json.dumps({"crate": crate, **stats}))


if __name__ == "__main__":
    main()
