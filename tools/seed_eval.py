#!/usr/bin/env python3
"""Confirm a seeded defect delivered by a sub-agent and run the /verif checks against it.

usage: seed_eval.py <seed-out-dir> <seed-id> <check ids...>

1. in a scratch worktree of /repo (/tmp/wt-confirm): apply patch.diff, run the repository's own tests (must pass),
   run the demonstration (must FAIL), un-apply, run the demonstration again (must PASS);
2. apply the patch to /repo itself, run the named quick checks, restore /repo straight afterwards;
3. write /verif/seeded/<seed-id>/ (patch.diff, demonstration, meta.json with what was run and which checks caught it).
"""
import json, os, re, shutil, subprocess, sys

WT = "/tmp/wt-confirm"
TGT = "/tmp/confirm-target"


def sh(cmd, cwd=None, env=None, timeout=3600):
    e = dict(os.environ)
    e["CARGO_TARGET_DIR"] = TGT
    e["CARGO_NET_OFFLINE"] = "true"
    if env:
        e.update(env)
    r = subprocess.run(cmd, shell=True, cwd=cwd, env=e, capture_output=True, text=True, timeout=timeout)
    return r.returncode, r.stdout + r.stderr


def main():
    src, sid = sys.argv[1], sys.argv[2]
    checks = [c for c in sys.argv[3:] if not c.startswith("--")]
    confirm_only = "--confirm-only" in sys.argv
    meta = json.load(open(os.path.join(src, "meta.json")))
    if not os.path.isdir(WT):
        rc, out = sh(f"git -C /repo worktree add -q {WT} HEAD")
        assert rc == 0, out
    sh("git checkout -q -- . && git clean -fdq", cwd=WT)
    head = subprocess.run("git -C /repo rev-parse HEAD", shell=True, capture_output=True, text=True).stdout.strip()
    sh(f"git checkout -q --detach {head}", cwd=WT)
    patch = os.path.join(src, "patch.diff")
    demos = [f for f in os.listdir(src) if f.startswith("seed_demo") and f.endswith(".rs")]
    blob = open(os.path.join(src, "demo_cmd.txt")).read() + "\n" + json.dumps(meta)
    placements = {}
    for d in demos:
        m = re.search(r"([A-Za-z0-9_\-]+/tests/" + re.escape(d) + ")", blob)
        assert m, f"cannot find placement of {d}"
        placements[d] = m.group(1)
    cmd = meta["demo_cmd"]
    cmd = cmd.split("#")[0].strip()
    cmd = re.split(r"\s{2,}\(|\s+\(demo |\s+\(place|\s+\(with ", cmd)[0].strip()
    cmd = cmd.replace("cargo test", "cargo test --offline") if "--offline" not in cmd else cmd
    cmd = re.sub(r"/tmp/wt-C\d+", WT, cmd)
    cmd = re.sub(r"CARGO_TARGET_DIR=\S+", "", cmd)
    cmd = re.sub(r"^cd \S+ && ", "", cmd).strip()
    # keep only the cargo invocation (with its env assignments); drop `cp ... &&`, `git apply ... &&` prefixes
    m = re.search(r"((?:RUSTFLAGS=(?:'[^']*'|\"[^\"]*\")\s+)?(?:MIRIFLAGS=\S+\s+)?cargo\s.*)$", cmd)
    if m:
        cmd = m.group(1)
    report = {"seed": sid, "property": meta.get("property"), "demo_cmd": cmd, "steps": []}

    def place():
        for d, rel in placements.items():
            p = os.path.join(WT, rel)
            os.makedirs(os.path.dirname(p), exist_ok=True)
            shutil.copy(os.path.join(src, d), p)

    rc, out = sh(f"git apply {patch}", cwd=WT)
    assert rc == 0, "patch does not apply: " + out
    rc, out = sh("cargo test --workspace --no-fail-fast --offline 2>&1 | grep -E '^test result|FAILED|^error' | sort | uniq -c", cwd=WT)
    failed = ("FAILED" in out) or ("error" in out) or (" 0 failed" not in out)
    bad_lines = [l for l in out.splitlines() if "test result" in l and " 0 failed" not in l]
    report["steps"].append({"with_patch_repo_tests": "pass" if not bad_lines and "error" not in out else "FAIL", "detail": out[-600:]})
    place()
    rc1, out1 = sh(cmd, cwd=WT)
    report["steps"].append({"with_patch_demo": "fails" if rc1 != 0 else "PASSES (unexpected)", "tail": out1[-400:]})
    sh(f"git apply -R {patch}", cwd=WT)
    rc2, out2 = sh(cmd, cwd=WT)
    report["steps"].append({"without_patch_demo": "passes" if rc2 == 0 else "FAILS (unexpected)", "tail": out2[-400:]})
    sh("git checkout -q -- . && git clean -fdq", cwd=WT)
    confirmed = (not bad_lines) and rc1 != 0 and rc2 == 0
    report["confirmed"] = confirmed

    dst = os.path.join("/verif/seeded", sid)
    if confirm_only and os.path.exists(os.path.join(dst, "meta.json")):
        old = json.load(open(os.path.join(dst, "meta.json")))
        old["confirmed_by_me"] = confirmed
        old["what_i_ran"] = report["steps"]
        old["demo"] = {"files": placements, "cmd": cmd}
        json.dump(old, open(os.path.join(dst, "meta.json"), "w"), indent=1)
        print(json.dumps({"seed": sid, "confirmed": confirmed, "checks": old.get("checks_run_against_it")}))
        return
    # run the checks against /repo itself with the patch applied
    caught = {}
    rc, out = sh("git diff --quiet", cwd="/repo")
    assert rc == 0, "/repo is dirty"
    rc, out = sh(f"git apply {patch}", cwd="/repo")
    assert rc == 0, out
    try:
        for c in checks:
            r = subprocess.run(["/verif/check", c], cwd="/verif", capture_output=True, text=True, timeout=7200)
            lines = [l for l in r.stdout.splitlines() if l.startswith(("VIOLATION", "  config", "OK", "KNOWN"))]
            caught[c] = {"exit": r.returncode, "lines": lines[:6], "stderr": r.stderr[-300:] if r.returncode not in (0, 1) else ""}
    finally:
        subprocess.run("git checkout -- .", shell=True, cwd="/repo")
    report["checks"] = caught
    dst = os.path.join("/verif/seeded", sid)
    os.makedirs(dst, exist_ok=True)
    shutil.copy(patch, os.path.join(dst, "patch.diff"))
    for d in demos:
        shutil.copy(os.path.join(src, d), os.path.join(dst, d))
    shutil.copy(os.path.join(src, "demo_cmd.txt"), os.path.join(dst, "demo_cmd.txt"))
    meta_out = {
        "property": meta.get("property"),
        "summary": meta.get("summary"),
        "needs_to_manifest": meta.get("needs_to_manifest"),
        "files_changed": meta.get("files_changed"),
        "demo": {"files": placements, "cmd": cmd},
        "confirmed_by_me": confirmed,
        "what_i_ran": report["steps"],
        "checks_run_against_it": {c: ("CAUGHT" if v["exit"] == 1 else "missed" if v["exit"] == 0 else f"machinery exit {v['exit']}") for c, v in caught.items()},
        "check_output": caught,
    }
    json.dump(meta_out, open(os.path.join(dst, "meta.json"), "w"), indent=1)
    print(json.dumps({"seed": sid, "confirmed": confirmed, "checks": meta_out["checks_run_against_it"]}))


if __name__ == "__main__":
    main()
