#!/usr/bin/env python3
"""Regenerates the '§8 table' at the end of DESIGN.md from /verif/seeded/*/meta.json."""
import json, os, glob
V = os.path.dirname(os.path.dirname(os.path.abspath(__file__)))
rows = []
for d in sorted(glob.glob(os.path.join(V, "seeded", "*"))):
    mp = os.path.join(d, "meta.json")
    if not os.path.exists(mp):
        continue
    m = json.load(open(mp))
    sid = os.path.basename(d)
    caught = [c for c, r in m.get("checks_run_against_it", {}).items() if r == "CAUGHT"]
    missed = [c for c, r in m.get("checks_run_against_it", {}).items() if r == "missed"]
    summ = (m.get("summary") or "").replace("\n", " ").replace("|", "/")
    needs = (m.get("needs_to_manifest") or "").replace("\n", " ").replace("|", "/")
    if len(summ) > 230:
        summ = summ[:227] + "..."
    if len(needs) > 200:
        needs = needs[:197] + "..."
    rows.append(f"| {sid} | {m.get('property')} | {summ} | {needs} | {', '.join(caught) or '-'} | {', '.join(missed) or '-'} |")
marker = "\n## §8 table — seeded changes and the checks that catch them\n"
p = os.path.join(V, "DESIGN.md")
s = open(p).read()
if marker in s:
    s = s[:s.index(marker)]
s = s.rstrip("\n") + "\n" + marker + """
Each row is a change to RustCrypto/block-ciphers written by an independent sub-agent that saw only the property text
and a scratch worktree; it compiles, passes the repository's own test suite, and comes with a demonstration that
fails with it and passes without it (all re-confirmed in a scratch worktree by `tools/seed_eval.py`).  The checks
listed were run (quick tier) against `/repo` with the patch applied; `/repo` was restored straight afterwards.
"missed" lists checks that were run against the change and stayed quiet (usually because the change lies outside
that property; where it pointed at a gap the check was strengthened and the row shows the final result).

| seed | property | change | needs to manifest | caught by | run but quiet |
|---|---|---|---|---|---|
""" + "\n".join(rows) + "\n"
open(p, "w").write(s)
print(len(rows), "rows")
