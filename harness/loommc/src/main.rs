//! E3 – loom exploration of the CPU-feature detection cache used by `aes::autodetect` and `aes::hazmat`
//! (DESIGN §3 C15).  Built with RUSTFLAGS="--cfg loom": the `cpufeatures::new!` expansion inside the real
//! aes crate then uses loom's AtomicU8 / lazy_static (through the derived cpufeatures seam), so loom
//! explores every interleaving (and every value a Relaxed load may legally return) of the real code.
//! Every thread asserts its outputs against the FIPS-197 reference inside the model.
#[cfg(not(loom))]
fn main() {
    eprintln!("loommc must be built with RUSTFLAGS=\"--cfg loom\"");
    std::process::exit(2);
}

#[cfg(loom)]
fn main() {
    imp::main();
}

#[cfg(loom)]
mod imp {
    use aes::cipher::{BlockCipherDecrypt, BlockCipherEncrypt, KeyInit};
    use cpufeatures::__seam as seam;
    use refmodels::RefCipher;
    use std::collections::BTreeMap;
    use std::sync::atomic::{AtomicUsize, Ordering};
    use std::sync::Mutex;

    fn key(n: usize, v: u8) -> Vec<u8> {
        (0..n).map(|i| (i as u8).wrapping_mul(29).wrapping_add(v)).collect()
    }
    const BLOCK: [u8; 16] = [0x10, 0x32, 0x54, 0x76, 0x98, 0xBA, 0xDC, 0xFE, 1, 2, 3, 4, 5, 6, 7, 8];

    fn ref_enc(k: &[u8], b: &[u8; 16]) -> [u8; 16] {
        let r = refmodels::aes::Aes::new(k);
        let mut x = *b;
        r.encrypt(&mut x);
        x
    }
    fn ref_dec(k: &[u8], b: &[u8; 16]) -> [u8; 16] {
        let r = refmodels::aes::Aes::new(k);
        let mut x = *b;
        r.decrypt(&mut x);
        x
    }

    struct Stats {
        executions: AtomicUsize,
        outcomes: Mutex<BTreeMap<usize, usize>>,
    }

    fn explore(name: &str, preemption_bound: Option<usize>, body: impl Fn() + Sync + Send + 'static) -> (usize, BTreeMap<usize, usize>) {
        let stats = std::sync::Arc::new(Stats { executions: AtomicUsize::new(0), outcomes: Mutex::new(BTreeMap::new()) });
        let st = stats.clone();
        let mut b = loom::model::Builder::new();
        b.preemption_bound = preemption_bound;
        b.check(move || {
            seam::reset_detections();
            body();
            let d = seam::detections();
            st.executions.fetch_add(1, Ordering::SeqCst);
            *st.outcomes.lock().unwrap().entry(d).or_insert(0) += 1;
        });
        let ex = stats.executions.load(Ordering::SeqCst);
        let out = stats.outcomes.lock().unwrap().clone();
        eprintln!("loommc: {name}: {ex} executions, detections-per-execution histogram {out:?}");
        (ex, out)
    }

    /// H1: two threads, each constructs its own cipher (first use = detection) and encrypts.
    fn h1() {
        let (k1, k2) = (key(16, 1), key(32, 2));
        let (e1, e2) = (ref_enc(&k1, &BLOCK), ref_dec(&k2, &BLOCK));
        let t1 = loom::thread::spawn(move || {
            let c = aes::Aes128::new_from_slice(&k1).unwrap();
            let mut b = aes::Block::from(BLOCK);
            c.encrypt_block(&mut b);
            assert_eq!(b.as_slice(), &e1, "H1 thread 1: Aes128 encrypt differs from FIPS-197");
        });
        let t2 = loom::thread::spawn(move || {
            let c = aes::Aes256::new_from_slice(&k2).unwrap();
            let mut b = aes::Block::from(BLOCK);
            c.decrypt_block(&mut b);
            assert_eq!(b.as_slice(), &e2, "H1 thread 2: Aes256 decrypt differs from FIPS-197");
        });
        t1.join().unwrap();
        t2.join().unwrap();
    }

    /// H2: three threads: Aes128::new; Aes256Enc::new -> Aes256Dec::from(&); hazmat::cipher_round (own cache).
    fn h2() {
        let (k1, k2) = (key(16, 3), key(32, 4));
        let e1 = ref_enc(&k1, &BLOCK);
        let e2e = ref_enc(&k2, &BLOCK);
        let e2d = ref_dec(&k2, &BLOCK);
        let rk: [u8; 16] = key(16, 5).try_into().unwrap();
        let mut hz = BLOCK;
        refmodels::aes::cipher_round(&mut hz, &rk);
        let t1 = loom::thread::spawn(move || {
            let c = aes::Aes128::new_from_slice(&k1).unwrap();
            let mut b = aes::Block::from(BLOCK);
            c.encrypt_block(&mut b);
            assert_eq!(b.as_slice(), &e1, "H2 thread 1");
        });
        let t2 = loom::thread::spawn(move || {
            let e = aes::Aes256Enc::new_from_slice(&k2).unwrap();
            let d = aes::Aes256Dec::from(&e);
            let mut b = aes::Block::from(BLOCK);
            e.encrypt_block(&mut b);
            assert_eq!(b.as_slice(), &e2e, "H2 thread 2 enc");
            let mut b = aes::Block::from(BLOCK);
            d.decrypt_block(&mut b);
            assert_eq!(b.as_slice(), &e2d, "H2 thread 2 dec (converted)");
        });
        let t3 = loom::thread::spawn(move || {
            let mut b = aes::Block::from(BLOCK);
            aes::hazmat::cipher_round(&mut b, &aes::Block::from(rk));
            assert_eq!(b.as_slice(), &hz, "H2 thread 3 hazmat");
        });
        t1.join().unwrap();
        t2.join().unwrap();
        t3.join().unwrap();
    }

    /// H3: two threads share one instance built by the main thread (so detection has already happened and
    /// its store happens-before every thread) while a third thread constructs and clones another one.
    /// (A variant in which the sharing threads race with a *concurrent* second detection store trips a known
    /// loom 0.7.2 limitation – `assert_ne!(mo_i, mo_j)` "TODO: this sometimes fails" in rt/atomic.rs – when a
    /// third thread later loads the cache; the racing detections themselves are covered by H1 and H2.)
    fn h3() {
        let (k1, k2) = (key(24, 6), key(16, 7));
        let (e1, d1) = (ref_enc(&k1, &BLOCK), ref_dec(&k1, &BLOCK));
        let e2 = ref_enc(&k2, &BLOCK);
        let shared = loom::sync::Arc::new(aes::Aes192::new_from_slice(&k1).unwrap());
        let (s1, s2) = (shared.clone(), shared.clone());
        let t1 = loom::thread::spawn(move || {
            let mut b = aes::Block::from(BLOCK);
            s1.encrypt_block(&mut b);
            assert_eq!(b.as_slice(), &e1, "H3 thread 1 shared enc");
        });
        let t2 = loom::thread::spawn(move || {
            let mut b = aes::Block::from(BLOCK);
            s2.decrypt_block(&mut b);
            assert_eq!(b.as_slice(), &d1, "H3 thread 2 shared dec");
        });
        let t3 = loom::thread::spawn(move || {
            let c = aes::Aes128::new_from_slice(&k2).unwrap().clone();
            let mut b = aes::Block::from(BLOCK);
            c.encrypt_block(&mut b);
            assert_eq!(b.as_slice(), &e2, "H3 thread 3 fresh clone");
        });
        t1.join().unwrap();
        t2.join().unwrap();
        t3.join().unwrap();
    }

    /// H4: two threads race on the *hazmat* detection cache (each calls a forward and an inverse round function)
    /// while a third constructs a cipher through the autodetect cache.
    fn h4() {
        let rk: [u8; 16] = key(16, 9).try_into().unwrap();
        let mut f = BLOCK;
        refmodels::aes::cipher_round(&mut f, &rk);
        let mut g = BLOCK;
        refmodels::aes::equiv_inv_cipher_round(&mut g, &rk);
        let k1 = key(16, 8);
        let e1 = ref_enc(&k1, &BLOCK);
        let mk = move |fwd_first: bool| {
            loom::thread::spawn(move || {
                for step in 0..2 {
                    let mut b = aes::Block::from(BLOCK);
                    if (step == 0) == fwd_first {
                        aes::hazmat::cipher_round(&mut b, &aes::Block::from(rk));
                        assert_eq!(b.as_slice(), &f, "H4 hazmat cipher_round");
                    } else {
                        aes::hazmat::equiv_inv_cipher_round(&mut b, &aes::Block::from(rk));
                        assert_eq!(b.as_slice(), &g, "H4 hazmat equiv_inv_cipher_round");
                    }
                }
            })
        };
        let t1 = mk(true);
        let t2 = mk(false);
        let t3 = loom::thread::spawn(move || {
            let c = aes::Aes128Enc::new_from_slice(&k1).unwrap();
            let mut b = aes::Block::from(BLOCK);
            c.encrypt_block(&mut b);
            assert_eq!(b.as_slice(), &e1, "H4 thread 3");
        });
        t1.join().unwrap();
        t2.join().unwrap();
        t3.join().unwrap();
    }

    pub fn main() {
        let args: Vec<String> = std::env::args().collect();
        let thorough = args.iter().any(|a| a == "thorough");
        let mut results = Vec::new();
        let mut bad = false;
        for (det_name, det) in [("present", None), ("absent", Some(false))] {
            seam::set_override(det);
            let _ = thorough;
            let bound3: Option<usize> = None; // unbounded exploration is cheap for these harnesses (a few thousand executions)
            for (name, pb, f) in [("H1", None, h1 as fn()), ("H2", bound3, h2 as fn()), ("H3", bound3, h3 as fn()), ("H4", bound3, h4 as fn())] {
                let full = format!("{name}/{det_name}");
                let r = std::panic::catch_unwind(|| explore(&full, pb, f));
                match r {
                    Ok((ex, out)) => {
                        let hist: Vec<String> = out.iter().map(|(k, v)| format!("\"{k}\":{v}")).collect();
                        results.push(format!(
                            "{{\"harness\":\"{full}\",\"executions\":{ex},\"preemption_bound\":{},\"detections_histogram\":{{{}}},\"violation\":null}}",
                            pb.map(|x| x.to_string()).unwrap_or("null".into()),
                            hist.join(",")
                        ));
                    }
                    Err(e) => {
                        bad = true;
                        let msg = e.downcast_ref::<String>().cloned().or_else(|| e.downcast_ref::<&str>().map(|s| s.to_string())).unwrap_or("panic".into());
                        results.push(format!("{{\"harness\":\"{full}\",\"executions\":0,\"violation\":{:?}}}", msg));
                    }
                }
            }
        }
        println!("[{}]", results.join(","));
        std::process::exit(if bad { 1 } else { 0 });
    }
}
