//! AES reference model, written literally from FIPS-197 (Nov 2001 / upd. 2023).
//!
//! * the S-box is *computed*: multiplicative inverse in GF(2^8) modulo x^8+x^4+x^3+x+1 (§4.2),
//!   found by exhaustive search, followed by the affine transformation of §5.1.1;
//! * MixColumns / InvMixColumns via `xtime` (§4.2.1);
//! * word-wise KeyExpansion (§5.2, Figure 11);
//! * Cipher (§5.1, Figure 5) and the plain InvCipher (§5.3, Figure 12).
//!
//! State layout: the 16-byte block `in[0..16]` maps to `state[r][c] = in[r + 4c]` (§3.4), so block byte
//! `i` is row `i % 4`, column `i / 4`.  All functions here operate on the block in that byte order.

use std::sync::OnceLock;

// ------------------------------------------------------------------ GF(2^8) arithmetic (§4)

/// Multiplication by x (i.e. {02}) modulo m(x) = x^8 + x^4 + x^3 + x + 1  (§4.2.1).
fn xtime(a: u8) -> u8 {
    if a & 0x80 != 0 { (a << 1) ^ 0x1b } else { a << 1 }
}

/// General multiplication in GF(2^8): shift-and-add using xtime (§4.2.1).
fn gf_mul(a: u8, b: u8) -> u8 {
    let mut acc = 0u8;
    let mut p = a; // a * x^i
    for i in 0..8 {
        if (b >> i) & 1 == 1 {
            acc ^= p;
        }
        p = xtime(p);
    }
    acc
}

/// Multiplicative inverse, {00} mapped to itself (§5.1.1 step 1); by exhaustive search.
fn gf_inv(a: u8) -> u8 {
    if a == 0 {
        return 0;
    }
    for b in 1..=255u8 {
        if gf_mul(a, b) == 1 {
            return b;
        }
    }
    unreachable!("every non-zero element of GF(2^8) has an inverse")
}

/// The affine transformation over GF(2) of §5.1.1 step 2 (equation 5.1):
/// b'_i = b_i ^ b_(i+4)%8 ^ b_(i+5)%8 ^ b_(i+6)%8 ^ b_(i+7)%8 ^ c_i,  c = {63}.
fn affine(b: u8) -> u8 {
    let c = 0x63u8;
    let bit = |v: u8, i: usize| (v >> (i % 8)) & 1;
    let mut out = 0u8;
    for i in 0..8 {
        let v = bit(b, i) ^ bit(b, i + 4) ^ bit(b, i + 5) ^ bit(b, i + 6) ^ bit(b, i + 7) ^ bit(c, i);
        out |= v << i;
    }
    out
}

struct Tables {
    sbox: [u8; 256],
    inv_sbox: [u8; 256],
}

fn tables() -> &'static Tables {
    static T: OnceLock<Tables> = OnceLock::new();
    T.get_or_init(|| {
        let mut sbox = [0u8; 256];
        let mut inv_sbox = [0u8; 256];
        for x in 0..256usize {
            sbox[x] = affine(gf_inv(x as u8));
        }
        // the inverse S-box is the inverse of the (bijective) S-box (§5.3.2)
        for x in 0..256usize {
            inv_sbox[sbox[x] as usize] = x as u8;
        }
        Tables { sbox, inv_sbox }
    })
}

/// The computed S-box (Figure 7).
pub fn sbox() -> [u8; 256] {
    tables().sbox
}

// ------------------------------------------------------------------ round transformations (§5.1, §5.3)

/// SubBytes (§5.1.1).
pub fn sub_bytes(s: &mut [u8; 16]) {
    let t = tables();
    for b in s.iter_mut() {
        *b = t.sbox[*b as usize];
    }
}

/// InvSubBytes (§5.3.2).
pub fn inv_sub_bytes(s: &mut [u8; 16]) {
    let t = tables();
    for b in s.iter_mut() {
        *b = t.inv_sbox[*b as usize];
    }
}

/// ShiftRows (§5.1.2): s'[r][c] = s[r][(c + r) mod 4].
pub fn shift_rows(s: &mut [u8; 16]) {
    let old = *s;
    for r in 0..4 {
        for c in 0..4 {
            s[r + 4 * c] = old[r + 4 * ((c + r) % 4)];
        }
    }
}

/// InvShiftRows (§5.3.1): s'[r][(c + r) mod 4] = s[r][c].
pub fn inv_shift_rows(s: &mut [u8; 16]) {
    let old = *s;
    for r in 0..4 {
        for c in 0..4 {
            s[r + 4 * ((c + r) % 4)] = old[r + 4 * c];
        }
    }
}

/// MixColumns (§5.1.3, equation 5.6): each column multiplied by {03}x^3 + {01}x^2 + {01}x + {02}.
pub fn mix_columns(s: &mut [u8; 16]) {
    for c in 0..4 {
        let s0 = s[4 * c];
        let s1 = s[4 * c + 1];
        let s2 = s[4 * c + 2];
        let s3 = s[4 * c + 3];
        let m2 = |a: u8| xtime(a);
        let m3 = |a: u8| xtime(a) ^ a;
        s[4 * c] = m2(s0) ^ m3(s1) ^ s2 ^ s3;
        s[4 * c + 1] = s0 ^ m2(s1) ^ m3(s2) ^ s3;
        s[4 * c + 2] = s0 ^ s1 ^ m2(s2) ^ m3(s3);
        s[4 * c + 3] = m3(s0) ^ s1 ^ s2 ^ m2(s3);
    }
}

/// InvMixColumns (§5.3.3, equation 5.10): each column multiplied by {0b}x^3 + {0d}x^2 + {09}x + {0e}.
pub fn inv_mix_columns(s: &mut [u8; 16]) {
    // {09} = x^3 + 1, {0b} = x^3 + x + 1, {0d} = x^3 + x^2 + 1, {0e} = x^3 + x^2 + x
    let m9 = |a: u8| xtime(xtime(xtime(a))) ^ a;
    let mb = |a: u8| xtime(xtime(xtime(a))) ^ xtime(a) ^ a;
    let md = |a: u8| xtime(xtime(xtime(a))) ^ xtime(xtime(a)) ^ a;
    let me = |a: u8| xtime(xtime(xtime(a))) ^ xtime(xtime(a)) ^ xtime(a);
    for c in 0..4 {
        let s0 = s[4 * c];
        let s1 = s[4 * c + 1];
        let s2 = s[4 * c + 2];
        let s3 = s[4 * c + 3];
        s[4 * c] = me(s0) ^ mb(s1) ^ md(s2) ^ m9(s3);
        s[4 * c + 1] = m9(s0) ^ me(s1) ^ mb(s2) ^ md(s3);
        s[4 * c + 2] = md(s0) ^ m9(s1) ^ me(s2) ^ mb(s3);
        s[4 * c + 3] = mb(s0) ^ md(s1) ^ m9(s2) ^ me(s3);
    }
}

/// AddRoundKey (§5.1.4); the round key is given as 16 bytes = words w[4*round .. 4*round+4], each word
/// big-endian, i.e. in the same byte order as the block.
fn add_round_key(s: &mut [u8; 16], rk: &[u8; 16]) {
    for i in 0..16 {
        s[i] ^= rk[i];
    }
}

/// MixColumns(ShiftRows(SubBytes(block))) XOR round_key   (one full Cipher round; what AESENC computes)
pub fn cipher_round(block: &mut [u8; 16], round_key: &[u8; 16]) {
    sub_bytes(block);
    shift_rows(block);
    mix_columns(block);
    add_round_key(block, round_key);
}

/// InvMixColumns(InvShiftRows(InvSubBytes(block))) XOR round_key
/// (one full round of the Equivalent Inverse Cipher, §5.3.5; what AESDEC computes)
pub fn equiv_inv_cipher_round(block: &mut [u8; 16], round_key: &[u8; 16]) {
    inv_sub_bytes(block);
    inv_shift_rows(block);
    inv_mix_columns(block);
    add_round_key(block, round_key);
}

// ------------------------------------------------------------------ key expansion (§5.2)

fn sub_word(w: u32) -> u32 {
    let t = tables();
    let b = w.to_be_bytes();
    u32::from_be_bytes([t.sbox[b[0] as usize], t.sbox[b[1] as usize], t.sbox[b[2] as usize], t.sbox[b[3] as usize]])
}

/// [a0,a1,a2,a3] -> [a1,a2,a3,a0]
fn rot_word(w: u32) -> u32 {
    w.rotate_left(8)
}

/// AES with a 128-, 192- or 256-bit key.
#[derive(Clone)]
pub struct Aes {
    nr: usize,
    /// round keys 0..=nr, each as 16 bytes (four big-endian words of the key schedule)
    rk: [[u8; 16]; 15],
}

impl Aes {
    /// `key`: 16, 24 or 32 bytes.
    pub fn new(key: &[u8]) -> Self {
        let nk = match key.len() {
            16 => 4,
            24 => 6,
            32 => 8,
            n => panic!("AES: unsupported key length {n}"),
        };
        let nr = nk + 6;
        let nb = 4;
        // KeyExpansion, Figure 11
        let mut w = [0u32; 60];
        let mut i = 0;
        while i < nk {
            w[i] = u32::from_be_bytes([key[4 * i], key[4 * i + 1], key[4 * i + 2], key[4 * i + 3]]);
            i += 1;
        }
        // Rcon[j] = [x^(j-1), 00, 00, 00]; rc holds x^(i/nk - 1)
        let mut rc: u8 = 0x01;
        while i < nb * (nr + 1) {
            let mut temp = w[i - 1];
            if i % nk == 0 {
                temp = sub_word(rot_word(temp)) ^ ((rc as u32) << 24);
                rc = xtime(rc);
            } else if nk > 6 && i % nk == 4 {
                temp = sub_word(temp);
            }
            w[i] = w[i - nk] ^ temp;
            i += 1;
        }
        let mut rk = [[0u8; 16]; 15];
        for r in 0..=nr {
            for c in 0..4 {
                rk[r][4 * c..4 * c + 4].copy_from_slice(&w[4 * r + c].to_be_bytes());
            }
        }
        Aes { nr, rk }
    }

    /// The expanded key: round keys 0..=Nr (11, 13 or 15 of them), round key r = w[4r..4r+4] big-endian.
    pub fn round_keys(&self) -> &[[u8; 16]] {
        &self.rk[..=self.nr]
    }
}

impl crate::RefCipher for Aes {
    fn block_size(&self) -> usize {
        16
    }

    /// Cipher, Figure 5.
    fn encrypt(&self, block: &mut [u8]) {
        let mut s: [u8; 16] = block.try_into().expect("AES block is 16 bytes");
        add_round_key(&mut s, &self.rk[0]);
        for round in 1..self.nr {
            sub_bytes(&mut s);
            shift_rows(&mut s);
            mix_columns(&mut s);
            add_round_key(&mut s, &self.rk[round]);
        }
        sub_bytes(&mut s);
        shift_rows(&mut s);
        add_round_key(&mut s, &self.rk[self.nr]);
        block.copy_from_slice(&s);
    }

    /// InvCipher, Figure 12 (the straightforward inverse, not the equivalent inverse cipher).
    fn decrypt(&self, block: &mut [u8]) {
        let mut s: [u8; 16] = block.try_into().expect("AES block is 16 bytes");
        add_round_key(&mut s, &self.rk[self.nr]);
        for round in (1..self.nr).rev() {
            inv_shift_rows(&mut s);
            inv_sub_bytes(&mut s);
            add_round_key(&mut s, &self.rk[round]);
            inv_mix_columns(&mut s);
        }
        inv_shift_rows(&mut s);
        inv_sub_bytes(&mut s);
        add_round_key(&mut s, &self.rk[0]);
        block.copy_from_slice(&s);
    }
}
