//! GOST 28147-89 32-round Feistel network, generic over the S-box set, in the
//! Magma / GOST R 34.12-2015 (RFC 8891) convention.
//!
//! * block (8 bytes) = a1 || a0, each half a big-endian 32-bit word (a1 = first four bytes);
//! * key (32 bytes)  = K1 || K2 || ... || K8, each a big-endian 32-bit word;
//! * t(a): nibble i of a (nibble 0 = least significant 4 bits) is replaced by row i of the S-box set;
//! * g[k](a) = t(a + k mod 2^32) <<< 11;
//! * G[k](a1, a0) = (a0, g[k](a0) xor a1);   G*[k](a1, a0) = (g[k](a0) xor a1) || a0;
//! * iteration keys: K1..K8, K1..K8, K1..K8, K8..K1;
//! * E(a) = G*[K32] G[K31] ... G[K1] (a1, a0);   D(a) = G*[K1] G[K2] ... G[K32] (a1, a0).
//!
//! Relation to the original GOST 28147-89 byte convention (as used by libgcrypt's
//! GCRY_CIPHER_GOST28147, OpenSSL gost engine, RFC 4357/5830): there all 32-bit words are
//! little-endian, the key is X0..X7 with X0 first and the block is N1 || N2 with N1 (the half that
//! enters the round function first) first.  Magma's K_i = X_{i-1}, a0 = N1, a1 = N2.  Hence
//!   key_89[4w + j]  = key_magma[4w + 3 - j]   (bytes reversed inside each of the 8 key words,
//!                                              word order unchanged),
//!   block_89[j]     = block_magma[7 - j]      (all 8 bytes reversed: halves swapped and each
//!                                              half byte-reversed), for input and output alike.

use crate::RefCipher;

/// Eight rows of sixteen 4-bit values; row i substitutes nibble i (nibble 0 = least significant).
pub type SboxSet = [[u8; 16]; 8];

/// id-tc26-gost-28147-param-Z (1.2.643.7.1.2.5.1.1), the fixed S-box of GOST R 34.12-2015 Magma (RFC 8891).
pub const TC26_Z: SboxSet = [
    [12, 4, 6, 2, 10, 5, 11, 9, 14, 8, 13, 7, 0, 3, 15, 1],
    [6, 8, 2, 3, 9, 10, 5, 12, 1, 14, 4, 7, 11, 13, 0, 15],
    [11, 3, 5, 8, 2, 15, 10, 13, 14, 1, 7, 4, 12, 9, 6, 0],
    [12, 8, 2, 1, 13, 4, 15, 6, 7, 0, 10, 5, 3, 14, 9, 11],
    [7, 15, 5, 10, 8, 1, 6, 13, 0, 9, 3, 14, 11, 4, 2, 12],
    [5, 13, 15, 6, 9, 2, 12, 10, 11, 7, 8, 1, 4, 3, 14, 0],
    [8, 14, 2, 5, 6, 9, 1, 12, 15, 4, 11, 0, 13, 10, 3, 7],
    [1, 7, 14, 13, 0, 5, 8, 3, 4, 15, 10, 6, 9, 12, 11, 2],
];

/// id-GostR3411-94-TestParamSet (1.2.643.2.2.30.0).
pub const TEST_3411: SboxSet = [
    [4, 10, 9, 2, 13, 8, 0, 14, 6, 11, 1, 12, 7, 15, 5, 3],
    [14, 11, 4, 12, 6, 13, 15, 10, 2, 3, 8, 1, 0, 7, 5, 9],
    [5, 8, 1, 13, 10, 3, 4, 2, 14, 15, 12, 7, 6, 0, 9, 11],
    [7, 13, 10, 1, 0, 8, 9, 15, 14, 4, 6, 12, 11, 2, 5, 3],
    [6, 12, 7, 1, 5, 15, 13, 8, 4, 10, 9, 14, 0, 3, 11, 2],
    [4, 11, 10, 0, 7, 2, 1, 13, 3, 6, 8, 5, 9, 12, 15, 14],
    [13, 11, 4, 1, 3, 15, 5, 9, 0, 10, 14, 7, 6, 8, 2, 12],
    [1, 15, 13, 0, 5, 7, 10, 4, 9, 2, 3, 14, 6, 11, 8, 12],
];

/// id-Gost28147-89-CryptoPro-A-ParamSet (1.2.643.2.2.31.1).
pub const CRYPTOPRO_A: SboxSet = [
    [9, 6, 3, 2, 8, 11, 1, 7, 10, 4, 14, 15, 12, 0, 13, 5],
    [3, 7, 14, 9, 8, 10, 15, 0, 5, 2, 6, 12, 11, 4, 13, 1],
    [14, 4, 6, 2, 11, 3, 13, 8, 12, 15, 5, 10, 0, 7, 1, 9],
    [14, 7, 10, 12, 13, 1, 3, 9, 0, 2, 11, 4, 15, 8, 5, 6],
    [11, 5, 1, 9, 8, 13, 15, 0, 14, 4, 2, 3, 12, 7, 10, 6],
    [3, 10, 13, 12, 1, 2, 0, 11, 7, 5, 9, 4, 8, 15, 14, 6],
    [1, 13, 2, 9, 7, 10, 6, 0, 8, 12, 4, 5, 15, 3, 11, 14],
    [11, 10, 15, 5, 0, 12, 14, 8, 6, 2, 3, 9, 1, 7, 13, 4],
];

/// id-Gost28147-89-CryptoPro-B-ParamSet (1.2.643.2.2.31.2).
pub const CRYPTOPRO_B: SboxSet = [
    [8, 4, 11, 1, 3, 5, 0, 9, 2, 14, 10, 12, 13, 6, 7, 15],
    [0, 1, 2, 10, 4, 13, 5, 12, 9, 7, 3, 15, 11, 8, 6, 14],
    [14, 12, 0, 10, 9, 2, 13, 11, 7, 5, 8, 15, 3, 6, 1, 4],
    [7, 5, 0, 13, 11, 6, 1, 2, 3, 10, 12, 15, 4, 14, 9, 8],
    [2, 7, 12, 15, 9, 5, 10, 11, 1, 4, 0, 13, 6, 8, 14, 3],
    [8, 3, 2, 6, 4, 13, 14, 11, 12, 1, 7, 15, 10, 0, 9, 5],
    [5, 2, 10, 11, 9, 1, 12, 3, 7, 4, 13, 0, 6, 15, 8, 14],
    [0, 4, 11, 14, 8, 3, 7, 1, 10, 2, 9, 6, 15, 13, 5, 12],
];

/// id-Gost28147-89-CryptoPro-C-ParamSet (1.2.643.2.2.31.3).
pub const CRYPTOPRO_C: SboxSet = [
    [1, 11, 12, 2, 9, 13, 0, 15, 4, 5, 8, 14, 10, 7, 6, 3],
    [0, 1, 7, 13, 11, 4, 5, 2, 8, 14, 15, 12, 9, 10, 6, 3],
    [8, 2, 5, 0, 4, 9, 15, 10, 3, 7, 12, 13, 6, 14, 1, 11],
    [3, 6, 0, 1, 5, 13, 10, 8, 11, 2, 9, 7, 14, 15, 12, 4],
    [8, 13, 11, 0, 4, 5, 1, 2, 9, 3, 12, 14, 6, 15, 10, 7],
    [12, 9, 11, 1, 8, 14, 2, 4, 7, 3, 6, 5, 10, 0, 15, 13],
    [10, 9, 6, 8, 13, 14, 2, 0, 15, 3, 5, 11, 4, 1, 12, 7],
    [7, 4, 0, 5, 10, 2, 15, 14, 12, 6, 1, 11, 13, 9, 3, 8],
];

/// id-Gost28147-89-CryptoPro-D-ParamSet (1.2.643.2.2.31.4), RFC 4357 section 11.2 (row 0 = K1 ... row 7 = K8).
///
/// NOTE: this is NOT the table called `CryptoProD` in /repo/magma/src/sboxes.rs; that table is
/// id-GostR3411-94-CryptoProParamSet (see `CRYPTOPRO_3411`).  This table is what libgcrypt uses for
/// OID 1.2.643.2.2.31.4 (validated in tests/gost89.rs).
pub const CRYPTOPRO_D: SboxSet = [
    [15, 12, 2, 10, 6, 4, 5, 0, 7, 9, 14, 13, 1, 11, 8, 3],
    [11, 6, 3, 4, 12, 15, 14, 2, 7, 13, 8, 0, 5, 10, 9, 1],
    [1, 12, 11, 0, 15, 14, 6, 5, 10, 13, 4, 8, 9, 3, 7, 2],
    [1, 5, 14, 12, 10, 7, 0, 13, 6, 2, 11, 4, 9, 3, 15, 8],
    [0, 12, 8, 9, 13, 2, 10, 11, 7, 3, 6, 5, 4, 14, 15, 1],
    [8, 0, 15, 3, 2, 5, 14, 11, 1, 10, 4, 7, 12, 9, 13, 6],
    [3, 0, 6, 15, 1, 14, 9, 2, 13, 8, 12, 4, 11, 10, 5, 7],
    [1, 10, 6, 8, 15, 11, 0, 4, 12, 3, 5, 9, 7, 13, 2, 14],
];

/// id-GostR3411-94-CryptoProParamSet (1.2.643.2.2.30.1), RFC 4357 section 11.1 -- the S-box set of the
/// GOST R 34.11-94 "CryptoPro" hash.  Extra constant (not in the requested API): it is the table
/// that /repo/magma/src/sboxes.rs exposes under the name `CryptoProD`.
pub const CRYPTOPRO_3411: SboxSet = [
    [10, 4, 5, 6, 8, 1, 3, 7, 13, 12, 14, 0, 9, 2, 11, 15],
    [5, 15, 4, 0, 2, 13, 11, 9, 1, 7, 6, 3, 12, 14, 10, 8],
    [7, 15, 12, 14, 9, 4, 1, 0, 3, 11, 5, 2, 6, 10, 8, 13],
    [4, 10, 7, 12, 0, 15, 2, 8, 14, 1, 6, 5, 13, 11, 9, 3],
    [7, 6, 4, 11, 9, 12, 2, 10, 1, 8, 0, 14, 15, 13, 3, 5],
    [7, 6, 2, 4, 13, 9, 15, 0, 10, 1, 5, 11, 8, 14, 12, 3],
    [13, 14, 4, 1, 7, 0, 5, 10, 3, 12, 8, 15, 6, 2, 9, 11],
    [1, 3, 10, 9, 5, 11, 4, 15, 8, 6, 7, 14, 13, 0, 2, 12],
];

pub struct Gost89 {
    /// K1..K8
    k: [u32; 8],
    sbox: SboxSet,
}

impl Gost89 {
    /// `key`: 32 bytes, K1..K8 as big-endian words.  `sbox`: rows must hold values < 16.
    pub fn new(key: &[u8], sbox: &SboxSet) -> Self {
        assert_eq!(key.len(), 32, "GOST 28147-89 key must be 32 bytes");
        for row in sbox.iter() {
            for &v in row.iter() {
                assert!(v < 16, "S-box entries must be 4-bit values");
            }
        }
        let mut k = [0u32; 8];
        for i in 0..8 {
            k[i] = u32::from_be_bytes([key[4 * i], key[4 * i + 1], key[4 * i + 2], key[4 * i + 3]]);
        }
        Gost89 { k, sbox: *sbox }
    }

    /// t: V32 -> V32, nibble-wise substitution
    fn t(&self, a: u32) -> u32 {
        let mut r = 0u32;
        for i in 0..8 {
            let nib = (a >> (4 * i)) & 0xF;
            r |= (self.sbox[i][nib as usize] as u32) << (4 * i);
        }
        r
    }

    /// g[k](a) = t(a + k) <<< 11
    fn g(&self, k: u32, a: u32) -> u32 {
        self.t(a.wrapping_add(k)).rotate_left(11)
    }

    /// iteration key K_i, i = 1..=32
    fn iter_key(&self, i: usize) -> u32 {
        if i <= 24 { self.k[(i - 1) % 8] } else { self.k[32 - i] }
    }

    fn load(block: &[u8]) -> (u32, u32) {
        assert_eq!(block.len(), 8);
        let a1 = u32::from_be_bytes([block[0], block[1], block[2], block[3]]);
        let a0 = u32::from_be_bytes([block[4], block[5], block[6], block[7]]);
        (a1, a0)
    }

    fn store(block: &mut [u8], hi: u32, lo: u32) {
        block[..4].copy_from_slice(&hi.to_be_bytes());
        block[4..].copy_from_slice(&lo.to_be_bytes());
    }
}

impl RefCipher for Gost89 {
    fn block_size(&self) -> usize {
        8
    }

    fn encrypt(&self, block: &mut [u8]) {
        let (mut a1, mut a0) = Self::load(block);
        for i in 1..=31 {
            // G[K_i](a1, a0) = (a0, g[K_i](a0) xor a1)
            let n = self.g(self.iter_key(i), a0) ^ a1;
            a1 = a0;
            a0 = n;
        }
        // G*[K_32](a1, a0) = (g[K_32](a0) xor a1) || a0
        let hi = self.g(self.iter_key(32), a0) ^ a1;
        Self::store(block, hi, a0);
    }

    fn decrypt(&self, block: &mut [u8]) {
        let (mut a1, mut a0) = Self::load(block);
        for i in (2..=32).rev() {
            let n = self.g(self.iter_key(i), a0) ^ a1;
            a1 = a0;
            a0 = n;
        }
        let hi = self.g(self.iter_key(1), a0) ^ a1;
        Self::store(block, hi, a0);
    }
}

#[cfg(test)]
mod tests {
    //! RFC 8891 (GOST R 34.12-2015 Magma) appendix A values for t, g, the key schedule and the
    //! round-by-round encryption trace.
    use super::*;

    fn magma() -> Gost89 {
        let key: Vec<u8> = [
            0xffeeddccu32, 0xbbaa9988, 0x77665544, 0x33221100, 0xf0f1f2f3, 0xf4f5f6f7, 0xf8f9fafb, 0xfcfdfeff,
        ]
        .iter()
        .flat_map(|w| w.to_be_bytes())
        .collect();
        Gost89::new(&key, &TC26_Z)
    }

    #[test]
    fn rfc8891_t() {
        let c = magma();
        assert_eq!(c.t(0xfdb97531), 0x2a196f34);
        assert_eq!(c.t(0x2a196f34), 0xebd9f03a);
        assert_eq!(c.t(0xebd9f03a), 0xb039bb3d);
        assert_eq!(c.t(0xb039bb3d), 0x68695433);
    }

    #[test]
    fn rfc8891_g() {
        let c = magma();
        assert_eq!(c.g(0x87654321, 0xfedcba98), 0xfdcbc20c);
        assert_eq!(c.g(0xfdcbc20c, 0x87654321), 0x7e791a4b);
        assert_eq!(c.g(0x7e791a4b, 0xfdcbc20c), 0xc76549ec);
        assert_eq!(c.g(0xc76549ec, 0x7e791a4b), 0x9791c849);
    }

    #[test]
    fn rfc8891_key_schedule() {
        let c = magma();
        let k = [0xffeeddccu32, 0xbbaa9988, 0x77665544, 0x33221100, 0xf0f1f2f3, 0xf4f5f6f7, 0xf8f9fafb, 0xfcfdfeff];
        for i in 1..=24 {
            assert_eq!(c.iter_key(i), k[(i - 1) % 8]);
        }
        // K25..K32 = fcfdfeff, f8f9fafb, f4f5f6f7, f0f1f2f3, 33221100, 77665544, bbaa9988, ffeeddcc
        let tail = [0xfcfdfeffu32, 0xf8f9fafb, 0xf4f5f6f7, 0xf0f1f2f3, 0x33221100, 0x77665544, 0xbbaa9988, 0xffeeddcc];
        for i in 25..=32 {
            assert_eq!(c.iter_key(i), tail[i - 25]);
        }
    }

    #[test]
    fn rfc8891_encryption_trace() {
        let c = magma();
        let trace: [(u32, u32); 31] = [
            (0x76543210, 0x28da3b14), (0x28da3b14, 0xb14337a5), (0xb14337a5, 0x633a7c68), (0x633a7c68, 0xea89c02c),
            (0xea89c02c, 0x11fe726d), (0x11fe726d, 0xad0310a4), (0xad0310a4, 0x37d97f25), (0x37d97f25, 0x46324615),
            (0x46324615, 0xce995f2a), (0xce995f2a, 0x93c1f449), (0x93c1f449, 0x4811c7ad), (0x4811c7ad, 0xc4b3edca),
            (0xc4b3edca, 0x44ca5ce1), (0x44ca5ce1, 0xfef51b68), (0xfef51b68, 0x2098cd86), (0x2098cd86, 0x4f15b0bb),
            (0x4f15b0bb, 0xe32805bc), (0xe32805bc, 0xe7116722), (0xe7116722, 0x89cadf21), (0x89cadf21, 0xbac8444d),
            (0xbac8444d, 0x11263a21), (0x11263a21, 0x625434c3), (0x625434c3, 0x8025c0a5), (0x8025c0a5, 0xb0d66514),
            (0xb0d66514, 0x47b1d5f4), (0x47b1d5f4, 0xc78e6d50), (0xc78e6d50, 0x80251e99), (0x80251e99, 0x2b96eca6),
            (0x2b96eca6, 0x05ef4401), (0x05ef4401, 0x239a4577), (0x239a4577, 0xc2d8ca3d),
        ];
        let (mut a1, mut a0) = (0xfedcba98u32, 0x76543210u32);
        for i in 1..=31 {
            let n = c.g(c.iter_key(i), a0) ^ a1;
            a1 = a0;
            a0 = n;
            assert_eq!((a1, a0), trace[i - 1], "after G[K{i}]");
        }
        assert_eq!(c.g(c.iter_key(32), a0) ^ a1, 0x4ee901e5);
    }

    #[test]
    fn rows_are_permutations() {
        for set in [&TC26_Z, &TEST_3411, &CRYPTOPRO_A, &CRYPTOPRO_B, &CRYPTOPRO_C, &CRYPTOPRO_D, &CRYPTOPRO_3411] {
            for row in set.iter() {
                let mut seen = [false; 16];
                for &v in row.iter() {
                    assert!(v < 16 && !seen[v as usize]);
                    seen[v as usize] = true;
                }
            }
        }
    }
}
