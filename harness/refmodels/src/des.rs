//! DES and two/three-key Triple DES reference model, written literally from FIPS 46-3 (and NIST SP 800-67
//! for the TDEA keying options and the weak-key list).
//!
//! Bit numbering is that of the standard: bit 1 is the left-most (most significant) bit of a block, of the
//! key, and of every intermediate quantity; byte 0 of a block holds bits 1..8.  All permutations are the
//! standard's index tables.  For speed the four permutations used per block (IP, IP^-1, E, P) are expanded
//! once, at run time, from those literal tables into byte-indexed look-ups (`Lut`); the key schedule uses
//! the literal bit-by-bit `permute`.

use std::sync::OnceLock;

// ------------------------------------------------------------------ FIPS 46-3 tables

/// Initial permutation IP.
const IP: [u8; 64] = [
    58, 50, 42, 34, 26, 18, 10, 2, //
    60, 52, 44, 36, 28, 20, 12, 4, //
    62, 54, 46, 38, 30, 22, 14, 6, //
    64, 56, 48, 40, 32, 24, 16, 8, //
    57, 49, 41, 33, 25, 17, 9, 1, //
    59, 51, 43, 35, 27, 19, 11, 3, //
    61, 53, 45, 37, 29, 21, 13, 5, //
    63, 55, 47, 39, 31, 23, 15, 7,
];

/// Inverse initial permutation IP^-1.
const FP: [u8; 64] = [
    40, 8, 48, 16, 56, 24, 64, 32, //
    39, 7, 47, 15, 55, 23, 63, 31, //
    38, 6, 46, 14, 54, 22, 62, 30, //
    37, 5, 45, 13, 53, 21, 61, 29, //
    36, 4, 44, 12, 52, 20, 60, 28, //
    35, 3, 43, 11, 51, 19, 59, 27, //
    34, 2, 42, 10, 50, 18, 58, 26, //
    33, 1, 41, 9, 49, 17, 57, 25,
];

/// E bit-selection table (32 -> 48 bits).
const E: [u8; 48] = [
    32, 1, 2, 3, 4, 5, //
    4, 5, 6, 7, 8, 9, //
    8, 9, 10, 11, 12, 13, //
    12, 13, 14, 15, 16, 17, //
    16, 17, 18, 19, 20, 21, //
    20, 21, 22, 23, 24, 25, //
    24, 25, 26, 27, 28, 29, //
    28, 29, 30, 31, 32, 1,
];

/// Permutation P (32 -> 32 bits).
const P: [u8; 32] = [
    16, 7, 20, 21, //
    29, 12, 28, 17, //
    1, 15, 23, 26, //
    5, 18, 31, 10, //
    2, 8, 24, 14, //
    32, 27, 3, 9, //
    19, 13, 30, 6, //
    22, 11, 4, 25,
];

/// Permuted choice 1 (64 -> 56 bits): first 28 entries give C0, the last 28 give D0.
const PC1: [u8; 56] = [
    57, 49, 41, 33, 25, 17, 9, //
    1, 58, 50, 42, 34, 26, 18, //
    10, 2, 59, 51, 43, 35, 27, //
    19, 11, 3, 60, 52, 44, 36, //
    63, 55, 47, 39, 31, 23, 15, //
    7, 62, 54, 46, 38, 30, 22, //
    14, 6, 61, 53, 45, 37, 29, //
    21, 13, 5, 28, 20, 12, 4,
];

/// Permuted choice 2 (56 -> 48 bits), applied to CnDn.
const PC2: [u8; 48] = [
    14, 17, 11, 24, 1, 5, //
    3, 28, 15, 6, 21, 10, //
    23, 19, 12, 4, 26, 8, //
    16, 7, 27, 20, 13, 2, //
    41, 52, 31, 37, 47, 55, //
    30, 40, 51, 45, 33, 48, //
    44, 49, 39, 56, 34, 53, //
    46, 42, 50, 36, 29, 32,
];

/// Number of left shifts of C and D in iteration 1..16.
const SHIFTS: [u8; 16] = [1, 1, 2, 2, 2, 2, 2, 2, 1, 2, 2, 2, 2, 2, 2, 1];

/// The primitive functions S1..S8, in the standard's form: 4 rows x 16 columns.
const S: [[[u8; 16]; 4]; 8] = [
    [
        [14, 4, 13, 1, 2, 15, 11, 8, 3, 10, 6, 12, 5, 9, 0, 7],
        [0, 15, 7, 4, 14, 2, 13, 1, 10, 6, 12, 11, 9, 5, 3, 8],
        [4, 1, 14, 8, 13, 6, 2, 11, 15, 12, 9, 7, 3, 10, 5, 0],
        [15, 12, 8, 2, 4, 9, 1, 7, 5, 11, 3, 14, 10, 0, 6, 13],
    ],
    [
        [15, 1, 8, 14, 6, 11, 3, 4, 9, 7, 2, 13, 12, 0, 5, 10],
        [3, 13, 4, 7, 15, 2, 8, 14, 12, 0, 1, 10, 6, 9, 11, 5],
        [0, 14, 7, 11, 10, 4, 13, 1, 5, 8, 12, 6, 9, 3, 2, 15],
        [13, 8, 10, 1, 3, 15, 4, 2, 11, 6, 7, 12, 0, 5, 14, 9],
    ],
    [
        [10, 0, 9, 14, 6, 3, 15, 5, 1, 13, 12, 7, 11, 4, 2, 8],
        [13, 7, 0, 9, 3, 4, 6, 10, 2, 8, 5, 14, 12, 11, 15, 1],
        [13, 6, 4, 9, 8, 15, 3, 0, 11, 1, 2, 12, 5, 10, 14, 7],
        [1, 10, 13, 0, 6, 9, 8, 7, 4, 15, 14, 3, 11, 5, 2, 12],
    ],
    [
        [7, 13, 14, 3, 0, 6, 9, 10, 1, 2, 8, 5, 11, 12, 4, 15],
        [13, 8, 11, 5, 6, 15, 0, 3, 4, 7, 2, 12, 1, 10, 14, 9],
        [10, 6, 9, 0, 12, 11, 7, 13, 15, 1, 3, 14, 5, 2, 8, 4],
        [3, 15, 0, 6, 10, 1, 13, 8, 9, 4, 5, 11, 12, 7, 2, 14],
    ],
    [
        [2, 12, 4, 1, 7, 10, 11, 6, 8, 5, 3, 15, 13, 0, 14, 9],
        [14, 11, 2, 12, 4, 7, 13, 1, 5, 0, 15, 10, 3, 9, 8, 6],
        [4, 2, 1, 11, 10, 13, 7, 8, 15, 9, 12, 5, 6, 3, 0, 14],
        [11, 8, 12, 7, 1, 14, 2, 13, 6, 15, 0, 9, 10, 4, 5, 3],
    ],
    [
        [12, 1, 10, 15, 9, 2, 6, 8, 0, 13, 3, 4, 14, 7, 5, 11],
        [10, 15, 4, 2, 7, 12, 9, 5, 6, 1, 13, 14, 0, 11, 3, 8],
        [9, 14, 15, 5, 2, 8, 12, 3, 7, 0, 4, 10, 1, 13, 11, 6],
        [4, 3, 2, 12, 9, 5, 15, 10, 11, 14, 1, 7, 6, 0, 8, 13],
    ],
    [
        [4, 11, 2, 14, 15, 0, 8, 13, 3, 12, 9, 7, 5, 10, 6, 1],
        [13, 0, 11, 7, 4, 9, 1, 10, 14, 3, 5, 12, 2, 15, 8, 6],
        [1, 4, 11, 13, 12, 3, 7, 14, 10, 15, 6, 8, 0, 5, 9, 2],
        [6, 11, 13, 8, 1, 4, 10, 7, 9, 5, 0, 15, 14, 2, 3, 12],
    ],
    [
        [13, 2, 8, 4, 6, 15, 11, 1, 10, 9, 3, 14, 5, 0, 12, 7],
        [1, 15, 13, 8, 10, 3, 7, 4, 12, 5, 6, 11, 0, 14, 9, 2],
        [7, 11, 4, 1, 9, 12, 14, 2, 0, 6, 10, 13, 15, 3, 5, 8],
        [2, 1, 14, 7, 4, 10, 8, 13, 15, 12, 9, 0, 3, 5, 6, 11],
    ],
];

// ------------------------------------------------------------------ permutations

/// Literal application of an index table: output bit j (1-based from the left) of the `table.len()`-bit
/// result is input bit `table[j-1]` (1-based from the left) of the `in_bits`-bit input.  Values are held
/// right-aligned in a u64 (bit 1 = bit `in_bits-1` of the integer).
fn permute(input: u64, in_bits: u32, table: &[u8]) -> u64 {
    let mut out = 0u64;
    for &t in table {
        let bit = (input >> (in_bits - t as u32)) & 1;
        out = (out << 1) | bit;
    }
    out
}

/// Byte-indexed expansion of an index table: `lut[k][v]` = permute(v placed in input byte k, all other
/// input bits zero).  A permutation/selection is linear over GF(2), so the result is the OR (= XOR) of
/// the per-byte contributions.  Derived at run time from the literal table through `permute`.
struct Lut<const NBYTES: usize> {
    t: [[u64; 256]; NBYTES],
}

impl<const NBYTES: usize> Lut<NBYTES> {
    fn build(table: &[u8]) -> Self {
        let in_bits = 8 * NBYTES as u32;
        let mut t = [[0u64; 256]; NBYTES];
        for k in 0..NBYTES {
            for v in 0..256u64 {
                // byte k counted from the left (byte 0 holds bits 1..8)
                let input = v << (8 * (NBYTES - 1 - k));
                t[k][v as usize] = permute(input, in_bits, table);
            }
        }
        Lut { t }
    }

    fn apply(&self, input: u64) -> u64 {
        let mut out = 0u64;
        for k in 0..NBYTES {
            let v = (input >> (8 * (NBYTES - 1 - k))) & 0xff;
            out |= self.t[k][v as usize];
        }
        out
    }
}

struct Luts {
    ip: Lut<8>,
    fp: Lut<8>,
    e: Lut<4>,
    p: Lut<4>,
}

fn luts() -> &'static Luts {
    static L: OnceLock<Box<Luts>> = OnceLock::new();
    L.get_or_init(|| Box::new(Luts { ip: Lut::build(&IP), fp: Lut::build(&FP), e: Lut::build(&E), p: Lut::build(&P) }))
}

// ------------------------------------------------------------------ key schedule

/// The sixteen 48-bit subkeys K1..K16 (index 0 = K1), each right-aligned in a u64 with bit 1 of Kn as bit 47.
/// The eight parity bits (bits 8, 16, .., 64 of the key) are not used by PC-1 and hence ignored.
pub fn round_keys(key: &[u8; 8]) -> [u64; 16] {
    let k = u64::from_be_bytes(*key);
    let cd = permute(k, 64, &PC1);
    let mut c = (cd >> 28) & 0x0fff_ffff;
    let mut d = cd & 0x0fff_ffff;
    let mut ks = [0u64; 16];
    for n in 0..16 {
        for _ in 0..SHIFTS[n] {
            // left circular shift of a 28-bit quantity by one
            c = ((c << 1) | (c >> 27)) & 0x0fff_ffff;
            d = ((d << 1) | (d >> 27)) & 0x0fff_ffff;
        }
        ks[n] = permute((c << 28) | d, 56, &PC2);
    }
    ks
}

// ------------------------------------------------------------------ cipher function and block operation

/// f(R, K) = P(S1(B1) S2(B2) ... S8(B8)),  B1..B8 = E(R) xor K.
fn f(l: &Luts, r: u32, k: u64) -> u32 {
    let x = l.e.apply(r as u64) ^ k; // 48 bits
    let mut s_out = 0u32;
    for i in 0..8 {
        let b = ((x >> (42 - 6 * i)) & 0x3f) as usize; // B_(i+1), bits b1..b6 = bit 5..bit 0
        let row = ((b >> 5) << 1) | (b & 1); // b1 b6
        let col = (b >> 1) & 0xf; // b2 b3 b4 b5
        s_out = (s_out << 4) | S[i][row][col] as u32;
    }
    l.p.apply(s_out as u64) as u32
}

/// The enciphering computation with subkeys applied in the given order (K1..K16 enciphers, K16..K1 deciphers).
fn crypt(ks: &[u64; 16], reverse: bool, block: u64) -> u64 {
    let l = luts();
    let x = l.ip.apply(block);
    let mut left = (x >> 32) as u32;
    let mut right = x as u32;
    for n in 0..16 {
        let k = if reverse { ks[15 - n] } else { ks[n] };
        let new_right = left ^ f(l, right, k);
        left = right;
        right = new_right;
    }
    // pre-output block is R16 L16
    let pre = ((right as u64) << 32) | left as u64;
    l.fp.apply(pre)
}

/// Single DES.
#[derive(Clone)]
pub struct Des {
    ks: [u64; 16],
}

impl Des {
    /// `key`: 8 bytes; the parity bits (least significant bit of each byte) are ignored.
    pub fn new(key: &[u8]) -> Self {
        let key: &[u8; 8] = key.try_into().unwrap_or_else(|_| panic!("DES: unsupported key length {}", key.len()));
        Des { ks: round_keys(key) }
    }

    fn enc_u64(&self, b: u64) -> u64 {
        crypt(&self.ks, false, b)
    }

    fn dec_u64(&self, b: u64) -> u64 {
        crypt(&self.ks, true, b)
    }
}

fn load(block: &[u8]) -> u64 {
    u64::from_be_bytes(block.try_into().expect("DES block is 8 bytes"))
}

impl crate::RefCipher for Des {
    fn block_size(&self) -> usize {
        8
    }
    fn encrypt(&self, block: &mut [u8]) {
        let out = self.enc_u64(load(block));
        block.copy_from_slice(&out.to_be_bytes());
    }
    fn decrypt(&self, block: &mut [u8]) {
        let out = self.dec_u64(load(block));
        block.copy_from_slice(&out.to_be_bytes());
    }
}

// ------------------------------------------------------------------ Triple DES

/// Ede: C = E_k3(D_k2(E_k1(P))),  P = D_k1(E_k2(D_k3(C)))   (TDEA of SP 800-67 / ANSI X9.52)
/// Eee: C = E_k3(E_k2(E_k1(P))),  P = D_k1(D_k2(D_k3(C)))
#[derive(Clone, Copy, PartialEq, Eq, Debug)]
pub enum TdesMode {
    Ede,
    Eee,
}

/// Triple DES with two keys (k3 = k1) or three keys.
#[derive(Clone)]
pub struct Tdes {
    k1: Des,
    k2: Des,
    k3: Des,
    mode: TdesMode,
}

impl Tdes {
    /// `key`: 16 bytes (k1, k2; k3 = k1) or 24 bytes (k1, k2, k3).
    pub fn new(key: &[u8], mode: TdesMode) -> Self {
        let (k1, k2, k3) = match key.len() {
            16 => (&key[0..8], &key[8..16], &key[0..8]),
            24 => (&key[0..8], &key[8..16], &key[16..24]),
            n => panic!("TDES: unsupported key length {n}"),
        };
        Tdes { k1: Des::new(k1), k2: Des::new(k2), k3: Des::new(k3), mode }
    }
}

impl crate::RefCipher for Tdes {
    fn block_size(&self) -> usize {
        8
    }
    fn encrypt(&self, block: &mut [u8]) {
        let p = load(block);
        let c = match self.mode {
            TdesMode::Ede => self.k3.enc_u64(self.k2.dec_u64(self.k1.enc_u64(p))),
            TdesMode::Eee => self.k3.enc_u64(self.k2.enc_u64(self.k1.enc_u64(p))),
        };
        block.copy_from_slice(&c.to_be_bytes());
    }
    fn decrypt(&self, block: &mut [u8]) {
        let c = load(block);
        let p = match self.mode {
            TdesMode::Ede => self.k1.dec_u64(self.k2.enc_u64(self.k3.dec_u64(c))),
            TdesMode::Eee => self.k1.dec_u64(self.k2.dec_u64(self.k3.dec_u64(c))),
        };
        block.copy_from_slice(&p.to_be_bytes());
    }
}

// ------------------------------------------------------------------ weak keys

/// The 64 keys of NIST SP 800-67 §3.4.2 / FIPS 74: 4 weak (entries 0..4), 12 semi-weak (entries 4..16),
/// 48 possibly-weak (entries 16..64), each in odd-parity form.
pub const NIST_WEAK_KEYS: [[u8; 8]; 64] = [
    [0x01, 0x01, 0x01, 0x01, 0x01, 0x01, 0x01, 0x01],
    [0xFE, 0xFE, 0xFE, 0xFE, 0xFE, 0xFE, 0xFE, 0xFE],
    [0xE0, 0xE0, 0xE0, 0xE0, 0xF1, 0xF1, 0xF1, 0xF1],
    [0x1F, 0x1F, 0x1F, 0x1F, 0x0E, 0x0E, 0x0E, 0x0E],
    [0x01, 0x1F, 0x01, 0x1F, 0x01, 0x0E, 0x01, 0x0E],
    [0x1F, 0x01, 0x1F, 0x01, 0x0E, 0x01, 0x0E, 0x01],
    [0x01, 0xE0, 0x01, 0xE0, 0x01, 0xF1, 0x01, 0xF1],
    [0xE0, 0x01, 0xE0, 0x01, 0xF1, 0x01, 0xF1, 0x01],
    [0x01, 0xFE, 0x01, 0xFE, 0x01, 0xFE, 0x01, 0xFE],
    [0xFE, 0x01, 0xFE, 0x01, 0xFE, 0x01, 0xFE, 0x01],
    [0x1F, 0xE0, 0x1F, 0xE0, 0x0E, 0xF1, 0x0E, 0xF1],
    [0xE0, 0x1F, 0xE0, 0x1F, 0xF1, 0x0E, 0xF1, 0x0E],
    [0x1F, 0xFE, 0x1F, 0xFE, 0x0E, 0xFE, 0x0E, 0xFE],
    [0xFE, 0x1F, 0xFE, 0x1F, 0xFE, 0x0E, 0xFE, 0x0E],
    [0xE0, 0xFE, 0xE0, 0xFE, 0xF1, 0xFE, 0xF1, 0xFE],
    [0xFE, 0xE0, 0xFE, 0xE0, 0xFE, 0xF1, 0xFE, 0xF1],
    [0x01, 0x01, 0x1F, 0x1F, 0x01, 0x01, 0x0E, 0x0E],
    [0x1F, 0x1F, 0x01, 0x01, 0x0E, 0x0E, 0x01, 0x01],
    [0xE0, 0xE0, 0x1F, 0x1F, 0xF1, 0xF1, 0x0E, 0x0E],
    [0x01, 0x01, 0xE0, 0xE0, 0x01, 0x01, 0xF1, 0xF1],
    [0x1F, 0x1F, 0xE0, 0xE0, 0x0E, 0x0E, 0xF1, 0xF1],
    [0xE0, 0xE0, 0xFE, 0xFE, 0xF1, 0xF1, 0xFE, 0xFE],
    [0x01, 0x01, 0xFE, 0xFE, 0x01, 0x01, 0xFE, 0xFE],
    [0x1F, 0x1F, 0xFE, 0xFE, 0x0E, 0x0E, 0xFE, 0xFE],
    [0xE0, 0xFE, 0x01, 0x1F, 0xF1, 0xFE, 0x01, 0x0E],
    [0x01, 0x1F, 0x1F, 0x01, 0x01, 0x0E, 0x0E, 0x01],
    [0x1F, 0xE0, 0x01, 0xFE, 0x0E, 0xF1, 0x01, 0xFE],
    [0xE0, 0xFE, 0x1F, 0x01, 0xF1, 0xFE, 0x0E, 0x01],
    [0x01, 0x1F, 0xE0, 0xFE, 0x01, 0x0E, 0xF1, 0xFE],
    [0x1F, 0xE0, 0xE0, 0x1F, 0x0E, 0xF1, 0xF1, 0x0E],
    [0xE0, 0xFE, 0xFE, 0xE0, 0xF1, 0xFE, 0xFE, 0xF1],
    [0x01, 0x1F, 0xFE, 0xE0, 0x01, 0x0E, 0xFE, 0xF1],
    [0x1F, 0xE0, 0xFE, 0x01, 0x0E, 0xF1, 0xFE, 0x01],
    [0xFE, 0x01, 0x01, 0xFE, 0xFE, 0x01, 0x01, 0xFE],
    [0x01, 0xE0, 0x1F, 0xFE, 0x01, 0xF1, 0x0E, 0xFE],
    [0x1F, 0xFE, 0x01, 0xE0, 0x0E, 0xFE, 0x01, 0xF1],
    [0xFE, 0x01, 0x1F, 0xE0, 0xFE, 0x01, 0x0E, 0xF1],
    [0xFE, 0x01, 0xE0, 0x1F, 0xFE, 0x01, 0xF1, 0x0E],
    [0x1F, 0xFE, 0xE0, 0x01, 0x0E, 0xFE, 0xF1, 0x01],
    [0xFE, 0x1F, 0x01, 0xE0, 0xFE, 0x0E, 0x01, 0xF1],
    [0x01, 0xE0, 0xE0, 0x01, 0x01, 0xF1, 0xF1, 0x01],
    [0x1F, 0xFE, 0xFE, 0x1F, 0x0E, 0xFE, 0xFE, 0x0E],
    [0xFE, 0x1F, 0xE0, 0x01, 0xFE, 0x0E, 0xF1, 0x01],
    [0x01, 0xE0, 0xFE, 0x1F, 0x01, 0xF1, 0xFE, 0x0E],
    [0xE0, 0x01, 0x01, 0xE0, 0xF1, 0x01, 0x01, 0xF1],
    [0xFE, 0x1F, 0x1F, 0xFE, 0xFE, 0x0E, 0x0E, 0xFE],
    [0x01, 0xFE, 0x1F, 0xE0, 0x01, 0xFE, 0x0E, 0xF1],
    [0xE0, 0x01, 0x1F, 0xFE, 0xF1, 0x01, 0x0E, 0xFE],
    [0xFE, 0xE0, 0x01, 0x1F, 0xFE, 0xF1, 0x01, 0x0E],
    [0x01, 0xFE, 0xE0, 0x1F, 0x01, 0xFE, 0xF1, 0x0E],
    [0xE0, 0x01, 0xFE, 0x1F, 0xF1, 0x01, 0xFE, 0x0E],
    [0xFE, 0xE0, 0x1F, 0x01, 0xFE, 0xF1, 0x0E, 0x01],
    [0x01, 0xFE, 0xFE, 0x01, 0x01, 0xFE, 0xFE, 0x01],
    [0xE0, 0x1F, 0x01, 0xFE, 0xF1, 0x0E, 0x01, 0xFE],
    [0xFE, 0xE0, 0xE0, 0xFE, 0xFE, 0xF1, 0xF1, 0xFE],
    [0x1F, 0x01, 0x01, 0x1F, 0x0E, 0x01, 0x01, 0x0E],
    [0xE0, 0x1F, 0x1F, 0xE0, 0xF1, 0x0E, 0x0E, 0xF1],
    [0xFE, 0xFE, 0x01, 0x01, 0xFE, 0xFE, 0x01, 0x01],
    [0x1F, 0x01, 0xE0, 0xFE, 0x0E, 0x01, 0xF1, 0xFE],
    [0xE0, 0x1F, 0xFE, 0x01, 0xF1, 0x0E, 0xFE, 0x01],
    [0xFE, 0xFE, 0x1F, 0x1F, 0xFE, 0xFE, 0x0E, 0x0E],
    [0x1F, 0x01, 0xFE, 0xE0, 0x0E, 0x01, 0xFE, 0xF1],
    [0xE0, 0xE0, 0x01, 0x01, 0xF1, 0xF1, 0x01, 0x01],
    [0xFE, 0xFE, 0xE0, 0xE0, 0xFE, 0xFE, 0xF1, 0xF1],
];

/// true iff `key` with its eight parity bits (least significant bit of each byte) ignored is one of NIST_WEAK_KEYS
pub fn is_weak(key: &[u8; 8]) -> bool {
    let strip = |k: &[u8; 8]| -> [u8; 8] {
        let mut o = *k;
        for b in o.iter_mut() {
            *b &= 0xfe;
        }
        o
    };
    let k = strip(key);
    NIST_WEAK_KEYS.iter().any(|w| strip(w) == k)
}

#[cfg(test)]
mod tests {
    use super::*;

    /// the byte-indexed look-ups agree with the literal bit-by-bit permutation
    #[test]
    fn lut_matches_literal_permute() {
        let l = luts();
        let mut x = 0x0123_4567_89ab_cdefu64;
        for _ in 0..2000 {
            x = x.wrapping_mul(6364136223846793005).wrapping_add(1442695040888963407);
            let v = x ^ (x >> 29);
            assert_eq!(l.ip.apply(v), permute(v, 64, &IP));
            assert_eq!(l.fp.apply(v), permute(v, 64, &FP));
            assert_eq!(l.e.apply(v & 0xffff_ffff), permute(v & 0xffff_ffff, 32, &E));
            assert_eq!(l.p.apply(v & 0xffff_ffff), permute(v & 0xffff_ffff, 32, &P));
            assert_eq!(permute(permute(v, 64, &IP), 64, &FP), v);
        }
    }

    /// structural sanity of the literal tables
    #[test]
    fn tables_are_well_formed() {
        let is_perm = |t: &[u8], n: usize| {
            let mut seen = vec![false; n + 1];
            t.iter().all(|&i| (1..=n).contains(&(i as usize)) && !std::mem::replace(&mut seen[i as usize], true))
        };
        assert!(is_perm(&IP, 64) && is_perm(&FP, 64) && is_perm(&P, 32));
        assert!(is_perm(&PC1, 64) && is_perm(&PC2, 56)); // injective selections
        assert!(PC1.iter().all(|&i| i % 8 != 0)); // parity bits unused
        for sb in S.iter() {
            for row in sb.iter() {
                let mut seen = [false; 16];
                for &v in row {
                    assert!(!std::mem::replace(&mut seen[v as usize], true));
                }
            }
        }
        assert_eq!(SHIFTS.iter().map(|&s| s as u32).sum::<u32>(), 28);
    }
}
