//! IDEA (X. Lai, J. Massey, "A Proposal for a New Block Encryption Standard" / Lai's thesis, 1992).
//! 64-bit block, 128-bit key, 8 rounds + output transformation, 52 16-bit subkeys.
//! All 16-bit quantities are big-endian in keys and blocks.

use crate::RefCipher;

/// IDEA multiplication: multiplication modulo 2^16 + 1 where the 16-bit value 0 stands for 2^16.
pub fn mul(a: u16, b: u16) -> u16 {
    let x: u64 = if a == 0 { 65536 } else { a as u64 };
    let y: u64 = if b == 0 { 65536 } else { b as u64 };
    let r = (x * y) % 65537;
    // r is in 1..=65536 (65537 is prime, neither factor is 0 mod 65537); 65536 is represented by 0
    if r == 65536 { 0 } else { r as u16 }
}

/// Multiplicative inverse for `mul`: a^(65537-2) by repeated multiplication (Fermat).
fn mul_inv(a: u16) -> u16 {
    let mut result: u16 = 1;
    let mut base = a;
    let mut e: u32 = 65535;
    while e != 0 {
        if e & 1 == 1 {
            result = mul(result, base);
        }
        base = mul(base, base);
        e >>= 1;
    }
    result
}

/// Additive inverse modulo 2^16.
fn add_inv(a: u16) -> u16 {
    0u16.wrapping_sub(a)
}

pub struct Idea {
    ek: [u16; 52],
    dk: [u16; 52],
}

impl Idea {
    pub fn new(key: &[u8]) -> Self {
        assert_eq!(key.len(), 16, "idea: key must be 16 bytes");
        // Encryption subkeys: the 128-bit key is split into eight 16-bit subkeys; then the key is rotated left
        // by 25 bits and split again, and so on, until 52 subkeys have been produced.
        let mut k: u128 = 0;
        for &b in key {
            k = (k << 8) | b as u128;
        }
        let mut ek = [0u16; 52];
        let mut n = 0;
        'outer: loop {
            for j in 0..8 {
                if n == 52 {
                    break 'outer;
                }
                ek[n] = (k >> (112 - 16 * j)) as u16;
                n += 1;
            }
            k = k.rotate_left(25);
        }

        // Decryption subkeys.  With encryption subkeys Z(r)1..Z(r)6 for rounds r = 1..8 and Z(9)1..Z(9)4 for the
        // output transformation, the decryption subkeys of round r are
        //   r = 1:      Z(9)1^-1, -Z(9)2, -Z(9)3, Z(9)4^-1, Z(8)5, Z(8)6
        //   r = 2..8:   Z(10-r)1^-1, -Z(10-r)3, -Z(10-r)2, Z(10-r)4^-1, Z(9-r)5, Z(9-r)6
        //   output:     Z(1)1^-1, -Z(1)2, -Z(1)3, Z(1)4^-1
        let z = |r: usize, i: usize| ek[6 * (r - 1) + (i - 1)]; // Z(r)i, 1-based
        let mut dk = [0u16; 52];
        for r in 1..=9usize {
            let src = 10 - r;
            let base = 6 * (r - 1);
            dk[base] = mul_inv(z(src, 1));
            if r == 1 || r == 9 {
                dk[base + 1] = add_inv(z(src, 2));
                dk[base + 2] = add_inv(z(src, 3));
            } else {
                dk[base + 1] = add_inv(z(src, 3));
                dk[base + 2] = add_inv(z(src, 2));
            }
            dk[base + 3] = mul_inv(z(src, 4));
            if r <= 8 {
                dk[base + 4] = z(9 - r, 5);
                dk[base + 5] = z(9 - r, 6);
            }
        }
        Idea { ek, dk }
    }
}

/// The IDEA data path with subkeys `k` (the same for encryption and decryption).
fn crypt(k: &[u16; 52], block: &mut [u8]) {
    assert_eq!(block.len(), 8, "idea: block must be 8 bytes");
    let mut x1 = u16::from_be_bytes([block[0], block[1]]);
    let mut x2 = u16::from_be_bytes([block[2], block[3]]);
    let mut x3 = u16::from_be_bytes([block[4], block[5]]);
    let mut x4 = u16::from_be_bytes([block[6], block[7]]);
    for r in 0..8 {
        let z = &k[6 * r..6 * r + 6];
        let s1 = mul(x1, z[0]);
        let s2 = x2.wrapping_add(z[1]);
        let s3 = x3.wrapping_add(z[2]);
        let s4 = mul(x4, z[3]);
        let s5 = s1 ^ s3;
        let s6 = s2 ^ s4;
        let s7 = mul(s5, z[4]);
        let s8 = s6.wrapping_add(s7);
        let s9 = mul(s8, z[5]);
        let s10 = s7.wrapping_add(s9);
        let s11 = s1 ^ s9;
        let s12 = s3 ^ s9;
        let s13 = s2 ^ s10;
        let s14 = s4 ^ s10;
        // round output: the two middle words are exchanged
        x1 = s11;
        x2 = s12;
        x3 = s13;
        x4 = s14;
    }
    // output transformation (undoes the last exchange of the middle words)
    let y1 = mul(x1, k[48]);
    let y2 = x3.wrapping_add(k[49]);
    let y3 = x2.wrapping_add(k[50]);
    let y4 = mul(x4, k[51]);
    block[0..2].copy_from_slice(&y1.to_be_bytes());
    block[2..4].copy_from_slice(&y2.to_be_bytes());
    block[4..6].copy_from_slice(&y3.to_be_bytes());
    block[6..8].copy_from_slice(&y4.to_be_bytes());
}

impl RefCipher for Idea {
    fn block_size(&self) -> usize {
        8
    }
    fn encrypt(&self, block: &mut [u8]) {
        crypt(&self.ek, block);
    }
    fn decrypt(&self, block: &mut [u8]) {
        crypt(&self.dk, block);
    }
}
