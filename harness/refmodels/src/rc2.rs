//! RC2 per RFC 2268 (R. Rivest, "A Description of the RC2(r) Encryption Algorithm", 1998).
//! 64-bit block of four little-endian 16-bit words, key of T = 1..=128 bytes, effective key length
//! T1 = 1..=1024 bits.

use crate::RefCipher;

pub struct Rc2 {
    /// K[0..63], the expanded key as 16-bit words
    k: [u16; 64],
}

impl Rc2 {
    pub fn new(key: &[u8], effective_bits: usize) -> Self {
        let t = key.len();
        assert!((1..=128).contains(&t), "rc2: key must be 1..=128 bytes");
        assert!((1..=1024).contains(&effective_bits), "rc2: effective key bits must be 1..=1024");
        let t1 = effective_bits;
        // RFC 2268 section 2: key expansion
        let t8 = (t1 + 7) / 8;
        let tm: u8 = (255u32 % (1u32 << (8 + t1 - 8 * t8))) as u8;
        let mut l = [0u8; 128];
        l[..t].copy_from_slice(key);
        for i in t..128 {
            l[i] = PITABLE[(l[i - 1].wrapping_add(l[i - t])) as usize];
        }
        l[128 - t8] = PITABLE[(l[128 - t8] & tm) as usize];
        for i in (0..128 - t8).rev() {
            // i = 127-T8 down to 0
            l[i] = PITABLE[(l[i + 1] ^ l[i + t8]) as usize];
        }
        let mut k = [0u16; 64];
        for i in 0..64 {
            k[i] = l[2 * i] as u16 + 256 * (l[2 * i + 1] as u16);
        }
        Rc2 { k }
    }
}

/// rotation amounts s[0..3]
const S: [u32; 4] = [1, 2, 3, 5];

impl Rc2 {
    /// "Mix up R[i]"
    fn mix_up(&self, r: &mut [u16; 4], i: usize, j: &mut usize) {
        // indices are taken modulo 4: R[-1] = R[3] etc.
        let r1 = r[(i + 3) % 4];
        let r2 = r[(i + 2) % 4];
        let r3 = r[(i + 1) % 4];
        r[i] = r[i].wrapping_add(self.k[*j]).wrapping_add(r1 & r2).wrapping_add(!r1 & r3);
        *j += 1;
        r[i] = r[i].rotate_left(S[i]);
    }

    fn mixing_round(&self, r: &mut [u16; 4], j: &mut usize) {
        for i in 0..4 {
            self.mix_up(r, i, j);
        }
    }

    /// "Mash R[i]" for i = 0..3
    fn mashing_round(&self, r: &mut [u16; 4]) {
        for i in 0..4 {
            let r1 = r[(i + 3) % 4];
            r[i] = r[i].wrapping_add(self.k[(r1 & 63) as usize]);
        }
    }

    /// "R-Mix up R[i]"
    fn r_mix_up(&self, r: &mut [u16; 4], i: usize, j: &mut usize) {
        r[i] = r[i].rotate_right(S[i]);
        let r1 = r[(i + 3) % 4];
        let r2 = r[(i + 2) % 4];
        let r3 = r[(i + 1) % 4];
        r[i] = r[i].wrapping_sub(self.k[*j]).wrapping_sub(r1 & r2).wrapping_sub(!r1 & r3);
        // j counts down from 63; the final decrement below 0 is never used
        *j = j.wrapping_sub(1);
    }

    fn r_mixing_round(&self, r: &mut [u16; 4], j: &mut usize) {
        for i in (0..4).rev() {
            self.r_mix_up(r, i, j);
        }
    }

    fn r_mashing_round(&self, r: &mut [u16; 4]) {
        for i in (0..4).rev() {
            let r1 = r[(i + 3) % 4];
            r[i] = r[i].wrapping_sub(self.k[(r1 & 63) as usize]);
        }
    }
}

fn load(block: &[u8]) -> [u16; 4] {
    assert_eq!(block.len(), 8, "rc2: block must be 8 bytes");
    let mut r = [0u16; 4];
    for i in 0..4 {
        r[i] = u16::from_le_bytes([block[2 * i], block[2 * i + 1]]);
    }
    r
}

fn store(r: &[u16; 4], block: &mut [u8]) {
    for i in 0..4 {
        block[2 * i..2 * i + 2].copy_from_slice(&r[i].to_le_bytes());
    }
}

impl RefCipher for Rc2 {
    fn block_size(&self) -> usize {
        8
    }

    fn encrypt(&self, block: &mut [u8]) {
        let mut r = load(block);
        let mut j = 0usize;
        for _ in 0..5 {
            self.mixing_round(&mut r, &mut j);
        }
        self.mashing_round(&mut r);
        for _ in 0..6 {
            self.mixing_round(&mut r, &mut j);
        }
        self.mashing_round(&mut r);
        for _ in 0..5 {
            self.mixing_round(&mut r, &mut j);
        }
        store(&r, block);
    }

    fn decrypt(&self, block: &mut [u8]) {
        let mut r = load(block);
        let mut j = 63usize;
        for _ in 0..5 {
            self.r_mixing_round(&mut r, &mut j);
        }
        self.r_mashing_round(&mut r);
        for _ in 0..6 {
            self.r_mixing_round(&mut r, &mut j);
        }
        self.r_mashing_round(&mut r);
        for _ in 0..5 {
            self.r_mixing_round(&mut r, &mut j);
        }
        store(&r, block);
    }
}

/// PITABLE of RFC 2268 (a permutation of 0..=255 derived from the digits of pi).  Opaque constant; validated
/// through OpenSSL RC2-ECB and the RFC vectors in tests/rc2.rs.
const PITABLE: [u8; 256] = [
    217, 120, 249, 196, 25, 221, 181, 237, 40, 233, 253, 121, 74, 160, 216, 157, 198, 126, 55, 131,
    43, 118, 83, 142, 98, 76, 100, 136, 68, 139, 251, 162, 23, 154, 89, 245, 135, 179, 79, 19, 97,
    69, 109, 141, 9, 129, 125, 50, 189, 143, 64, 235, 134, 183, 123, 11, 240, 149, 33, 34, 92, 107,
    78, 130, 84, 214, 101, 147, 206, 96, 178, 28, 115, 86, 192, 20, 167, 140, 241, 220, 18, 117,
    202, 31, 59, 190, 228, 209, 66, 61, 212, 48, 163, 60, 182, 38, 111, 191, 14, 218, 70, 105, 7,
    87, 39, 242, 29, 155, 188, 148, 67, 3, 248, 17, 199, 246, 144, 239, 62, 231, 6, 195, 213, 47,
    200, 102, 30, 215, 8, 232, 234, 222, 128, 82, 238, 247, 132, 170, 114, 172, 53, 77, 106, 42,
    150, 26, 210, 113, 90, 21, 73, 116, 75, 159, 208, 94, 4, 24, 164, 236, 194, 224, 65, 110, 15,
    81, 203, 204, 36, 145, 175, 80, 161, 244, 112, 57, 153, 124, 58, 133, 35, 184, 180, 122, 252,
    2, 54, 91, 37, 85, 151, 49, 45, 93, 250, 152, 227, 138, 146, 174, 5, 223, 41, 16, 103, 108,
    186, 201, 211, 0, 230, 207, 225, 158, 168, 44, 99, 22, 1, 63, 88, 226, 137, 169, 13, 56, 52,
    27, 171, 51, 255, 176, 187, 72, 12, 95, 185, 177, 205, 46, 197, 243, 219, 71, 229, 165, 156,
    119, 10, 166, 32, 104, 254, 127, 193, 173,
];
