//! GOST R 34.12-2015 "Kuznyechik" (RFC 7801), literal X / S / L form.
//!
//! Conventions (RFC 7801): a 128-bit vector is a15 || a14 || ... || a0 and is serialised with a15
//! as the FIRST byte, so in a byte array `b` we have b[0] = a15, ..., b[15] = a0.  The 256-bit key
//! is K1 || K2 with K1 = first 16 bytes.
//!
//! GF(2^8) is taken modulo p(x) = x^8 + x^7 + x^6 + x + 1 (0x1C3); multiplication is shift-and-add
//! (`gf_mul`).  The only table besides pi is `MUL[i][x] = gf_mul(COEF[i], x)`, which is produced
//! at compile time by that same shift-and-add routine (it only removes the bit loop from the hot
//! path; it is not fused with S).

use crate::RefCipher;

/// The substitution pi (RFC 7801 section 4.1.1).  Validated by the RFC's S / key-schedule / cipher
/// test values and checked to be a permutation.
const PI: [u8; 256] = [
    0xFC, 0xEE, 0xDD, 0x11, 0xCF, 0x6E, 0x31, 0x16, 0xFB, 0xC4, 0xFA, 0xDA, 0x23, 0xC5, 0x04, 0x4D,
    0xE9, 0x77, 0xF0, 0xDB, 0x93, 0x2E, 0x99, 0xBA, 0x17, 0x36, 0xF1, 0xBB, 0x14, 0xCD, 0x5F, 0xC1,
    0xF9, 0x18, 0x65, 0x5A, 0xE2, 0x5C, 0xEF, 0x21, 0x81, 0x1C, 0x3C, 0x42, 0x8B, 0x01, 0x8E, 0x4F,
    0x05, 0x84, 0x02, 0xAE, 0xE3, 0x6A, 0x8F, 0xA0, 0x06, 0x0B, 0xED, 0x98, 0x7F, 0xD4, 0xD3, 0x1F,
    0xEB, 0x34, 0x2C, 0x51, 0xEA, 0xC8, 0x48, 0xAB, 0xF2, 0x2A, 0x68, 0xA2, 0xFD, 0x3A, 0xCE, 0xCC,
    0xB5, 0x70, 0x0E, 0x56, 0x08, 0x0C, 0x76, 0x12, 0xBF, 0x72, 0x13, 0x47, 0x9C, 0xB7, 0x5D, 0x87,
    0x15, 0xA1, 0x96, 0x29, 0x10, 0x7B, 0x9A, 0xC7, 0xF3, 0x91, 0x78, 0x6F, 0x9D, 0x9E, 0xB2, 0xB1,
    0x32, 0x75, 0x19, 0x3D, 0xFF, 0x35, 0x8A, 0x7E, 0x6D, 0x54, 0xC6, 0x80, 0xC3, 0xBD, 0x0D, 0x57,
    0xDF, 0xF5, 0x24, 0xA9, 0x3E, 0xA8, 0x43, 0xC9, 0xD7, 0x79, 0xD6, 0xF6, 0x7C, 0x22, 0xB9, 0x03,
    0xE0, 0x0F, 0xEC, 0xDE, 0x7A, 0x94, 0xB0, 0xBC, 0xDC, 0xE8, 0x28, 0x50, 0x4E, 0x33, 0x0A, 0x4A,
    0xA7, 0x97, 0x60, 0x73, 0x1E, 0x00, 0x62, 0x44, 0x1A, 0xB8, 0x38, 0x82, 0x64, 0x9F, 0x26, 0x41,
    0xAD, 0x45, 0x46, 0x92, 0x27, 0x5E, 0x55, 0x2F, 0x8C, 0xA3, 0xA5, 0x7D, 0x69, 0xD5, 0x95, 0x3B,
    0x07, 0x58, 0xB3, 0x40, 0x86, 0xAC, 0x1D, 0xF7, 0x30, 0x37, 0x6B, 0xE4, 0x88, 0xD9, 0xE7, 0x89,
    0xE1, 0x1B, 0x83, 0x49, 0x4C, 0x3F, 0xF8, 0xFE, 0x8D, 0x53, 0xAA, 0x90, 0xCA, 0xD8, 0x85, 0x61,
    0x20, 0x71, 0x67, 0xA4, 0x2D, 0x2B, 0x09, 0x5B, 0xCB, 0x9B, 0x25, 0xD0, 0xBE, 0xE5, 0x6C, 0x52,
    0x59, 0xA6, 0x74, 0xD2, 0xE6, 0xF4, 0xB4, 0xC0, 0xD1, 0x66, 0xAF, 0xC2, 0x39, 0x4B, 0x63, 0xB6,
];

/// Coefficients of the linear function l, in the order l(a15, a14, ..., a0), i.e. COEF[i]
/// multiplies byte i of the serialised block.
const COEF: [u8; 16] = [148, 32, 133, 16, 194, 192, 1, 251, 1, 192, 194, 16, 133, 32, 148, 1];

/// Shift-and-add multiplication in GF(2^8) mod x^8 + x^7 + x^6 + x + 1.
const fn gf_mul(a: u8, b: u8) -> u8 {
    let mut acc: u8 = 0;
    let mut a = a;
    let mut b = b;
    let mut i = 0;
    while i < 8 {
        if b & 1 != 0 {
            acc ^= a;
        }
        let carry = a & 0x80 != 0;
        a <<= 1;
        if carry {
            a ^= 0xC3; // x^8 = x^7 + x^6 + x + 1
        }
        b >>= 1;
        i += 1;
    }
    acc
}

const fn build_mul() -> [[u8; 256]; 16] {
    let mut t = [[0u8; 256]; 16];
    let mut i = 0;
    while i < 16 {
        let mut x = 0;
        while x < 256 {
            t[i][x] = gf_mul(COEF[i], x as u8);
            x += 1;
        }
        i += 1;
    }
    t
}

/// MUL[i][x] = COEF[i] * x in the field.
static MUL: [[u8; 256]; 16] = build_mul();

const fn build_pi_inv() -> [u8; 256] {
    let mut t = [0u8; 256];
    let mut x = 0;
    while x < 256 {
        t[PI[x] as usize] = x as u8;
        x += 1;
    }
    t
}

/// pi^-1, computed from PI.
static PI_INV: [u8; 256] = build_pi_inv();

type V128 = [u8; 16];

/// X[k](a) = k xor a
fn x(k: &V128, a: &mut V128) {
    for i in 0..16 {
        a[i] ^= k[i];
    }
}

/// S(a) = pi(a15) || ... || pi(a0)
fn s(a: &mut V128) {
    for i in 0..16 {
        a[i] = PI[a[i] as usize];
    }
}

fn s_inv(a: &mut V128) {
    for i in 0..16 {
        a[i] = PI_INV[a[i] as usize];
    }
}

/// l(a15, ..., a0) = 148*a15 + 32*a14 + ... + 148*a1 + 1*a0
fn l_small(a: &V128) -> u8 {
    let mut acc = 0u8;
    for i in 0..16 {
        acc ^= MUL[i][a[i] as usize];
    }
    acc
}

/// R(a15 || ... || a0) = l(a15, ..., a0) || a15 || ... || a1
fn r(a: &mut V128) {
    let t = l_small(a);
    for i in (1..16).rev() {
        a[i] = a[i - 1];
    }
    a[0] = t;
}

/// R^-1(a15 || ... || a0) = a14 || a13 || ... || a0 || l(a14, a13, ..., a0, a15)
fn r_inv(a: &mut V128) {
    let a15 = a[0];
    for i in 0..15 {
        a[i] = a[i + 1];
    }
    a[15] = a15;
    a[15] = l_small(a);
}

/// L = R^16
fn l(a: &mut V128) {
    for _ in 0..16 {
        r(a);
    }
}

/// L^-1 = (R^-1)^16
fn l_inv(a: &mut V128) {
    for _ in 0..16 {
        r_inv(a);
    }
}

/// LSX[k](a) = L(S(X[k](a)))
fn lsx(k: &V128, a: &mut V128) {
    x(k, a);
    s(a);
    l(a);
}

/// F[k](a1, a0) = (LSX[k](a1) xor a0, a1)
fn f(k: &V128, a1: &mut V128, a0: &mut V128) {
    let mut t = *a1;
    lsx(k, &mut t);
    x(a0, &mut t);
    *a0 = *a1;
    *a1 = t;
}

/// C_i = L(Vec128(i)), i = 1..=32
fn c(i: u8) -> V128 {
    let mut v = [0u8; 16];
    v[15] = i;
    l(&mut v);
    v
}

fn key_schedule(key: &[u8]) -> [V128; 10] {
    let mut rk = [[0u8; 16]; 10];
    let mut k1: V128 = key[..16].try_into().unwrap();
    let mut k2: V128 = key[16..].try_into().unwrap();
    rk[0] = k1;
    rk[1] = k2;
    // (K_{2i+1}, K_{2i+2}) = F[C_{8(i-1)+8}] ... F[C_{8(i-1)+1}] (K_{2i-1}, K_{2i}),  i = 1..4
    for i in 1..=4usize {
        for j in 1..=8usize {
            let cj = c((8 * (i - 1) + j) as u8);
            f(&cj, &mut k1, &mut k2);
        }
        rk[2 * i] = k1;
        rk[2 * i + 1] = k2;
    }
    rk
}

pub struct Kuznyechik {
    rk: [V128; 10],
}

impl Kuznyechik {
    /// `key`: 32 bytes (K1 || K2).
    pub fn new(key: &[u8]) -> Self {
        assert_eq!(key.len(), 32, "Kuznyechik key must be 32 bytes");
        Kuznyechik { rk: key_schedule(key) }
    }
}

impl RefCipher for Kuznyechik {
    fn block_size(&self) -> usize {
        16
    }

    /// E(a) = X[K10] LSX[K9] ... LSX[K2] LSX[K1] (a)
    fn encrypt(&self, block: &mut [u8]) {
        assert_eq!(block.len(), 16);
        let mut a: V128 = (&*block).try_into().unwrap();
        for i in 0..9 {
            lsx(&self.rk[i], &mut a);
        }
        x(&self.rk[9], &mut a);
        block.copy_from_slice(&a);
    }

    /// D(a) = X[K1] S^-1 L^-1 X[K2] ... S^-1 L^-1 X[K9] S^-1 L^-1 X[K10] (a)
    fn decrypt(&self, block: &mut [u8]) {
        assert_eq!(block.len(), 16);
        let mut a: V128 = (&*block).try_into().unwrap();
        for i in (1..10).rev() {
            x(&self.rk[i], &mut a);
            l_inv(&mut a);
            s_inv(&mut a);
        }
        x(&self.rk[0], &mut a);
        block.copy_from_slice(&a);
    }
}

#[cfg(test)]
mod tests {
    //! RFC 7801 section 5 test values for the individual transformations (private functions).
    use super::*;

    fn hx(s: &str) -> V128 {
        let v: Vec<u8> = (0..s.len() / 2).map(|i| u8::from_str_radix(&s[2 * i..2 * i + 2], 16).unwrap()).collect();
        v.try_into().unwrap()
    }

    #[test]
    fn pi_is_a_permutation() {
        let mut seen = [false; 256];
        for &v in PI.iter() {
            assert!(!seen[v as usize]);
            seen[v as usize] = true;
        }
        for x in 0..256 {
            assert_eq!(PI_INV[PI[x] as usize] as usize, x);
            assert_eq!(PI[PI_INV[x] as usize] as usize, x);
        }
    }

    #[test]
    fn field() {
        // x * x^7 = x^8 = x^7+x^6+x+1
        assert_eq!(gf_mul(2, 0x80), 0xC3);
        for a in 0..=255u8 {
            assert_eq!(gf_mul(a, 1), a);
            assert_eq!(gf_mul(1, a), a);
            assert_eq!(gf_mul(a, 0), 0);
            for b in 0..=255u8 {
                assert_eq!(gf_mul(a, b), gf_mul(b, a));
                // independent definition: carry-less product then reduction by 0x1C3
                let mut p: u32 = 0;
                for i in 0..8 {
                    if (b >> i) & 1 == 1 {
                        p ^= (a as u32) << i;
                    }
                }
                for i in (8..16).rev() {
                    if (p >> i) & 1 == 1 {
                        p ^= 0x1C3 << (i - 8);
                    }
                }
                assert_eq!(gf_mul(a, b) as u32, p);
            }
        }
        // every nonzero element has an inverse (0x1C3 is irreducible)
        for a in 1..=255u8 {
            assert_eq!((1..=255u8).filter(|&b| gf_mul(a, b) == 1).count(), 1);
        }
        for i in 0..16 {
            for v in 0..256 {
                assert_eq!(MUL[i][v], gf_mul(COEF[i], v as u8));
            }
        }
    }

    #[test]
    fn rfc7801_s() {
        let chain = [
            "ffeeddccbbaa99881122334455667700",
            "b66cd8887d38e8d77765aeea0c9a7efc",
            "559d8dd7bd06cbfe7e7b262523280d39",
            "0c3322fed531e4630d80ef5c5a81c50b",
            "23ae65633f842d29c5df529c13f5acda",
        ];
        for w in chain.windows(2) {
            let mut a = hx(w[0]);
            s(&mut a);
            assert_eq!(a, hx(w[1]));
            s_inv(&mut a);
            assert_eq!(a, hx(w[0]));
        }
    }

    #[test]
    fn rfc7801_r() {
        let chain = [
            "00000000000000000000000000000100",
            "94000000000000000000000000000001",
            "a5940000000000000000000000000000",
            "64a59400000000000000000000000000",
            "0d64a594000000000000000000000000",
        ];
        for w in chain.windows(2) {
            let mut a = hx(w[0]);
            r(&mut a);
            assert_eq!(a, hx(w[1]));
            r_inv(&mut a);
            assert_eq!(a, hx(w[0]));
        }
    }

    #[test]
    fn rfc7801_l() {
        let chain = [
            "64a59400000000000000000000000000",
            "d456584dd0e3e84cc3166e4b7fa2890d",
            "79d26221b87b584cd42fbc4ffea5de9a",
            "0e93691a0cfc60408b7b68f66b513c13",
            "e6a8094fee0aa204fd97bcb0b44b8580",
        ];
        for w in chain.windows(2) {
            let mut a = hx(w[0]);
            l(&mut a);
            assert_eq!(a, hx(w[1]));
            l_inv(&mut a);
            assert_eq!(a, hx(w[0]));
        }
    }

    #[test]
    fn rfc7801_key_schedule() {
        let cs = [
            "6ea276726c487ab85d27bd10dd849401",
            "dc87ece4d890f4b3ba4eb92079cbeb02",
            "b2259a96b4d88e0be7690430a44f7f03",
            "7bcd1b0b73e32ba5b79cb140f2551504",
            "156f6d791fab511deabb0c502fd18105",
            "a74af7efab73df160dd208608b9efe06",
            "c9e8819dc73ba5ae50f5b570561a6a07",
            "f6593616e6055689adfba18027aa2a08",
        ];
        for (i, e) in cs.iter().enumerate() {
            assert_eq!(c(i as u8 + 1), hx(e), "C{}", i + 1);
        }
        let mut key = Vec::new();
        key.extend_from_slice(&hx("8899aabbccddeeff0011223344556677"));
        key.extend_from_slice(&hx("fedcba98765432100123456789abcdef"));
        // F[C1](K1, K2)
        let mut k1 = hx("8899aabbccddeeff0011223344556677");
        let mut k2 = hx("fedcba98765432100123456789abcdef");
        f(&c(1), &mut k1, &mut k2);
        assert_eq!(k1, hx("c3d5fa01ebe36f7a9374427ad7ca8949"));
        assert_eq!(k2, hx("8899aabbccddeeff0011223344556677"));
        let rk = key_schedule(&key);
        let ks = [
            "8899aabbccddeeff0011223344556677",
            "fedcba98765432100123456789abcdef",
            "db31485315694343228d6aef8cc78c44",
            "3d4553d8e9cfec6815ebadc40a9ffd04",
            "57646468c44a5e28d3e59246f429f1ac",
            "bd079435165c6432b532e82834da581b",
            "51e640757e8745de705727265a0098b1",
            "5a7925017b9fdd3ed72a91a22286f984",
            "bb44e25378c73123a5f32f73cdb6e517",
            "72e9dd7416bcf45b755dbaa88e4a4043",
        ];
        for (i, e) in ks.iter().enumerate() {
            assert_eq!(rk[i], hx(e), "K{}", i + 1);
        }
    }

    #[test]
    fn rfc7801_encryption_trace() {
        let mut key = Vec::new();
        key.extend_from_slice(&hx("8899aabbccddeeff0011223344556677"));
        key.extend_from_slice(&hx("fedcba98765432100123456789abcdef"));
        let rk = key_schedule(&key);
        let mut a = hx("1122334455667700ffeeddccbbaa9988");
        let mut t = a;
        x(&rk[0], &mut t);
        assert_eq!(t, hx("99bb99ff99bb99ffffffffffffffffff"));
        s(&mut t);
        assert_eq!(t, hx("e87de8b6e87de8b6b6b6b6b6b6b6b6b6"));
        l(&mut t);
        assert_eq!(t, hx("e297b686e355b0a1cf4a2f9249140830"));
        let trace = [
            "e297b686e355b0a1cf4a2f9249140830",
            "285e497a0862d596b36f4258a1c69072",
            "0187a3a429b567841ad50d29207cc34e",
            "ec9bdba057d4f4d77c5d70619dcad206",
            "1357fd11de9257290c2a1473eb6bcde1",
            "28ae31e7d4c2354261027ef0b32897df",
            "07e223d56002c013d3f5e6f714b86d2d",
            "cd8ef6cd97e0e092a8e4cca61b38bf65",
            "0d8e40e4a800d06b2f1b37ea379ead8e",
        ];
        for i in 0..9 {
            lsx(&rk[i], &mut a);
            assert_eq!(a, hx(trace[i]), "after LSX[K{}]", i + 1);
        }
        x(&rk[9], &mut a);
        assert_eq!(a, hx("7f679d90bebc24305a468d42b9d4edcd"));
    }

    #[test]
    fn l_against_literal_shift_and_add() {
        // the table-driven l must equal the definition evaluated with gf_mul directly
        let mut st = 0x1234_5678_9abc_def0u64;
        for _ in 0..2000 {
            let mut a = [0u8; 16];
            for b in a.iter_mut() {
                st ^= st << 13;
                st ^= st >> 7;
                st ^= st << 17;
                *b = st as u8;
            }
            let mut acc = 0u8;
            for i in 0..16 {
                acc ^= gf_mul(COEF[i], a[i]);
            }
            assert_eq!(l_small(&a), acc);
        }
    }
}
