//! RC5-w/r/b reference model, written from R. Rivest, "The RC5 Encryption Algorithm" (1994/1997).
//!
//! Run-time parameters: word size w in {8, 16, 32, 64, 128} bits, rounds r in 0..=255,
//! key length b in 0..=255 bytes.  Words are held in `u128` and masked to w bits.
//!
//! Byte conventions (paper section 4 / draft-krovetz-rc6-rc5-vectors): the block is the two words
//! A, B, each stored little-endian, A first.  Key bytes K[0..b] are packed little-endian into
//! c = max(1, ceil(8b/w)) words L.
//!
//! Magic constants P_w = Odd((e-2) 2^w), Q_w = Odd((phi-1) 2^w): obtained here by truncating the
//! 128-bit binary expansions to w bits and forcing the low bit to one (which is the nearest odd
//! integer because the discarded fraction is strictly between 0 and 1).  The well-known values
//! for w = 16/32/64 are asserted in the unit test below.

use crate::RefCipher;

/// floor((e-2) * 2^128)  (the value used as P_128 is this, which is already odd)
const E_MINUS_2_FRAC_128: u128 = 0xB7E151628AED2A6ABF7158809CF4F3C7;
/// floor((phi-1) * 2^128) (already odd)
const PHI_MINUS_1_FRAC_128: u128 = 0x9E3779B97F4A7C15F39CC0605CEDC835;

fn magic(w: u32) -> (u128, u128) {
    let p = (E_MINUS_2_FRAC_128 >> (128 - w)) | 1;
    let q = (PHI_MINUS_1_FRAC_128 >> (128 - w)) | 1;
    (p, q)
}

fn mask_for(w: u32) -> u128 {
    if w == 128 { u128::MAX } else { (1u128 << w) - 1 }
}

/// x <<< n on w-bit words (n is reduced mod w)
fn rotl(x: u128, n: u128, w: u32, mask: u128) -> u128 {
    // w is a power of two dividing 2^32, so truncating n to 32 bits first does not change n mod w
    let n = (n as u32) % w;
    if n == 0 { x & mask } else { ((x << n) | (x >> (w - n))) & mask }
}

/// x >>> n on w-bit words (n is reduced mod w)
fn rotr(x: u128, n: u128, w: u32, mask: u128) -> u128 {
    // w is a power of two dividing 2^32, so truncating n to 32 bits first does not change n mod w
    let n = (n as u32) % w;
    if n == 0 { x & mask } else { ((x >> n) | (x << (w - n))) & mask }
}

pub struct Rc5 {
    w: u32,
    r: u32,
    mask: u128,
    /// expanded key table S[0 .. 2(r+1)]
    s: Vec<u128>,
}

impl Rc5 {
    pub fn new(w_bits: u32, rounds: u32, key: &[u8]) -> Self {
        assert!(matches!(w_bits, 8 | 16 | 32 | 64 | 128), "RC5: unsupported word size {w_bits}");
        assert!(rounds <= 255, "RC5: unsupported number of rounds {rounds}");
        assert!(key.len() <= 255, "RC5: unsupported key length {}", key.len());
        let w = w_bits;
        let mask = mask_for(w);
        let (pw, qw) = magic(w);
        let u = (w / 8) as usize; // bytes per word
        let b = key.len();

        // Step 1: convert the secret key from bytes to words.
        // c = max(1, ceil(8b/w)) = max(1, ceil(b/u))
        let c = std::cmp::max(1, b.div_ceil(u));
        let mut l = vec![0u128; c];
        for i in (0..b).rev() {
            l[i / u] = (rotl(l[i / u], 8, w, mask).wrapping_add(key[i] as u128)) & mask;
        }

        // Step 2: initialise the array S.
        let t = 2 * (rounds as usize + 1);
        let mut s = vec![0u128; t];
        s[0] = pw;
        for i in 1..t {
            s[i] = s[i - 1].wrapping_add(qw) & mask;
        }

        // Step 3: mix in the secret key.
        let (mut i, mut j) = (0usize, 0usize);
        let (mut a, mut bb) = (0u128, 0u128);
        for _ in 0..3 * std::cmp::max(t, c) {
            let x = s[i].wrapping_add(a).wrapping_add(bb) & mask;
            s[i] = rotl(x, 3, w, mask);
            a = s[i];
            let ab = a.wrapping_add(bb) & mask;
            let y = l[j].wrapping_add(ab) & mask;
            l[j] = rotl(y, ab, w, mask);
            bb = l[j];
            i = (i + 1) % t;
            j = (j + 1) % c;
        }

        Rc5 { w, r: rounds, mask, s }
    }

    fn load(&self, bytes: &[u8]) -> u128 {
        let mut x = 0u128;
        for (k, &v) in bytes.iter().enumerate() {
            x |= (v as u128) << (8 * k);
        }
        x
    }

    fn store(&self, x: u128, bytes: &mut [u8]) {
        for (k, v) in bytes.iter_mut().enumerate() {
            *v = (x >> (8 * k)) as u8;
        }
    }
}

impl RefCipher for Rc5 {
    fn block_size(&self) -> usize {
        (2 * self.w / 8) as usize
    }

    fn encrypt(&self, block: &mut [u8]) {
        assert_eq!(block.len(), self.block_size());
        let (w, mask, s) = (self.w, self.mask, &self.s);
        let u = (w / 8) as usize;
        let mut a = self.load(&block[..u]);
        let mut b = self.load(&block[u..]);
        a = a.wrapping_add(s[0]) & mask;
        b = b.wrapping_add(s[1]) & mask;
        for i in 1..=self.r as usize {
            a = rotl(a ^ b, b, w, mask).wrapping_add(s[2 * i]) & mask;
            b = rotl(b ^ a, a, w, mask).wrapping_add(s[2 * i + 1]) & mask;
        }
        self.store(a, &mut block[..u]);
        self.store(b, &mut block[u..]);
    }

    fn decrypt(&self, block: &mut [u8]) {
        assert_eq!(block.len(), self.block_size());
        let (w, mask, s) = (self.w, self.mask, &self.s);
        let u = (w / 8) as usize;
        let mut a = self.load(&block[..u]);
        let mut b = self.load(&block[u..]);
        for i in (1..=self.r as usize).rev() {
            b = rotr(b.wrapping_sub(s[2 * i + 1]) & mask, a, w, mask) ^ a;
            a = rotr(a.wrapping_sub(s[2 * i]) & mask, b, w, mask) ^ b;
        }
        b = b.wrapping_sub(s[1]) & mask;
        a = a.wrapping_sub(s[0]) & mask;
        self.store(a, &mut block[..u]);
        self.store(b, &mut block[u..]);
    }
}

#[cfg(test)]
mod tests {
    use super::*;

    #[test]
    fn magic_constants() {
        // Rivest's paper, section 4.3
        assert_eq!(magic(16), (0xB7E1, 0x9E37));
        assert_eq!(magic(32), (0xB7E15163, 0x9E3779B9));
        assert_eq!(magic(64), (0xB7E151628AED2A6B, 0x9E3779B97F4A7C15));
        // draft-krovetz-rc6-rc5-vectors
        assert_eq!(magic(8), (0xB7, 0x9F));
        assert_eq!(magic(128), (0xB7E151628AED2A6ABF7158809CF4F3C7, 0x9E3779B97F4A7C15F39CC0605CEDC835));
    }

    #[test]
    fn rotations() {
        assert_eq!(rotl(0x81, 1, 8, 0xff), 0x03);
        assert_eq!(rotl(0x81, 9, 8, 0xff), 0x03);
        assert_eq!(rotr(0x81, 1, 8, 0xff), 0xC0);
        assert_eq!(rotl(1u128 << 127, 1, 128, u128::MAX), 1);
        assert_eq!(rotr(1, 1, 128, u128::MAX), 1u128 << 127);
        assert_eq!(rotl(0x1234, 16, 16, 0xffff), 0x1234);
        for w in [8u32, 16, 32, 64, 128] {
            let m = mask_for(w);
            let x = 0x0123456789abcdef_fedcba9876543210u128 & m;
            for n in 0..300u128 {
                assert_eq!(rotr(rotl(x, n, w, m), n, w, m), x);
            }
        }
    }
}
