//! Threefish-256/512/1024 reference model, written from Ferguson et al., "The Skein Hash Function
//! Family", version 1.3, section 3.3.
//!
//! Byte conventions: key, tweak and block are sequences of 64-bit words stored little-endian
//! (BytesToWords of the paper); tweak = t0 || t1 (16 bytes).  The block size equals the key size.
//!
//! Tables 3 (permutation pi) and 4 (rotation constants R_{d mod 8, j}) are transcribed from the
//! paper.  Note the paper's pi is used as  v_{d+1,i} = f_{d,pi(i)}.

use crate::RefCipher;

const C240: u64 = 0x1BD11BDAA9FC1A22;

// Table 3: values of the word permutation pi(i)
const PI_4: [usize; 4] = [0, 3, 2, 1];
const PI_8: [usize; 8] = [2, 1, 4, 7, 6, 5, 0, 3];
const PI_16: [usize; 16] = [0, 9, 2, 13, 6, 11, 4, 15, 10, 7, 12, 3, 14, 5, 8, 1];

// Table 4: rotation constants R_{d,j}, row d = 0..7, column j = 0..Nw/2-1
const R_4: [[u32; 2]; 8] = [
    [14, 16],
    [52, 57],
    [23, 40],
    [5, 37],
    [25, 33],
    [46, 12],
    [58, 22],
    [32, 32],
];
const R_8: [[u32; 4]; 8] = [
    [46, 36, 19, 37],
    [33, 27, 14, 42],
    [17, 49, 36, 39],
    [44, 9, 54, 56],
    [39, 30, 34, 24],
    [13, 50, 10, 17],
    [25, 29, 39, 43],
    [8, 35, 56, 22],
];
const R_16: [[u32; 8]; 8] = [
    [24, 13, 8, 47, 8, 17, 22, 37],
    [38, 19, 10, 55, 49, 18, 23, 52],
    [33, 4, 51, 13, 34, 41, 59, 17],
    [5, 20, 48, 41, 47, 28, 16, 25],
    [41, 9, 37, 31, 12, 47, 44, 30],
    [16, 34, 56, 51, 4, 53, 42, 41],
    [31, 44, 47, 46, 19, 42, 44, 25],
    [9, 48, 35, 52, 23, 31, 37, 20],
];

pub struct Threefish {
    nw: usize,
    nr: usize,
    /// subkeys k_{s,i}, s = 0..=Nr/4, flattened: subkeys[s * nw + i]
    subkeys: Vec<u64>,
}

impl Threefish {
    pub fn new(key: &[u8], tweak: &[u8; 16]) -> Self {
        let (nw, nr) = match key.len() {
            32 => (4usize, 72usize),
            64 => (8, 72),
            128 => (16, 80),
            n => panic!("Threefish: unsupported key length {n}"),
        };
        // key words k_0..k_{Nw-1}, k_Nw = C240 xor k_0 xor ... xor k_{Nw-1}
        let mut k = vec![0u64; nw + 1];
        let mut parity = C240;
        for i in 0..nw {
            k[i] = u64::from_le_bytes(key[8 * i..8 * i + 8].try_into().unwrap());
            parity ^= k[i];
        }
        k[nw] = parity;
        // tweak words t_0, t_1, t_2 = t_0 xor t_1
        let t0 = u64::from_le_bytes(tweak[0..8].try_into().unwrap());
        let t1 = u64::from_le_bytes(tweak[8..16].try_into().unwrap());
        let t = [t0, t1, t0 ^ t1];

        let ns = nr / 4 + 1;
        let mut subkeys = vec![0u64; ns * nw];
        for s in 0..ns {
            for i in 0..nw {
                let base = k[(s + i) % (nw + 1)];
                let v = if i <= nw - 4 {
                    base
                } else if i == nw - 3 {
                    base.wrapping_add(t[s % 3])
                } else if i == nw - 2 {
                    base.wrapping_add(t[(s + 1) % 3])
                } else {
                    base.wrapping_add(s as u64)
                };
                subkeys[s * nw + i] = v;
            }
        }
        Threefish { nw, nr, subkeys }
    }

    fn rot(&self, d: usize, j: usize) -> u32 {
        match self.nw {
            4 => R_4[d % 8][j],
            8 => R_8[d % 8][j],
            _ => R_16[d % 8][j],
        }
    }

    fn pi(&self) -> &'static [usize] {
        match self.nw {
            4 => &PI_4,
            8 => &PI_8,
            _ => &PI_16,
        }
    }
}

impl RefCipher for Threefish {
    fn block_size(&self) -> usize {
        8 * self.nw
    }

    fn encrypt(&self, block: &mut [u8]) {
        assert_eq!(block.len(), self.block_size());
        let nw = self.nw;
        let pi = self.pi();
        let mut v = [0u64; 16];
        let mut e = [0u64; 16];
        let mut f = [0u64; 16];
        for i in 0..nw {
            v[i] = u64::from_le_bytes(block[8 * i..8 * i + 8].try_into().unwrap());
        }
        for d in 0..self.nr {
            // e_{d,i} = v_{d,i} + k_{d/4,i} if d mod 4 = 0, v_{d,i} otherwise
            for i in 0..nw {
                e[i] = if d % 4 == 0 { v[i].wrapping_add(self.subkeys[(d / 4) * nw + i]) } else { v[i] };
            }
            // (f_{d,2j}, f_{d,2j+1}) = MIX_{d,j}(e_{d,2j}, e_{d,2j+1})
            for j in 0..nw / 2 {
                let (x0, x1) = (e[2 * j], e[2 * j + 1]);
                let y0 = x0.wrapping_add(x1);
                let y1 = x1.rotate_left(self.rot(d, j)) ^ y0;
                f[2 * j] = y0;
                f[2 * j + 1] = y1;
            }
            // v_{d+1,i} = f_{d,pi(i)}
            for i in 0..nw {
                v[i] = f[pi[i]];
            }
        }
        // c_i = v_{Nr,i} + k_{Nr/4,i}
        for i in 0..nw {
            let c = v[i].wrapping_add(self.subkeys[(self.nr / 4) * nw + i]);
            block[8 * i..8 * i + 8].copy_from_slice(&c.to_le_bytes());
        }
    }

    fn decrypt(&self, block: &mut [u8]) {
        assert_eq!(block.len(), self.block_size());
        let nw = self.nw;
        let pi = self.pi();
        let mut v = [0u64; 16];
        let mut e = [0u64; 16];
        let mut f = [0u64; 16];
        for i in 0..nw {
            let c = u64::from_le_bytes(block[8 * i..8 * i + 8].try_into().unwrap());
            v[i] = c.wrapping_sub(self.subkeys[(self.nr / 4) * nw + i]);
        }
        for d in (0..self.nr).rev() {
            // undo v_{d+1,i} = f_{d,pi(i)}
            for i in 0..nw {
                f[pi[i]] = v[i];
            }
            // undo MIX: x1 = (y1 xor y0) >>> R, x0 = y0 - x1
            for j in 0..nw / 2 {
                let (y0, y1) = (f[2 * j], f[2 * j + 1]);
                let x1 = (y1 ^ y0).rotate_right(self.rot(d, j));
                let x0 = y0.wrapping_sub(x1);
                e[2 * j] = x0;
                e[2 * j + 1] = x1;
            }
            // undo the subkey injection
            for i in 0..nw {
                v[i] = if d % 4 == 0 { e[i].wrapping_sub(self.subkeys[(d / 4) * nw + i]) } else { e[i] };
            }
        }
        for i in 0..nw {
            block[8 * i..8 * i + 8].copy_from_slice(&v[i].to_le_bytes());
        }
    }
}
