//! Deliberately boring reference implementations (oracles), one module per algorithm,
//! written from the standards' pseudo-code.  See /verif/DESIGN.md §2.4.
#[cfg(feature = "ffi")]
pub mod ffi;

/// A keyed reference cipher.
pub trait RefCipher: Send + Sync {
    fn block_size(&self) -> usize;
    fn encrypt(&self, block: &mut [u8]);
    fn decrypt(&self, block: &mut [u8]);
}
