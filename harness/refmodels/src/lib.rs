//! Deliberately boring reference implementations (oracles), one module per algorithm,
//! written from the standards' pseudo-code.  See /verif/DESIGN.md §2.4.
#[cfg(feature = "ffi")]
pub mod ffi;

/// A keyed reference cipher.
pub trait RefCipher: Send + Sync {
    fn block_size(&self) -> usize;
    fn encrypt(&self, block: &mut [u8]);
    fn decrypt(&self, block: &mut [u8]);
}

pub mod aria;
pub mod camellia;
pub mod gift;
pub mod rc5;
pub mod sm4;
pub mod speck;
pub mod threefish;
pub mod aes;
pub mod blowfish;
pub mod des;
pub mod idea;
pub mod rc2;
pub mod xtea;
pub mod cast5;
pub mod cast6;
pub mod serpent;
pub mod twofish;
pub mod belt;
pub mod gost89;
pub mod kuznyechik;
