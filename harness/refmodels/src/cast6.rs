//! CAST-256 (CAST6) reference model, written literally from RFC 2612.
//!
//! * 128-bit block = four big-endian 32-bit words A | B | C | D.
//! * Keys of 128, 160, 192, 224 or 256 bits, zero-padded on the right to 256 bits
//!   (RFC 2612 section 2.4: the missing words E..H are set to zero).
//! * S-boxes S1..S4 and the round functions f1, f2, f3 are those of CAST-128 (shared with
//!   `crate::cast5`, where they are validated against OpenSSL / libgcrypt).

use crate::RefCipher;
use crate::cast5::{S1, S2, S3, S4, f1, f2, f3};

pub struct Cast6 {
    /// Kr(i) = (Kr0, Kr1, Kr2, Kr3) for quad-round i = 0..12
    kr: [[u32; 4]; 12],
    /// Km(i) = (Km0, Km1, Km2, Km3)
    km: [[u32; 4]; 12],
}

/// The four S-boxes in use (for the "identical to CAST-128's" check in tests/cast6.rs).
#[doc(hidden)]
pub fn sboxes() -> [&'static [u32; 256]; 4] {
    [&S1, &S2, &S3, &S4]
}

/// Forward quad-round  beta <- Q_i(beta)
fn q(beta: &mut [u32; 4], kr: &[u32; 4], km: &[u32; 4]) {
    let [mut a, mut b, mut c, mut d] = *beta;
    c ^= f1(d, km[0], kr[0]);
    b ^= f2(c, km[1], kr[1]);
    a ^= f3(b, km[2], kr[2]);
    d ^= f1(a, km[3], kr[3]);
    *beta = [a, b, c, d];
}

/// Reverse quad-round  beta <- QBAR_i(beta)
fn qbar(beta: &mut [u32; 4], kr: &[u32; 4], km: &[u32; 4]) {
    let [mut a, mut b, mut c, mut d] = *beta;
    d ^= f1(a, km[3], kr[3]);
    a ^= f3(b, km[2], kr[2]);
    b ^= f2(c, km[1], kr[1]);
    c ^= f1(d, km[0], kr[0]);
    *beta = [a, b, c, d];
}

/// Forward octave  kappa <- W_i(kappa)  with Tr = Tr.(i), Tm = Tm.(i)
fn w(kappa: &mut [u32; 8], tr: &[u32; 8], tm: &[u32; 8]) {
    let [mut a, mut b, mut c, mut d, mut e, mut f, mut g, mut h] = *kappa;
    g ^= f1(h, tm[0], tr[0]);
    f ^= f2(g, tm[1], tr[1]);
    e ^= f3(f, tm[2], tr[2]);
    d ^= f1(e, tm[3], tr[3]);
    c ^= f2(d, tm[4], tr[4]);
    b ^= f3(c, tm[5], tr[5]);
    a ^= f1(b, tm[6], tr[6]);
    h ^= f2(a, tm[7], tr[7]);
    *kappa = [a, b, c, d, e, f, g, h];
}

impl Cast6 {
    /// `key`: 16, 20, 24, 28 or 32 bytes.
    pub fn new(key: &[u8]) -> Self {
        assert!(matches!(key.len(), 16 | 20 | 24 | 28 | 32), "CAST-256: unsupported key length {}", key.len());
        let mut padded = [0u8; 32];
        padded[..key.len()].copy_from_slice(key);
        let mut kappa = [0u32; 8];
        for i in 0..8 {
            kappa[i] = u32::from_be_bytes([padded[4 * i], padded[4 * i + 1], padded[4 * i + 2], padded[4 * i + 3]]);
        }

        // Initialization of Tm, Tr
        let mut cm: u32 = 0x5A827999;
        let mm: u32 = 0x6ED9EBA1;
        let mut cr: u32 = 19;
        let mr: u32 = 17;
        let mut tm = [[0u32; 8]; 24];
        let mut tr = [[0u32; 8]; 24];
        for i in 0..24 {
            for j in 0..8 {
                tm[i][j] = cm;
                cm = cm.wrapping_add(mm);
                tr[i][j] = cr;
                cr = (cr + mr) % 32;
            }
        }

        // Key schedule
        let mut kr = [[0u32; 4]; 12];
        let mut km = [[0u32; 4]; 12];
        for i in 0..12 {
            w(&mut kappa, &tr[2 * i], &tm[2 * i]);
            w(&mut kappa, &tr[2 * i + 1], &tm[2 * i + 1]);
            let [a, b, c, d, e, f, g, h] = kappa;
            // Kr <- kappa: Kr0 = 5LSB(A), Kr1 = 5LSB(C), Kr2 = 5LSB(E), Kr3 = 5LSB(G)
            kr[i] = [a & 31, c & 31, e & 31, g & 31];
            // Km <- kappa: Km0 = H, Km1 = F, Km2 = D, Km3 = B
            km[i] = [h, f, d, b];
        }
        Cast6 { kr, km }
    }
}

fn load(block: &[u8]) -> [u32; 4] {
    assert_eq!(block.len(), 16);
    let mut beta = [0u32; 4];
    for i in 0..4 {
        beta[i] = u32::from_be_bytes([block[4 * i], block[4 * i + 1], block[4 * i + 2], block[4 * i + 3]]);
    }
    beta
}

fn store(block: &mut [u8], beta: &[u32; 4]) {
    for i in 0..4 {
        block[4 * i..4 * i + 4].copy_from_slice(&beta[i].to_be_bytes());
    }
}

impl RefCipher for Cast6 {
    fn block_size(&self) -> usize {
        16
    }

    fn encrypt(&self, block: &mut [u8]) {
        let mut beta = load(block);
        for i in 0..6 {
            q(&mut beta, &self.kr[i], &self.km[i]);
        }
        for i in 6..12 {
            qbar(&mut beta, &self.kr[i], &self.km[i]);
        }
        store(block, &beta);
    }

    fn decrypt(&self, block: &mut [u8]) {
        // "identical to encryption, except that the sets of quad-round keys are used in reverse order"
        let mut beta = load(block);
        for i in 0..6 {
            q(&mut beta, &self.kr[11 - i], &self.km[11 - i]);
        }
        for i in 6..12 {
            qbar(&mut beta, &self.kr[11 - i], &self.km[11 - i]);
        }
        store(block, &beta);
    }
}
