//! Serpent reference model (AES submission, Anderson / Biham / Knudsen), in the submission's
//! *bitslice-mode* formulation with table S-boxes.
//!
//! The 128-bit state is four 32-bit words X0..X3.  Bit j of (X0, X1, X2, X3) forms the 4-bit
//! column j (X0 supplies the least significant bit); an S-box application replaces each of the 32
//! columns by its table image, one column at a time.  In this formulation the initial and final
//! permutations disappear.
//!
//! Byte conventions (NESSIE vectors, nettle, libgcrypt): the words of both block and key are
//! little-endian; block bytes 0..3 are X0, key bytes 0..3 are w_{-8}.
//! A key shorter than 256 bits is extended by a single 1 bit followed by zeros, i.e. with
//! little-endian bytes:  key || 0x01 || 0x00 ...

use crate::RefCipher;

/// S0..S7 as in the submission (Appendix A.5).
static SBOX: [[u8; 16]; 8] = [
    [3, 8, 15, 1, 10, 6, 5, 11, 14, 13, 4, 2, 7, 0, 9, 12],
    [15, 12, 2, 7, 9, 0, 5, 10, 1, 11, 14, 8, 6, 13, 3, 4],
    [8, 6, 7, 9, 3, 12, 10, 15, 13, 1, 14, 4, 0, 11, 5, 2],
    [0, 15, 11, 8, 12, 9, 6, 3, 13, 1, 2, 4, 10, 7, 5, 14],
    [1, 15, 8, 3, 12, 0, 11, 6, 2, 5, 4, 10, 9, 14, 7, 13],
    [15, 5, 2, 11, 4, 10, 9, 12, 0, 3, 14, 8, 13, 6, 7, 1],
    [7, 2, 12, 5, 8, 4, 6, 11, 14, 9, 1, 15, 13, 3, 10, 0],
    [1, 13, 15, 0, 14, 8, 2, 11, 7, 4, 12, 10, 9, 3, 5, 6],
];

/// The fractional part of the golden ratio.
const PHI: u32 = 0x9e3779b9;

pub struct Serpent {
    /// the 33 128-bit round keys K0..K32 (bitslice form, four words each)
    k: [[u32; 4]; 33],
    /// inverse S-boxes, computed from SBOX
    inv: [[u8; 16]; 8],
}

/// Apply a 4-bit table to each of the 32 bit-columns of x.
#[inline(never)]
fn sbox_columns(table: &[u8; 16], x: [u32; 4]) -> [u32; 4] {
    let mut y = [0u32; 4];
    for j in 0..32 {
        // column j: X0 supplies bit 0 of the nibble, X3 bit 3
        let n = ((x[0] >> j) & 1) | ((x[1] >> j) & 1) << 1 | ((x[2] >> j) & 1) << 2 | ((x[3] >> j) & 1) << 3;
        let s = table[n as usize] as u32;
        y[0] |= (s & 1) << j;
        y[1] |= ((s >> 1) & 1) << j;
        y[2] |= ((s >> 2) & 1) << j;
        y[3] |= ((s >> 3) & 1) << j;
    }
    y
}

/// The linear transformation, bitslice mode.
fn lt(x: [u32; 4]) -> [u32; 4] {
    let [mut x0, mut x1, mut x2, mut x3] = x;
    x0 = x0.rotate_left(13);
    x2 = x2.rotate_left(3);
    x1 = x1 ^ x0 ^ x2;
    x3 = x3 ^ x2 ^ (x0 << 3);
    x1 = x1.rotate_left(1);
    x3 = x3.rotate_left(7);
    x0 = x0 ^ x1 ^ x3;
    x2 = x2 ^ x3 ^ (x1 << 7);
    x0 = x0.rotate_left(5);
    x2 = x2.rotate_left(22);
    [x0, x1, x2, x3]
}

/// The inverse linear transformation.
fn inv_lt(x: [u32; 4]) -> [u32; 4] {
    let [mut x0, mut x1, mut x2, mut x3] = x;
    x2 = x2.rotate_right(22);
    x0 = x0.rotate_right(5);
    x2 = x2 ^ x3 ^ (x1 << 7);
    x0 = x0 ^ x1 ^ x3;
    x3 = x3.rotate_right(7);
    x1 = x1.rotate_right(1);
    x3 = x3 ^ x2 ^ (x0 << 3);
    x1 = x1 ^ x0 ^ x2;
    x2 = x2.rotate_right(3);
    x0 = x0.rotate_right(13);
    [x0, x1, x2, x3]
}

fn xor4(a: [u32; 4], b: [u32; 4]) -> [u32; 4] {
    [a[0] ^ b[0], a[1] ^ b[1], a[2] ^ b[2], a[3] ^ b[3]]
}

fn load(block: &[u8]) -> [u32; 4] {
    assert_eq!(block.len(), 16);
    let mut x = [0u32; 4];
    for i in 0..4 {
        x[i] = u32::from_le_bytes([block[4 * i], block[4 * i + 1], block[4 * i + 2], block[4 * i + 3]]);
    }
    x
}

fn store(block: &mut [u8], x: [u32; 4]) {
    for i in 0..4 {
        block[4 * i..4 * i + 4].copy_from_slice(&x[i].to_le_bytes());
    }
}

impl Serpent {
    /// `key`: any length 16..=32 bytes.
    pub fn new(key: &[u8]) -> Self {
        assert!((16..=32).contains(&key.len()), "Serpent: unsupported key length {}", key.len());
        // pad to 256 bits: one 1 bit, then zeros
        let mut padded = [0u8; 32];
        padded[..key.len()].copy_from_slice(key);
        if key.len() < 32 {
            padded[key.len()] = 0x01;
        }
        // w[0..8] = w_{-8}..w_{-1};  w[i + 8] = w_i
        let mut w = [0u32; 140];
        for i in 0..8 {
            w[i] = u32::from_le_bytes([padded[4 * i], padded[4 * i + 1], padded[4 * i + 2], padded[4 * i + 3]]);
        }
        for i in 0..132u32 {
            let j = i as usize + 8;
            w[j] = (w[j - 8] ^ w[j - 5] ^ w[j - 3] ^ w[j - 1] ^ PHI ^ i).rotate_left(11);
        }
        // {k_0..k_3} = S3(w_0..w_3), {k_4..k_7} = S2(w_4..w_7), S1, S0, S7, S6, ...
        let mut k = [[0u32; 4]; 33];
        for i in 0..33 {
            let which = (3 + 8 * 5 - i) % 8; // (3 - i) mod 8
            let j = 4 * i + 8;
            k[i] = sbox_columns(&SBOX[which], [w[j], w[j + 1], w[j + 2], w[j + 3]]);
        }
        // inverse S-boxes
        let mut inv = [[0u8; 16]; 8];
        for s in 0..8 {
            for x in 0..16 {
                inv[s][SBOX[s][x] as usize] = x as u8;
            }
        }
        Serpent { k, inv }
    }
}

impl RefCipher for Serpent {
    fn block_size(&self) -> usize {
        16
    }

    fn encrypt(&self, block: &mut [u8]) {
        let mut x = load(block);
        // R_i(X) = L(S_i(X ^ K_i)), i = 0..30;  R_31(X) = S_31(X ^ K_31) ^ K_32
        for i in 0..31 {
            x = lt(sbox_columns(&SBOX[i % 8], xor4(x, self.k[i])));
        }
        x = xor4(sbox_columns(&SBOX[31 % 8], xor4(x, self.k[31])), self.k[32]);
        store(block, x);
    }

    fn decrypt(&self, block: &mut [u8]) {
        let mut x = load(block);
        x = xor4(sbox_columns(&self.inv[31 % 8], xor4(x, self.k[32])), self.k[31]);
        for i in (0..31).rev() {
            x = xor4(sbox_columns(&self.inv[i % 8], inv_lt(x)), self.k[i]);
        }
        store(block, x);
    }
}

/// Tables, exposed for checks in tests/serpent.rs.
#[doc(hidden)]
pub fn sbox_tables() -> [[u8; 16]; 8] {
    SBOX
}
