//! Twofish reference model, written literally from the specification paper
//! (Schneier, Kelsey, Whiting, Wagner, Hall, Ferguson: "Twofish: A 128-Bit Block Cipher", 1998),
//! section 4.
//!
//! * q0 / q1 are built from the 4-bit tables t0..t3 with the ROR4 and a,b mixing steps (4.3.5).
//! * MDS matrix over GF(2^8) modulo v(x) = x^8+x^6+x^5+x^3+1 (0x169) (4.3.2);
//!   RS matrix over GF(2^8) modulo w(x) = x^8+x^6+x^3+x^2+1 (0x14D) (4.3).
//! * h for k = 2, 3, 4 (4.3.2), key-dependent g(X) = h(X, S), PHT, 16 rounds with 1-bit rotations,
//!   input/output whitening.  All words little-endian.
//!
//! The only precomputation is plain look-up tables for q0, q1 (256 bytes each, filled by the
//! nibble construction) and for multiplication by the two non-trivial MDS constants 0x5B and 0xEF
//! (filled by the shift-and-add field multiplication below).

use crate::RefCipher;

/// t0..t3 for q0 and for q1
const Q_T: [[[u8; 16]; 4]; 2] = [
    [
        [0x8, 0x1, 0x7, 0xD, 0x6, 0xF, 0x3, 0x2, 0x0, 0xB, 0x5, 0x9, 0xE, 0xC, 0xA, 0x4],
        [0xE, 0xC, 0xB, 0x8, 0x1, 0x2, 0x3, 0x5, 0xF, 0x4, 0xA, 0x6, 0x7, 0x0, 0x9, 0xD],
        [0xB, 0xA, 0x5, 0xE, 0x6, 0xD, 0x9, 0x0, 0xC, 0x8, 0xF, 0x3, 0x2, 0x4, 0x7, 0x1],
        [0xD, 0x7, 0xF, 0x4, 0x1, 0x2, 0x6, 0xE, 0x9, 0xB, 0x3, 0x0, 0x8, 0x5, 0xC, 0xA],
    ],
    [
        [0x2, 0x8, 0xB, 0xD, 0xF, 0x7, 0x6, 0xE, 0x3, 0x1, 0x9, 0x4, 0x0, 0xA, 0xC, 0x5],
        [0x1, 0xE, 0x2, 0xB, 0x4, 0xC, 0x3, 0x7, 0x6, 0xD, 0xA, 0x5, 0xF, 0x9, 0x0, 0x8],
        [0x4, 0xC, 0x7, 0x5, 0x1, 0x6, 0x9, 0xA, 0x0, 0xE, 0xD, 0x8, 0x2, 0xB, 0x3, 0xF],
        [0xB, 0x9, 0x5, 0x1, 0xC, 0x3, 0xD, 0xE, 0x6, 0x4, 0x7, 0xF, 0x2, 0x0, 0x8, 0xA],
    ],
];

const MDS: [[u8; 4]; 4] = [
    [0x01, 0xEF, 0x5B, 0x5B],
    [0x5B, 0xEF, 0xEF, 0x01],
    [0xEF, 0x5B, 0x01, 0xEF],
    [0xEF, 0x01, 0xEF, 0x5B],
];

const RS: [[u8; 8]; 4] = [
    [0x01, 0xA4, 0x55, 0x87, 0x5A, 0x58, 0xDB, 0x9E],
    [0xA4, 0x56, 0x82, 0xF3, 0x1E, 0xC6, 0x68, 0xE5],
    [0x02, 0xA1, 0xFC, 0xC1, 0x47, 0xAE, 0x3D, 0x19],
    [0xA4, 0x55, 0x87, 0x5A, 0x58, 0xDB, 0x9E, 0x03],
];

const MDS_POLY: u16 = 0x169;
const RS_POLY: u16 = 0x14D;

/// Multiplication in GF(2^8) = GF(2)[x] / poly  (shift-and-add).
fn gf_mul(a: u8, b: u8, poly: u16) -> u8 {
    let mut acc: u16 = 0;
    let mut a = a as u16;
    let mut b = b;
    while b != 0 {
        if b & 1 != 0 {
            acc ^= a;
        }
        a <<= 1;
        if a & 0x100 != 0 {
            a ^= poly;
        }
        b >>= 1;
    }
    acc as u8
}

/// 4-bit rotate right by one.
fn ror4(x: u8) -> u8 {
    ((x >> 1) | (x << 3)) & 0xF
}

/// The fixed permutation q0 (which = 0) or q1 (which = 1) on one byte, section 4.3.5.
fn q_perm(which: usize, x: u8) -> u8 {
    let t = &Q_T[which];
    let a0 = x / 16;
    let b0 = x % 16;
    let a1 = a0 ^ b0;
    let b1 = a0 ^ ror4(b0) ^ ((8 * a0) % 16);
    let a2 = t[0][a1 as usize];
    let b2 = t[1][b1 as usize];
    let a3 = a2 ^ b2;
    let b3 = a2 ^ ror4(b2) ^ ((8 * a2) % 16);
    let a4 = t[2][a3 as usize];
    let b4 = t[3][b3 as usize];
    16 * b4 + a4
}

pub struct Twofish {
    /// k = N / 64
    k: usize,
    /// expanded key words K0..K39
    subkeys: [u32; 40],
    /// S-box key words in the order used by h: s[0] = S_{k-1}, ..., s[k-1] = S_0
    /// (i.e. the list S = (S_{k-1}, ..., S_0), so that s[i] plays the role of L_i)
    s: [u32; 4],
    t: Tables,
}

struct Tables {
    /// look-up tables q[0] = q0, q[1] = q1
    q: [[u8; 256]; 2],
    /// multiplication by 0x5B and by 0xEF modulo 0x169
    mul5b: [u8; 256],
    mulef: [u8; 256],
}

fn make_tables() -> Tables {
    let mut t = Tables { q: [[0; 256]; 2], mul5b: [0; 256], mulef: [0; 256] };
    for x in 0..256 {
        t.q[0][x] = q_perm(0, x as u8);
        t.q[1][x] = q_perm(1, x as u8);
        t.mul5b[x] = gf_mul(0x5B, x as u8, MDS_POLY);
        t.mulef[x] = gf_mul(0xEF, x as u8, MDS_POLY);
    }
    t
}

/// The function h(X, L) with L = (L_0, ..., L_{k-1}), figure 2 / section 4.3.2.
fn h(t: &Tables, x: u32, l: &[u32], k: usize) -> u32 {
    let q0 = &t.q[0];
    let q1 = &t.q[1];
    let lb = |i: usize| l[i].to_le_bytes();
    let mut y = x.to_le_bytes();
    if k == 4 {
        let l3 = lb(3);
        y[0] = q1[y[0] as usize] ^ l3[0];
        y[1] = q0[y[1] as usize] ^ l3[1];
        y[2] = q0[y[2] as usize] ^ l3[2];
        y[3] = q1[y[3] as usize] ^ l3[3];
    }
    if k >= 3 {
        let l2 = lb(2);
        y[0] = q1[y[0] as usize] ^ l2[0];
        y[1] = q1[y[1] as usize] ^ l2[1];
        y[2] = q0[y[2] as usize] ^ l2[2];
        y[3] = q0[y[3] as usize] ^ l2[3];
    }
    let l1 = lb(1);
    let l0 = lb(0);
    y[0] = q1[(q0[(q0[y[0] as usize] ^ l1[0]) as usize] ^ l0[0]) as usize];
    y[1] = q0[(q0[(q1[y[1] as usize] ^ l1[1]) as usize] ^ l0[1]) as usize];
    y[2] = q1[(q1[(q0[y[2] as usize] ^ l1[2]) as usize] ^ l0[2]) as usize];
    y[3] = q0[(q1[(q1[y[3] as usize] ^ l1[3]) as usize] ^ l0[3]) as usize];

    // z = MDS . y
    let mut z = [0u8; 4];
    for i in 0..4 {
        for j in 0..4 {
            z[i] ^= match MDS[i][j] {
                0x01 => y[j],
                0x5B => t.mul5b[y[j] as usize],
                0xEF => t.mulef[y[j] as usize],
                _ => unreachable!(),
            };
        }
    }
    u32::from_le_bytes(z)
}

impl Twofish {
    /// `key`: 16, 24 or 32 bytes.
    pub fn new(key: &[u8]) -> Self {
        assert!(matches!(key.len(), 16 | 24 | 32), "Twofish: unsupported key length {}", key.len());
        let k = key.len() / 8;
        let t = make_tables();

        // M_i, Me = (M0, M2, ...), Mo = (M1, M3, ...)
        let mut me = [0u32; 4];
        let mut mo = [0u32; 4];
        for i in 0..k {
            me[i] = u32::from_le_bytes([key[8 * i], key[8 * i + 1], key[8 * i + 2], key[8 * i + 3]]);
            mo[i] = u32::from_le_bytes([key[8 * i + 4], key[8 * i + 5], key[8 * i + 6], key[8 * i + 7]]);
        }

        // (s_{i,0..3}) = RS . (m_{8i} .. m_{8i+7});  S = (S_{k-1}, ..., S_0)
        let mut s = [0u32; 4];
        for i in 0..k {
            let m = &key[8 * i..8 * i + 8];
            let mut si = [0u8; 4];
            for r in 0..4 {
                for c in 0..8 {
                    si[r] ^= gf_mul(RS[r][c], m[c], RS_POLY);
                }
            }
            s[k - 1 - i] = u32::from_le_bytes(si);
        }

        // expanded key words
        let rho: u32 = 0x01010101;
        let mut subkeys = [0u32; 40];
        for i in 0..20u32 {
            let a = h(&t, (2 * i).wrapping_mul(rho), &me, k);
            let b = h(&t, (2 * i + 1).wrapping_mul(rho), &mo, k).rotate_left(8);
            subkeys[2 * i as usize] = a.wrapping_add(b);
            subkeys[2 * i as usize + 1] = a.wrapping_add(b.wrapping_mul(2)).rotate_left(9);
        }

        Twofish { k, subkeys, s, t }
    }

    /// g(X) = h(X, S)
    fn g(&self, x: u32) -> u32 {
        h(&self.t, x, &self.s, self.k)
    }

    /// (F0, F1) = F(R0, R1, r)
    fn f(&self, r0: u32, r1: u32, r: usize) -> (u32, u32) {
        let t0 = self.g(r0);
        let t1 = self.g(r1.rotate_left(8));
        let f0 = t0.wrapping_add(t1).wrapping_add(self.subkeys[2 * r + 8]);
        let f1 = t0.wrapping_add(t1.wrapping_mul(2)).wrapping_add(self.subkeys[2 * r + 9]);
        (f0, f1)
    }
}

fn load(block: &[u8]) -> [u32; 4] {
    assert_eq!(block.len(), 16);
    let mut x = [0u32; 4];
    for i in 0..4 {
        x[i] = u32::from_le_bytes([block[4 * i], block[4 * i + 1], block[4 * i + 2], block[4 * i + 3]]);
    }
    x
}

fn store(block: &mut [u8], x: [u32; 4]) {
    for i in 0..4 {
        block[4 * i..4 * i + 4].copy_from_slice(&x[i].to_le_bytes());
    }
}

impl RefCipher for Twofish {
    fn block_size(&self) -> usize {
        16
    }

    fn encrypt(&self, block: &mut [u8]) {
        let p = load(block);
        // input whitening  R_{0,i} = P_i ^ K_i
        let mut r = [p[0] ^ self.subkeys[0], p[1] ^ self.subkeys[1], p[2] ^ self.subkeys[2], p[3] ^ self.subkeys[3]];
        for round in 0..16 {
            let (f0, f1) = self.f(r[0], r[1], round);
            r = [(r[2] ^ f0).rotate_right(1), r[3].rotate_left(1) ^ f1, r[0], r[1]];
        }
        // output whitening (undoes the last swap)  C_i = R_{16,(i+2) mod 4} ^ K_{i+4}
        let c = [r[2] ^ self.subkeys[4], r[3] ^ self.subkeys[5], r[0] ^ self.subkeys[6], r[1] ^ self.subkeys[7]];
        store(block, c);
    }

    fn decrypt(&self, block: &mut [u8]) {
        let c = load(block);
        // R_16 from the output whitening
        let mut r = [c[2] ^ self.subkeys[6], c[3] ^ self.subkeys[7], c[0] ^ self.subkeys[4], c[1] ^ self.subkeys[5]];
        for round in (0..16).rev() {
            // r = R_{round+1};  R_{round,0} = r[2], R_{round,1} = r[3]
            let (f0, f1) = self.f(r[2], r[3], round);
            r = [r[2], r[3], r[0].rotate_left(1) ^ f0, (r[1] ^ f1).rotate_right(1)];
        }
        let p = [r[0] ^ self.subkeys[0], r[1] ^ self.subkeys[1], r[2] ^ self.subkeys[2], r[3] ^ self.subkeys[3]];
        store(block, p);
    }
}

/// Test hooks: the expanded key words K0..K39 and the S-box key words (S_0, ..., S_{k-1}), so that
/// tests/twofish.rs can compare them with the intermediate values printed in the specification.
impl Twofish {
    #[doc(hidden)]
    pub fn expanded_key(&self) -> [u32; 40] {
        self.subkeys
    }
    #[doc(hidden)]
    pub fn sbox_key(&self) -> Vec<u32> {
        (0..self.k).map(|i| self.s[self.k - 1 - i]).collect()
    }
}
