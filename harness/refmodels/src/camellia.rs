//! Camellia reference model, written literally from the pseudo-code of RFC 3713.
//!
//! 128-bit quantities are u128, 64-bit quantities u64, big-endian interpretation of the byte strings
//! (the leftmost byte is the most significant), as in the RFC.

const SBOX1: [u8; 256] = [
    0x70, 0x82, 0x2c, 0xec, 0xb3, 0x27, 0xc0, 0xe5, 0xe4, 0x85, 0x57, 0x35, 0xea, 0x0c, 0xae, 0x41,
    0x23, 0xef, 0x6b, 0x93, 0x45, 0x19, 0xa5, 0x21, 0xed, 0x0e, 0x4f, 0x4e, 0x1d, 0x65, 0x92, 0xbd,
    0x86, 0xb8, 0xaf, 0x8f, 0x7c, 0xeb, 0x1f, 0xce, 0x3e, 0x30, 0xdc, 0x5f, 0x5e, 0xc5, 0x0b, 0x1a,
    0xa6, 0xe1, 0x39, 0xca, 0xd5, 0x47, 0x5d, 0x3d, 0xd9, 0x01, 0x5a, 0xd6, 0x51, 0x56, 0x6c, 0x4d,
    0x8b, 0x0d, 0x9a, 0x66, 0xfb, 0xcc, 0xb0, 0x2d, 0x74, 0x12, 0x2b, 0x20, 0xf0, 0xb1, 0x84, 0x99,
    0xdf, 0x4c, 0xcb, 0xc2, 0x34, 0x7e, 0x76, 0x05, 0x6d, 0xb7, 0xa9, 0x31, 0xd1, 0x17, 0x04, 0xd7,
    0x14, 0x58, 0x3a, 0x61, 0xde, 0x1b, 0x11, 0x1c, 0x32, 0x0f, 0x9c, 0x16, 0x53, 0x18, 0xf2, 0x22,
    0xfe, 0x44, 0xcf, 0xb2, 0xc3, 0xb5, 0x7a, 0x91, 0x24, 0x08, 0xe8, 0xa8, 0x60, 0xfc, 0x69, 0x50,
    0xaa, 0xd0, 0xa0, 0x7d, 0xa1, 0x89, 0x62, 0x97, 0x54, 0x5b, 0x1e, 0x95, 0xe0, 0xff, 0x64, 0xd2,
    0x10, 0xc4, 0x00, 0x48, 0xa3, 0xf7, 0x75, 0xdb, 0x8a, 0x03, 0xe6, 0xda, 0x09, 0x3f, 0xdd, 0x94,
    0x87, 0x5c, 0x83, 0x02, 0xcd, 0x4a, 0x90, 0x33, 0x73, 0x67, 0xf6, 0xf3, 0x9d, 0x7f, 0xbf, 0xe2,
    0x52, 0x9b, 0xd8, 0x26, 0xc8, 0x37, 0xc6, 0x3b, 0x81, 0x96, 0x6f, 0x4b, 0x13, 0xbe, 0x63, 0x2e,
    0xe9, 0x79, 0xa7, 0x8c, 0x9f, 0x6e, 0xbc, 0x8e, 0x29, 0xf5, 0xf9, 0xb6, 0x2f, 0xfd, 0xb4, 0x59,
    0x78, 0x98, 0x06, 0x6a, 0xe7, 0x46, 0x71, 0xba, 0xd4, 0x25, 0xab, 0x42, 0x88, 0xa2, 0x8d, 0xfa,
    0x72, 0x07, 0xb9, 0x55, 0xf8, 0xee, 0xac, 0x0a, 0x36, 0x49, 0x2a, 0x68, 0x3c, 0x38, 0xf1, 0xa4,
    0x40, 0x28, 0xd3, 0x7b, 0xbb, 0xc9, 0x43, 0xc1, 0x15, 0xe3, 0xad, 0xf4, 0x77, 0xc7, 0x80, 0x9e,
];

const MASK8: u64 = 0xff;
const MASK32: u64 = 0xffff_ffff;
const MASK64: u128 = 0xffff_ffff_ffff_ffff;
const MASK128: u128 = 0xffff_ffff_ffff_ffff_ffff_ffff_ffff_ffff;

const SIGMA1: u64 = 0xA09E667F3BCC908B;
const SIGMA2: u64 = 0xB67AE8584CAA73B2;
const SIGMA3: u64 = 0xC6EF372FE94F82BE;
const SIGMA4: u64 = 0x54FF53A5F1D36F1C;
const SIGMA5: u64 = 0x10E527FADE682D1D;
const SIGMA6: u64 = 0xB05688C2B3E6C1FD;

/// 8-bit left rotation.
fn rol8(x: u8, n: u32) -> u8 {
    (x << n) | (x >> (8 - n))
}
/// 32-bit left rotation by one bit.
fn rol32_1(x: u64) -> u64 {
    ((x << 1) | (x >> 31)) & MASK32
}
/// 128-bit left rotation ("<<<" on a 128-bit operand).
fn rol128(x: u128, n: u32) -> u128 {
    if n == 0 { x } else { ((x << n) | (x >> (128 - n))) & MASK128 }
}

// RFC 3713 §2.4.2
fn sbox1(x: u64) -> u64 {
    SBOX1[x as usize] as u64
}
/// SBOX2[x] = SBOX1[x] <<< 1
fn sbox2(x: u64) -> u64 {
    rol8(SBOX1[x as usize], 1) as u64
}
/// SBOX3[x] = SBOX1[x] <<< 7
fn sbox3(x: u64) -> u64 {
    rol8(SBOX1[x as usize], 7) as u64
}
/// SBOX4[x] = SBOX1[x <<< 1]
fn sbox4(x: u64) -> u64 {
    SBOX1[rol8(x as u8, 1) as usize] as u64
}

/// RFC 3713 §2.4.1 F-function.
fn f(f_in: u64, ke: u64) -> u64 {
    let x = f_in ^ ke;
    let mut t1 = x >> 56;
    let mut t2 = (x >> 48) & MASK8;
    let mut t3 = (x >> 40) & MASK8;
    let mut t4 = (x >> 32) & MASK8;
    let mut t5 = (x >> 24) & MASK8;
    let mut t6 = (x >> 16) & MASK8;
    let mut t7 = (x >> 8) & MASK8;
    let mut t8 = x & MASK8;
    t1 = sbox1(t1);
    t2 = sbox2(t2);
    t3 = sbox3(t3);
    t4 = sbox4(t4);
    t5 = sbox2(t5);
    t6 = sbox3(t6);
    t7 = sbox4(t7);
    t8 = sbox1(t8);
    let y1 = t1 ^ t3 ^ t4 ^ t6 ^ t7 ^ t8;
    let y2 = t1 ^ t2 ^ t4 ^ t5 ^ t7 ^ t8;
    let y3 = t1 ^ t2 ^ t3 ^ t5 ^ t6 ^ t8;
    let y4 = t2 ^ t3 ^ t4 ^ t5 ^ t6 ^ t7;
    let y5 = t1 ^ t2 ^ t6 ^ t7 ^ t8;
    let y6 = t2 ^ t3 ^ t5 ^ t7 ^ t8;
    let y7 = t3 ^ t4 ^ t5 ^ t6 ^ t8;
    let y8 = t1 ^ t4 ^ t5 ^ t6 ^ t7;
    (y1 << 56) | (y2 << 48) | (y3 << 40) | (y4 << 32) | (y5 << 24) | (y6 << 16) | (y7 << 8) | y8
}

/// RFC 3713 §2.4.3 FL-function.
fn fl(fl_in: u64, ke: u64) -> u64 {
    let mut x1 = fl_in >> 32;
    let mut x2 = fl_in & MASK32;
    let k1 = ke >> 32;
    let k2 = ke & MASK32;
    x2 ^= rol32_1(x1 & k1);
    x1 ^= x2 | k2;
    (x1 << 32) | x2
}

/// RFC 3713 §2.4.3 FLINV-function.
fn flinv(flinv_in: u64, ke: u64) -> u64 {
    let mut y1 = flinv_in >> 32;
    let mut y2 = flinv_in & MASK32;
    let k1 = ke >> 32;
    let k2 = ke & MASK32;
    y1 ^= y2 | k2;
    y2 ^= rol32_1(y1 & k1);
    (y1 << 32) | y2
}

fn hi(x: u128) -> u64 {
    (x >> 64) as u64
}
fn lo(x: u128) -> u64 {
    (x & MASK64) as u64
}

pub struct Camellia {
    /// 18 (128-bit keys) or 24 (192/256-bit keys)
    rounds: usize,
    /// kw[0] = kw1 .. kw[3] = kw4
    kw: [u64; 4],
    /// k[0] = k1 .. k[rounds-1]
    k: [u64; 24],
    /// ke[0] = ke1 .. ke[5] = ke6 (only the first four used for 128-bit keys)
    ke: [u64; 6],
}

impl Camellia {
    pub fn new(key: &[u8]) -> Self {
        // §2.2 key scheduling: KL, KR
        let (kl, kr): (u128, u128) = match key.len() {
            16 => (u128::from_be_bytes(key.try_into().unwrap()), 0),
            24 => {
                let kl = u128::from_be_bytes(key[..16].try_into().unwrap());
                // K & MASK64 of the 192-bit key = its last 8 bytes
                let r = u64::from_be_bytes(key[16..24].try_into().unwrap()) as u128;
                (kl, (r << 64) | ((!r) & MASK64))
            }
            32 => (
                u128::from_be_bytes(key[..16].try_into().unwrap()),
                u128::from_be_bytes(key[16..].try_into().unwrap()),
            ),
            n => panic!("Camellia: unsupported key length {n}"),
        };

        // KA, KB
        let mut d1 = hi(kl ^ kr);
        let mut d2 = lo(kl ^ kr);
        d2 ^= f(d1, SIGMA1);
        d1 ^= f(d2, SIGMA2);
        d1 ^= hi(kl);
        d2 ^= lo(kl);
        d2 ^= f(d1, SIGMA3);
        d1 ^= f(d2, SIGMA4);
        let ka: u128 = ((d1 as u128) << 64) | d2 as u128;
        d1 = hi(ka ^ kr);
        d2 = lo(ka ^ kr);
        d2 ^= f(d1, SIGMA5);
        d1 ^= f(d2, SIGMA6);
        let kb: u128 = ((d1 as u128) << 64) | d2 as u128;

        let mut kw = [0u64; 4];
        let mut k = [0u64; 24];
        let mut ke = [0u64; 6];

        if key.len() == 16 {
            kw[0] = hi(rol128(kl, 0));
            kw[1] = lo(rol128(kl, 0));
            k[0] = hi(rol128(ka, 0));
            k[1] = lo(rol128(ka, 0));
            k[2] = hi(rol128(kl, 15));
            k[3] = lo(rol128(kl, 15));
            k[4] = hi(rol128(ka, 15));
            k[5] = lo(rol128(ka, 15));
            ke[0] = hi(rol128(ka, 30));
            ke[1] = lo(rol128(ka, 30));
            k[6] = hi(rol128(kl, 45));
            k[7] = lo(rol128(kl, 45));
            k[8] = hi(rol128(ka, 45));
            k[9] = lo(rol128(kl, 60));
            k[10] = hi(rol128(ka, 60));
            k[11] = lo(rol128(ka, 60));
            ke[2] = hi(rol128(kl, 77));
            ke[3] = lo(rol128(kl, 77));
            k[12] = hi(rol128(kl, 94));
            k[13] = lo(rol128(kl, 94));
            k[14] = hi(rol128(ka, 94));
            k[15] = lo(rol128(ka, 94));
            k[16] = hi(rol128(kl, 111));
            k[17] = lo(rol128(kl, 111));
            kw[2] = hi(rol128(ka, 111));
            kw[3] = lo(rol128(ka, 111));
            Camellia { rounds: 18, kw, k, ke }
        } else {
            kw[0] = hi(rol128(kl, 0));
            kw[1] = lo(rol128(kl, 0));
            k[0] = hi(rol128(kb, 0));
            k[1] = lo(rol128(kb, 0));
            k[2] = hi(rol128(kr, 15));
            k[3] = lo(rol128(kr, 15));
            k[4] = hi(rol128(ka, 15));
            k[5] = lo(rol128(ka, 15));
            ke[0] = hi(rol128(kr, 30));
            ke[1] = lo(rol128(kr, 30));
            k[6] = hi(rol128(kb, 30));
            k[7] = lo(rol128(kb, 30));
            k[8] = hi(rol128(kl, 45));
            k[9] = lo(rol128(kl, 45));
            k[10] = hi(rol128(ka, 45));
            k[11] = lo(rol128(ka, 45));
            ke[2] = hi(rol128(kl, 60));
            ke[3] = lo(rol128(kl, 60));
            k[12] = hi(rol128(kr, 60));
            k[13] = lo(rol128(kr, 60));
            k[14] = hi(rol128(kb, 60));
            k[15] = lo(rol128(kb, 60));
            k[16] = hi(rol128(kl, 77));
            k[17] = lo(rol128(kl, 77));
            ke[4] = hi(rol128(ka, 77));
            ke[5] = lo(rol128(ka, 77));
            k[18] = hi(rol128(kr, 94));
            k[19] = lo(rol128(kr, 94));
            k[20] = hi(rol128(ka, 94));
            k[21] = lo(rol128(ka, 94));
            k[22] = hi(rol128(kl, 111));
            k[23] = lo(rol128(kl, 111));
            kw[2] = hi(rol128(kb, 111));
            kw[3] = lo(rol128(kb, 111));
            Camellia { rounds: 24, kw, k, ke }
        }
    }

    /// §2.3 data randomizing part, parameterised by the (possibly swapped) subkeys.
    fn crypt(&self, kw: &[u64; 4], k: &[u64; 24], ke: &[u64; 6], block: &mut [u8]) {
        assert_eq!(block.len(), 16);
        let m = u128::from_be_bytes((&*block).try_into().unwrap());
        let mut d1 = hi(m);
        let mut d2 = lo(m);
        d1 ^= kw[0]; // prewhitening
        d2 ^= kw[1];
        let groups = self.rounds / 6;
        for g in 0..groups {
            for r in 0..3 {
                d2 ^= f(d1, k[6 * g + 2 * r]);
                d1 ^= f(d2, k[6 * g + 2 * r + 1]);
            }
            if g + 1 < groups {
                d1 = fl(d1, ke[2 * g]);
                d2 = flinv(d2, ke[2 * g + 1]);
            }
        }
        d2 ^= kw[2]; // postwhitening
        d1 ^= kw[3];
        let c: u128 = ((d2 as u128) << 64) | d1 as u128;
        block.copy_from_slice(&c.to_be_bytes());
    }
}

impl crate::RefCipher for Camellia {
    fn block_size(&self) -> usize {
        16
    }
    fn encrypt(&self, block: &mut [u8]) {
        self.crypt(&self.kw, &self.k, &self.ke, block);
    }
    /// "The same procedure with the subkeys in reverse order": kw1<->kw3, kw2<->kw4,
    /// k1<->k18 (k24), k2<->k17 (k23), ..., ke1<->ke4 (ke6), ke2<->ke3 (ke5), ...
    fn decrypt(&self, block: &mut [u8]) {
        let n = self.rounds;
        let nke = if n == 18 { 4 } else { 6 };
        let kw = [self.kw[2], self.kw[3], self.kw[0], self.kw[1]];
        let mut k = [0u64; 24];
        for i in 0..n {
            k[i] = self.k[n - 1 - i];
        }
        let mut ke = [0u64; 6];
        for i in 0..nke {
            ke[i] = self.ke[nke - 1 - i];
        }
        self.crypt(&kw, &k, &ke, block);
    }
}
