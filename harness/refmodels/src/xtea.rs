//! XTEA (R. Needham, D. Wheeler, "Tea extensions", 1997): 64-bit block, 128-bit key, 32 cycles
//! (64 Feistel rounds).  Byte convention (that of /repo/xtea/tests): the two block words and the four key
//! words are little-endian.

use crate::RefCipher;

const DELTA: u32 = 0x9E3779B9;
const CYCLES: u32 = 32;

pub struct Xtea {
    k: [u32; 4],
}

impl Xtea {
    pub fn new(key: &[u8]) -> Self {
        assert_eq!(key.len(), 16, "xtea: key must be 16 bytes");
        let mut k = [0u32; 4];
        for i in 0..4 {
            k[i] = u32::from_le_bytes([key[4 * i], key[4 * i + 1], key[4 * i + 2], key[4 * i + 3]]);
        }
        Xtea { k }
    }
}

fn load(block: &[u8]) -> (u32, u32) {
    assert_eq!(block.len(), 8, "xtea: block must be 8 bytes");
    (
        u32::from_le_bytes([block[0], block[1], block[2], block[3]]),
        u32::from_le_bytes([block[4], block[5], block[6], block[7]]),
    )
}

fn store(v0: u32, v1: u32, block: &mut [u8]) {
    block[0..4].copy_from_slice(&v0.to_le_bytes());
    block[4..8].copy_from_slice(&v1.to_le_bytes());
}

impl RefCipher for Xtea {
    fn block_size(&self) -> usize {
        8
    }

    fn encrypt(&self, block: &mut [u8]) {
        let (mut v0, mut v1) = load(block);
        let mut sum: u32 = 0;
        for _ in 0..CYCLES {
            v0 = v0.wrapping_add((((v1 << 4) ^ (v1 >> 5)).wrapping_add(v1)) ^ (sum.wrapping_add(self.k[(sum & 3) as usize])));
            sum = sum.wrapping_add(DELTA);
            v1 = v1.wrapping_add((((v0 << 4) ^ (v0 >> 5)).wrapping_add(v0)) ^ (sum.wrapping_add(self.k[((sum >> 11) & 3) as usize])));
        }
        store(v0, v1, block);
    }

    fn decrypt(&self, block: &mut [u8]) {
        let (mut v0, mut v1) = load(block);
        let mut sum: u32 = DELTA.wrapping_mul(CYCLES);
        for _ in 0..CYCLES {
            v1 = v1.wrapping_sub((((v0 << 4) ^ (v0 >> 5)).wrapping_add(v0)) ^ (sum.wrapping_add(self.k[((sum >> 11) & 3) as usize])));
            sum = sum.wrapping_sub(DELTA);
            v0 = v0.wrapping_sub((((v1 << 4) ^ (v1 >> 5)).wrapping_add(v1)) ^ (sum.wrapping_add(self.k[(sum & 3) as usize])));
        }
        store(v0, v1, block);
    }
}
