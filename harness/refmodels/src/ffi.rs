//! Third-party implementations present on the image, called through plain `extern "C"`.
//! Used ONLY to validate the reference models (refcheck); never as an oracle for /repo directly.
#![allow(non_camel_case_types, clippy::missing_safety_doc)]

use std::ffi::{CString, c_char, c_int, c_uint, c_void};
use std::sync::Once;

// ---------------------------------------------------------------- OpenSSL 3 (default + legacy provider)
#[link(name = "crypto")]
unsafe extern "C" {
    fn OSSL_PROVIDER_load(ctx: *mut c_void, name: *const c_char) -> *mut c_void;
    fn EVP_CIPHER_fetch(ctx: *mut c_void, algorithm: *const c_char, properties: *const c_char) -> *mut c_void;
    fn EVP_CIPHER_free(c: *mut c_void);
    fn EVP_CIPHER_CTX_new() -> *mut c_void;
    fn EVP_CIPHER_CTX_free(ctx: *mut c_void);
    fn EVP_CipherInit_ex(ctx: *mut c_void, cipher: *const c_void, engine: *mut c_void, key: *const u8, iv: *const u8, enc: c_int) -> c_int;
    fn EVP_CIPHER_CTX_set_key_length(ctx: *mut c_void, keylen: c_int) -> c_int;
    fn EVP_CIPHER_CTX_set_padding(ctx: *mut c_void, pad: c_int) -> c_int;
    fn EVP_CIPHER_CTX_ctrl(ctx: *mut c_void, typ: c_int, arg: c_int, ptr: *mut c_void) -> c_int;
    fn EVP_CipherUpdate(ctx: *mut c_void, out: *mut u8, outl: *mut c_int, inp: *const u8, inl: c_int) -> c_int;
}
const EVP_CTRL_SET_RC2_KEY_BITS: c_int = 0x3;

static OSSL_INIT: Once = Once::new();
fn ossl_init() {
    OSSL_INIT.call_once(|| unsafe {
        let d = CString::new("default").unwrap();
        let l = CString::new("legacy").unwrap();
        assert!(!OSSL_PROVIDER_load(std::ptr::null_mut(), d.as_ptr()).is_null(), "openssl default provider");
        assert!(!OSSL_PROVIDER_load(std::ptr::null_mut(), l.as_ptr()).is_null(), "openssl legacy provider");
    });
}

/// ECB over whole blocks with OpenSSL cipher `name` (e.g. "AES-128-ECB", "BF-ECB", "RC2-ECB").
/// `rc2_bits`: effective key bits for RC2.  Returns None if the cipher/key is not available.
pub fn openssl_ecb(name: &str, key: &[u8], rc2_bits: Option<u32>, encrypt: bool, data: &[u8]) -> Option<Vec<u8>> {
    ossl_init();
    unsafe {
        let cname = CString::new(name).unwrap();
        let cipher = EVP_CIPHER_fetch(std::ptr::null_mut(), cname.as_ptr(), std::ptr::null());
        if cipher.is_null() {
            return None;
        }
        let ctx = EVP_CIPHER_CTX_new();
        let enc = if encrypt { 1 } else { 0 };
        let mut ok = EVP_CipherInit_ex(ctx, cipher, std::ptr::null_mut(), std::ptr::null(), std::ptr::null(), enc) == 1;
        ok = ok && EVP_CIPHER_CTX_set_key_length(ctx, key.len() as c_int) == 1;
        if let Some(bits) = rc2_bits {
            ok = ok && EVP_CIPHER_CTX_ctrl(ctx, EVP_CTRL_SET_RC2_KEY_BITS, bits as c_int, std::ptr::null_mut()) == 1;
        }
        ok = ok && EVP_CipherInit_ex(ctx, std::ptr::null(), std::ptr::null_mut(), key.as_ptr(), std::ptr::null(), enc) == 1;
        ok = ok && EVP_CIPHER_CTX_set_padding(ctx, 0) == 1;
        let mut out = vec![0u8; data.len() + 64];
        let mut outl: c_int = 0;
        ok = ok && EVP_CipherUpdate(ctx, out.as_mut_ptr(), &mut outl, data.as_ptr(), data.len() as c_int) == 1;
        EVP_CIPHER_CTX_free(ctx);
        EVP_CIPHER_free(cipher);
        if !ok || outl as usize != data.len() {
            return None;
        }
        out.truncate(data.len());
        Some(out)
    }
}

// ---------------------------------------------------------------- libgcrypt
#[link(name = "gcrypt")]
unsafe extern "C" {
    fn gcry_check_version(req: *const c_char) -> *const c_char;
    fn gcry_control(cmd: c_int, ...) -> c_uint;
    fn gcry_cipher_open(h: *mut *mut c_void, algo: c_int, mode: c_int, flags: c_uint) -> c_uint;
    fn gcry_cipher_close(h: *mut c_void);
    fn gcry_cipher_setkey(h: *mut c_void, key: *const c_void, keylen: usize) -> c_uint;
    fn gcry_cipher_ctl(h: *mut c_void, cmd: c_int, buffer: *mut c_void, buflen: usize) -> c_uint;
    fn gcry_cipher_encrypt(h: *mut c_void, out: *mut c_void, outsize: usize, inp: *const c_void, inlen: usize) -> c_uint;
    fn gcry_cipher_decrypt(h: *mut c_void, out: *mut c_void, outsize: usize, inp: *const c_void, inlen: usize) -> c_uint;
}
pub const GCRY_CIPHER_IDEA: i32 = 1;
pub const GCRY_CIPHER_3DES: i32 = 2;
pub const GCRY_CIPHER_CAST5: i32 = 3;
pub const GCRY_CIPHER_BLOWFISH: i32 = 4;
pub const GCRY_CIPHER_AES128: i32 = 7;
pub const GCRY_CIPHER_AES192: i32 = 8;
pub const GCRY_CIPHER_AES256: i32 = 9;
pub const GCRY_CIPHER_TWOFISH: i32 = 10;
pub const GCRY_CIPHER_DES: i32 = 302;
pub const GCRY_CIPHER_TWOFISH128: i32 = 303;
pub const GCRY_CIPHER_SERPENT128: i32 = 304;
pub const GCRY_CIPHER_SERPENT192: i32 = 305;
pub const GCRY_CIPHER_SERPENT256: i32 = 306;
pub const GCRY_CIPHER_CAMELLIA128: i32 = 310;
pub const GCRY_CIPHER_CAMELLIA192: i32 = 311;
pub const GCRY_CIPHER_CAMELLIA256: i32 = 312;
pub const GCRY_CIPHER_GOST28147: i32 = 315;
pub const GCRY_CIPHER_SM4: i32 = 318;
const GCRY_CIPHER_MODE_ECB: c_int = 1;
const GCRYCTL_DISABLE_SECMEM: c_int = 37;
const GCRYCTL_INITIALIZATION_FINISHED: c_int = 38;
const GCRYCTL_SET_SBOX: c_int = 73;
/// gpg-error code for a weak key, as returned (masked) by gcry_cipher_setkey
pub const GPG_ERR_WEAK_KEY: u32 = 43;

static GCRY_INIT: Once = Once::new();
fn gcry_init() {
    GCRY_INIT.call_once(|| unsafe {
        gcry_check_version(std::ptr::null());
        gcry_control(GCRYCTL_DISABLE_SECMEM, 0 as c_int);
        gcry_control(GCRYCTL_INITIALIZATION_FINISHED, 0 as c_int);
    });
}

/// ECB with libgcrypt algorithm `algo`.  `sbox_oid`: for GOST 28147-89, the parameter-set OID
/// (e.g. "1.2.643.7.1.2.5.1.1" = tc26-Z, "1.2.643.2.2.31.1" = CryptoPro-A, "1.2.643.2.2.30.0" = Test).
/// Returns Err(code) with the gpg-error code (low 16 bits) if setkey fails (e.g. weak key = 43).
pub fn gcrypt_ecb(algo: i32, key: &[u8], sbox_oid: Option<&str>, encrypt: bool, data: &[u8]) -> Result<Vec<u8>, u32> {
    gcry_init();
    unsafe {
        let mut h: *mut c_void = std::ptr::null_mut();
        let e = gcry_cipher_open(&mut h, algo, GCRY_CIPHER_MODE_ECB, 0);
        if e != 0 {
            return Err(e & 0xffff);
        }
        if let Some(oid) = sbox_oid {
            let c = CString::new(oid).unwrap();
            let e = gcry_cipher_ctl(h, GCRYCTL_SET_SBOX, c.as_ptr() as *mut c_void, 0);
            if e != 0 {
                gcry_cipher_close(h);
                return Err(e & 0xffff);
            }
        }
        let e = gcry_cipher_setkey(h, key.as_ptr() as *const c_void, key.len());
        if e != 0 {
            gcry_cipher_close(h);
            return Err(e & 0xffff);
        }
        let mut out = vec![0u8; data.len()];
        let e = if encrypt {
            gcry_cipher_encrypt(h, out.as_mut_ptr() as *mut c_void, out.len(), data.as_ptr() as *const c_void, data.len())
        } else {
            gcry_cipher_decrypt(h, out.as_mut_ptr() as *mut c_void, out.len(), data.as_ptr() as *const c_void, data.len())
        };
        gcry_cipher_close(h);
        if e != 0 {
            return Err(e & 0xffff);
        }
        Ok(out)
    }
}

/// libgcrypt's DES weak-key detector: true iff setkey reports GPG_ERR_WEAK_KEY.
pub fn gcrypt_des_is_weak(key: &[u8; 8]) -> bool {
    matches!(gcrypt_ecb(GCRY_CIPHER_DES, key, None, true, &[0u8; 8]), Err(GPG_ERR_WEAK_KEY))
}

// ---------------------------------------------------------------- nettle
#[link(name = "nettle")]
unsafe extern "C" {
    fn nettle_serpent_set_key(ctx: *mut c_void, length: usize, key: *const u8);
    fn nettle_serpent_encrypt(ctx: *const c_void, length: usize, dst: *mut u8, src: *const u8);
    fn nettle_serpent_decrypt(ctx: *const c_void, length: usize, dst: *mut u8, src: *const u8);
    fn nettle_twofish_set_key(ctx: *mut c_void, length: usize, key: *const u8);
    fn nettle_twofish_encrypt(ctx: *const c_void, length: usize, dst: *mut u8, src: *const u8);
    fn nettle_twofish_decrypt(ctx: *const c_void, length: usize, dst: *mut u8, src: *const u8);
}

/// nettle Serpent, any key length 16..=32 (nettle pads shorter keys as the submission specifies).
pub fn nettle_serpent(key: &[u8], encrypt: bool, data: &[u8]) -> Vec<u8> {
    assert!((16..=32).contains(&key.len()) && data.len() % 16 == 0);
    let mut ctx = vec![0u64; 128]; // struct serpent_ctx is 33*4*4 = 528 bytes
    let mut out = vec![0u8; data.len()];
    unsafe {
        nettle_serpent_set_key(ctx.as_mut_ptr() as *mut c_void, key.len(), key.as_ptr());
        if encrypt {
            nettle_serpent_encrypt(ctx.as_ptr() as *const c_void, data.len(), out.as_mut_ptr(), data.as_ptr());
        } else {
            nettle_serpent_decrypt(ctx.as_ptr() as *const c_void, data.len(), out.as_mut_ptr(), data.as_ptr());
        }
    }
    out
}

/// nettle Twofish, key length 16, 24 or 32.
pub fn nettle_twofish(key: &[u8], encrypt: bool, data: &[u8]) -> Vec<u8> {
    assert!(matches!(key.len(), 16 | 24 | 32) && data.len() % 16 == 0);
    let mut ctx = vec![0u64; 1024]; // struct twofish_ctx: 40 + 4*256 u32 = 4256 bytes
    let mut out = vec![0u8; data.len()];
    unsafe {
        nettle_twofish_set_key(ctx.as_mut_ptr() as *mut c_void, key.len(), key.as_ptr());
        if encrypt {
            nettle_twofish_encrypt(ctx.as_ptr() as *const c_void, data.len(), out.as_mut_ptr(), data.as_ptr());
        } else {
            nettle_twofish_decrypt(ctx.as_ptr() as *const c_void, data.len(), out.as_mut_ptr(), data.as_ptr());
        }
    }
    out
}

#[cfg(test)]
mod tests {
    use super::*;
    fn hx(s: &str) -> Vec<u8> {
        (0..s.len() / 2).map(|i| u8::from_str_radix(&s[2 * i..2 * i + 2], 16).unwrap()).collect()
    }
    #[test]
    fn fips197_c1_everywhere() {
        let k = hx("000102030405060708090a0b0c0d0e0f");
        let p = hx("00112233445566778899aabbccddeeff");
        let c = hx("69c4e0d86a7b0430d8cdb78070b4c55a");
        assert_eq!(openssl_ecb("AES-128-ECB", &k, None, true, &p).unwrap(), c);
        assert_eq!(openssl_ecb("AES-128-ECB", &k, None, false, &c).unwrap(), p);
        assert_eq!(gcrypt_ecb(GCRY_CIPHER_AES128, &k, None, true, &p).unwrap(), c);
    }
    #[test]
    fn legacy_and_variable_lengths() {
        for len in [4usize, 5, 17, 56] {
            let k: Vec<u8> = (0..len as u8).collect();
            let c = openssl_ecb("BF-ECB", &k, None, true, &[0u8; 8]).expect("BF");
            assert_eq!(openssl_ecb("BF-ECB", &k, None, false, &c).unwrap(), vec![0u8; 8]);
        }
        for len in 5..=16usize {
            let k: Vec<u8> = (0..len as u8).collect();
            assert!(openssl_ecb("CAST5-ECB", &k, None, true, &[0u8; 8]).is_some());
        }
        // RFC 2268 vector: key 88bca90e90875a7f0f79c384627bafb2, 128 effective bits
        let k = hx("88bca90e90875a7f0f79c384627bafb2");
        assert_eq!(openssl_ecb("RC2-ECB", &k, Some(128), true, &[0u8; 8]).unwrap(), hx("2269552ab0f85ca6"));
        // key 88, 64 effective bits
        assert_eq!(openssl_ecb("RC2-ECB", &hx("88"), Some(64), true, &[0u8; 8]).unwrap(), hx("61a8a244adacccf0"));
        for n in ["DES-ECB", "DES-EDE-ECB", "DES-EDE3-ECB", "ARIA-128-ECB", "CAMELLIA-192-ECB", "SM4-ECB", "IDEA-ECB"] {
            let klen = match n { "DES-ECB" => 8, "DES-EDE-ECB" => 16, "DES-EDE3-ECB" => 24, "CAMELLIA-192-ECB" => 24, _ => 16 };
            let k: Vec<u8> = (1..=klen as u8).collect();
            println!("{n}: {:?}", openssl_ecb(n, &k, None, true, &[0u8; 16]).is_some());
        }
    }
    #[test]
    fn gcrypt_misc() {
        assert!(gcrypt_des_is_weak(&[1; 8]));
        assert!(gcrypt_des_is_weak(&[0; 8]));
        assert!(!gcrypt_des_is_weak(&[1, 2, 3, 4, 5, 6, 7, 8]));
        let k: Vec<u8> = (0..32u8).collect();
        assert!(gcrypt_ecb(GCRY_CIPHER_GOST28147, &k, Some("1.2.643.7.1.2.5.1.1"), true, &[0u8; 8]).is_ok());
        assert!(gcrypt_ecb(GCRY_CIPHER_IDEA, &k[..16], None, true, &[0u8; 8]).is_ok());
        assert!(gcrypt_ecb(GCRY_CIPHER_TWOFISH, &k, None, true, &[0u8; 16]).is_ok());
        assert!(gcrypt_ecb(GCRY_CIPHER_SERPENT192, &k[..24], None, true, &[0u8; 16]).is_ok());
        let n = nettle_serpent(&k[..17], true, &[0u8; 16]);
        assert_eq!(nettle_serpent(&k[..17], false, &n), vec![0u8; 16]);
        let t = nettle_twofish(&k, true, &[0u8; 16]);
        assert_eq!(gcrypt_ecb(GCRY_CIPHER_TWOFISH, &k, None, true, &[0u8; 16]).unwrap(), t);
        assert_eq!(nettle_twofish(&k[..24], false, &nettle_twofish(&k[..24], true, &[7u8; 16])), vec![7u8; 16]);
    }
}
