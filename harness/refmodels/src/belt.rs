//! STB 34.101.31 (BelT): belt-block and the wide-block transformation belt-wblock.
//!
//! Conventions (as in the standard): octet strings are split into 32-bit words read
//! little-endian; the key theta = theta_1 || ... || theta_8 (eight little-endian words),
//! K[i] = theta_{((i-1) mod 8) + 1} for i = 1..56; the block X = a || b || c || d.
//! G_r(u) = RotHi^r(H(u_1) || H(u_2) || H(u_3) || H(u_4)): H applied to each octet of the word,
//! then the word (as a little-endian number) rotated left by r bits.
//! [+] / [-] are addition / subtraction mod 2^32, <i>_32 is the number i as a 32-bit word.

use crate::RefCipher;

/// The substitution H (STB 34.101.31 table 1); validated by the standard's test vectors and
/// checked to be a permutation.
const H: [u8; 256] = [
    0xB1, 0x94, 0xBA, 0xC8, 0x0A, 0x08, 0xF5, 0x3B, 0x36, 0x6D, 0x00, 0x8E, 0x58, 0x4A, 0x5D,
    0xE4, 0x85, 0x04, 0xFA, 0x9D, 0x1B, 0xB6, 0xC7, 0xAC, 0x25, 0x2E, 0x72, 0xC2, 0x02, 0xFD,
    0xCE, 0x0D, 0x5B, 0xE3, 0xD6, 0x12, 0x17, 0xB9, 0x61, 0x81, 0xFE, 0x67, 0x86, 0xAD, 0x71,
    0x6B, 0x89, 0x0B, 0x5C, 0xB0, 0xC0, 0xFF, 0x33, 0xC3, 0x56, 0xB8, 0x35, 0xC4, 0x05, 0xAE,
    0xD8, 0xE0, 0x7F, 0x99, 0xE1, 0x2B, 0xDC, 0x1A, 0xE2, 0x82, 0x57, 0xEC, 0x70, 0x3F, 0xCC,
    0xF0, 0x95, 0xEE, 0x8D, 0xF1, 0xC1, 0xAB, 0x76, 0x38, 0x9F, 0xE6, 0x78, 0xCA, 0xF7, 0xC6,
    0xF8, 0x60, 0xD5, 0xBB, 0x9C, 0x4F, 0xF3, 0x3C, 0x65, 0x7B, 0x63, 0x7C, 0x30, 0x6A, 0xDD,
    0x4E, 0xA7, 0x79, 0x9E, 0xB2, 0x3D, 0x31, 0x3E, 0x98, 0xB5, 0x6E, 0x27, 0xD3, 0xBC, 0xCF,
    0x59, 0x1E, 0x18, 0x1F, 0x4C, 0x5A, 0xB7, 0x93, 0xE9, 0xDE, 0xE7, 0x2C, 0x8F, 0x0C, 0x0F,
    0xA6, 0x2D, 0xDB, 0x49, 0xF4, 0x6F, 0x73, 0x96, 0x47, 0x06, 0x07, 0x53, 0x16, 0xED, 0x24,
    0x7A, 0x37, 0x39, 0xCB, 0xA3, 0x83, 0x03, 0xA9, 0x8B, 0xF6, 0x92, 0xBD, 0x9B, 0x1C, 0xE5,
    0xD1, 0x41, 0x01, 0x54, 0x45, 0xFB, 0xC9, 0x5E, 0x4D, 0x0E, 0xF2, 0x68, 0x20, 0x80, 0xAA,
    0x22, 0x7D, 0x64, 0x2F, 0x26, 0x87, 0xF9, 0x34, 0x90, 0x40, 0x55, 0x11, 0xBE, 0x32, 0x97,
    0x13, 0x43, 0xFC, 0x9A, 0x48, 0xA0, 0x2A, 0x88, 0x5F, 0x19, 0x4B, 0x09, 0xA1, 0x7E, 0xCD,
    0xA4, 0xD0, 0x15, 0x44, 0xAF, 0x8C, 0xA5, 0x84, 0x50, 0xBF, 0x66, 0xD2, 0xE8, 0x8A, 0xA2,
    0xD7, 0x46, 0x52, 0x42, 0xA8, 0xDF, 0xB3, 0x69, 0x74, 0xC5, 0x51, 0xEB, 0x23, 0x29, 0x21,
    0xD4, 0xEF, 0xD9, 0xB4, 0x3A, 0x62, 0x28, 0x75, 0x91, 0x14, 0x10, 0xEA, 0x77, 0x6C, 0xDA,
    0x1D,
];

/// G_r(u)
fn g(r: u32, u: u32) -> u32 {
    let b = u.to_le_bytes();
    let s = [H[b[0] as usize], H[b[1] as usize], H[b[2] as usize], H[b[3] as usize]];
    u32::from_le_bytes(s).rotate_left(r)
}

fn load(block: &[u8]) -> [u32; 4] {
    assert_eq!(block.len(), 16);
    let mut w = [0u32; 4];
    for i in 0..4 {
        w[i] = u32::from_le_bytes([block[4 * i], block[4 * i + 1], block[4 * i + 2], block[4 * i + 3]]);
    }
    w
}

fn store(block: &mut [u8], w: [u32; 4]) {
    for i in 0..4 {
        block[4 * i..4 * i + 4].copy_from_slice(&w[i].to_le_bytes());
    }
}

pub struct BeltBlock {
    /// theta_1 .. theta_8
    theta: [u32; 8],
}

impl BeltBlock {
    /// `key`: 32 bytes.
    pub fn new(key: &[u8]) -> Self {
        assert_eq!(key.len(), 32, "belt-block key must be 32 bytes");
        let mut theta = [0u32; 8];
        for i in 0..8 {
            theta[i] = u32::from_le_bytes([key[4 * i], key[4 * i + 1], key[4 * i + 2], key[4 * i + 3]]);
        }
        BeltBlock { theta }
    }

    /// K[i], i = 1..=56
    fn k(&self, i: usize) -> u32 {
        self.theta[(i - 1) % 8]
    }
}

impl RefCipher for BeltBlock {
    fn block_size(&self) -> usize {
        16
    }

    /// belt-block encryption, STB 34.101.31 section 6.1.3
    fn encrypt(&self, block: &mut [u8]) {
        let [mut a, mut b, mut c, mut d] = load(block);
        for i in 1..=8usize {
            // 1) b <- b xor G5(a [+] K[7i-6])
            b ^= g(5, a.wrapping_add(self.k(7 * i - 6)));
            // 2) c <- c xor G21(d [+] K[7i-5])
            c ^= g(21, d.wrapping_add(self.k(7 * i - 5)));
            // 3) a <- a [-] G13(b [+] K[7i-4])
            a = a.wrapping_sub(g(13, b.wrapping_add(self.k(7 * i - 4))));
            // 4) e <- G21(b [+] c [+] K[7i-3]) xor <i>_32
            let e = g(21, b.wrapping_add(c).wrapping_add(self.k(7 * i - 3))) ^ (i as u32);
            // 5) b <- b [+] e
            b = b.wrapping_add(e);
            // 6) c <- c [-] e
            c = c.wrapping_sub(e);
            // 7) d <- d [+] G13(c [+] K[7i-2])
            d = d.wrapping_add(g(13, c.wrapping_add(self.k(7 * i - 2))));
            // 8) b <- b xor G21(a [+] K[7i-1])
            b ^= g(21, a.wrapping_add(self.k(7 * i - 1)));
            // 9) c <- c xor G5(d [+] K[7i])
            c ^= g(5, d.wrapping_add(self.k(7 * i)));
            // 10) a <-> b
            std::mem::swap(&mut a, &mut b);
            // 11) c <-> d
            std::mem::swap(&mut c, &mut d);
            // 12) b <-> c
            std::mem::swap(&mut b, &mut c);
        }
        // Y <- b || d || a || c
        store(block, [b, d, a, c]);
    }

    /// belt-block decryption, STB 34.101.31 section 6.1.4
    fn decrypt(&self, block: &mut [u8]) {
        let [mut a, mut b, mut c, mut d] = load(block);
        for i in (1..=8usize).rev() {
            // 1) b <- b xor G5(a [+] K[7i])
            b ^= g(5, a.wrapping_add(self.k(7 * i)));
            // 2) c <- c xor G21(d [+] K[7i-1])
            c ^= g(21, d.wrapping_add(self.k(7 * i - 1)));
            // 3) a <- a [-] G13(b [+] K[7i-2])
            a = a.wrapping_sub(g(13, b.wrapping_add(self.k(7 * i - 2))));
            // 4) e <- G21(b [+] c [+] K[7i-3]) xor <i>_32
            let e = g(21, b.wrapping_add(c).wrapping_add(self.k(7 * i - 3))) ^ (i as u32);
            // 5) b <- b [+] e
            b = b.wrapping_add(e);
            // 6) c <- c [-] e
            c = c.wrapping_sub(e);
            // 7) d <- d [+] G13(c [+] K[7i-4])
            d = d.wrapping_add(g(13, c.wrapping_add(self.k(7 * i - 4))));
            // 8) b <- b xor G21(a [+] K[7i-5])
            b ^= g(21, a.wrapping_add(self.k(7 * i - 5)));
            // 9) c <- c xor G5(d [+] K[7i-6])
            c ^= g(5, d.wrapping_add(self.k(7 * i - 6)));
            // 10) a <-> b
            std::mem::swap(&mut a, &mut b);
            // 11) c <-> d
            std::mem::swap(&mut c, &mut d);
            // 12) a <-> d
            std::mem::swap(&mut a, &mut d);
        }
        // X <- c || a || d || b
        store(block, [c, a, d, b]);
    }
}

/// s <- r_1 xor r_2 xor ... xor r_{n-1}: the first n-1 (full) 16-byte blocks of r, optionally
/// skipping r_1 (for decryption step 4).
fn xor_full_blocks(r: &[u8], n: usize, from_block: usize) -> [u8; 16] {
    let mut s = [0u8; 16];
    for j in from_block..n - 1 {
        for t in 0..16 {
            s[t] ^= r[16 * j + t];
        }
    }
    s
}

/// <i>_128: the number i as a 128-bit little-endian word (first octet = least significant).
fn counter128(i: usize) -> [u8; 16] {
    (i as u128).to_le_bytes()
}

/// belt-wblock encryption (STB 34.101.31-2020 section 6.2.3), in place.
///
/// X is an octet string of length >= 32.  r <- X is viewed as r_1 || r_2 || ... || r_n with
/// n = ceil(|X| / 16), |r_1| = ... = |r_{n-1}| = 16 octets and 0 < |r_n| <= 16; r_* denotes the LAST
/// 16 octets of r (which straddle r_{n-1} and r_n when |X| is not a multiple of 16).
/// For i = 1, 2, ..., 2n:
///   1) s   <- r_1 xor r_2 xor ... xor r_{n-1};
///   2) r_* <- r_* xor belt-block(s, K) xor <i>_128;
///   3) r   <- ShLo^128(r)      (drop the first 16 octets, the others move to the front);
///   4) r_* <- s.
/// Y <- r.
///
/// Err(()) and buffer untouched if `data.len() < 32`.  Panics if `key.len() != 32`.
pub fn wblock_enc(data: &mut [u8], key: &[u8]) -> Result<(), ()> {
    let cipher = BeltBlock::new(key);
    let len = data.len();
    if len < 32 {
        return Err(());
    }
    let n = (len + 15) / 16;
    for i in 1..=2 * n {
        // 1)
        let s = xor_full_blocks(data, n, 0);
        // 2)
        let mut e = s;
        cipher.encrypt(&mut e);
        let ctr = counter128(i);
        for t in 0..16 {
            data[len - 16 + t] ^= e[t] ^ ctr[t];
        }
        // 3)
        data.copy_within(16.., 0);
        // 4)
        data[len - 16..].copy_from_slice(&s);
    }
    Ok(())
}

/// belt-wblock decryption (STB 34.101.31-2020 section 6.2.4), in place; notation as in `wblock_enc`.
/// For i = 2n, ..., 2, 1:
///   1) s   <- r_*;
///   2) r   <- ShHi^128(r)      (all octets move 16 places towards the end; the first 16 are
///                               overwritten in step 4);
///   3) r_* <- r_* xor belt-block(s, K) xor <i>_128;
///   4) r_1 <- s xor r_2 xor ... xor r_{n-1}.
/// X <- r.
///
/// Err(()) and buffer untouched if `data.len() < 32`.  Panics if `key.len() != 32`.
pub fn wblock_dec(data: &mut [u8], key: &[u8]) -> Result<(), ()> {
    let cipher = BeltBlock::new(key);
    let len = data.len();
    if len < 32 {
        return Err(());
    }
    let n = (len + 15) / 16;
    for i in (1..=2 * n).rev() {
        // 1)
        let mut s = [0u8; 16];
        s.copy_from_slice(&data[len - 16..]);
        // 2)
        data.copy_within(..len - 16, 16);
        // 3)
        let mut e = s;
        cipher.encrypt(&mut e);
        let ctr = counter128(i);
        for t in 0..16 {
            data[len - 16 + t] ^= e[t] ^ ctr[t];
        }
        // 4)
        let x = xor_full_blocks(data, n, 1);
        for t in 0..16 {
            data[t] = s[t] ^ x[t];
        }
    }
    Ok(())
}

#[cfg(test)]
mod tests {
    use super::*;

    #[test]
    fn h_is_a_permutation() {
        let mut seen = [false; 256];
        for &v in H.iter() {
            assert!(!seen[v as usize]);
            seen[v as usize] = true;
        }
    }

    /// Structural check of the table, independent of where it was copied from: H(10) = 0,
    /// H(11) = 0x8E and the other 255 values, read cyclically as s_i = H((11 + i) mod 256) with the
    /// index 10 skipped (i taken mod 255), are generated by a linear feedback shift register:
    /// s_{i+8} = s_i xor s_{i+2} xor s_{i+3} xor s_{i+6} (characteristic polynomial
    /// x^8 + x^6 + x^3 + x^2 + 1, primitive), which is how the standard constructs H.  Any
    /// single wrong entry breaks nine of these equations.
    #[test]
    fn h_lfsr_structure() {
        assert_eq!(H[10], 0x00);
        assert_eq!(H[11], 0x8E);
        assert_eq!(H[0x00], 0xB1);
        assert_eq!(H[0xFF], 0x1D);
        let s: Vec<u8> = (0..255).map(|i| H[(11 + i) % 256]).collect();
        for i in 0..255 {
            let v = s[i % 255] ^ s[(i + 2) % 255] ^ s[(i + 3) % 255] ^ s[(i + 6) % 255];
            assert_eq!(v, s[(i + 8) % 255], "i = {i}");
        }
    }

    /// G_r on a word: H byte-wise, then rotate the little-endian word left.
    #[test]
    fn g_definition() {
        // u = 0x0A0A0A0A -> all bytes H(0x0A) = 0 -> 0 for any r
        assert_eq!(g(5, 0x0A0A0A0A), 0);
        // u = 0x0000000A: bytes (LE) 0A 00 00 00 -> H -> 00 B1 B1 B1 -> word 0xB1B1B100
        assert_eq!(g(5, 0x0000000A), 0xB1B1B100u32.rotate_left(5));
        assert_eq!(g(13, 0x0000000A), 0xB1B1B100u32.rotate_left(13));
        assert_eq!(g(21, 0x0000000A), 0xB1B1B100u32.rotate_left(21));
    }
}
