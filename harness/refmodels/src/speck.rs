//! Speck reference model, written from Beaulieu et al., "The SIMON and SPECK Families of
//! Lightweight Block Ciphers" (ePrint 2013/404), section 4.
//!
//! Generic over the word size n in {16, 24, 32, 48, 64} bits and the number of key words
//! m in {2, 3, 4}.  Words are held in `u64` and masked to n bits.
//!
//! Byte conventions (those of the RustCrypto `speck-cipher` test vectors, which are the paper's
//! Appendix C vectors): the byte strings are the paper's hex strings read left to right, i.e.
//!   * every word is stored BIG-endian (n/8 bytes);
//!   * the block is  x || y  (x = the left word, the one that is rotated right by alpha and
//!     receives the modular addition; y = the right word);
//!   * the key is  l_{m-2} || ... || l_0 || k_0  (k_0, the first round key, is the LAST word).
//! Example Speck32/64: key bytes 19 18 11 10 09 08 01 00 = (l2, l1, l0, k0) = (1918, 1110, 0908, 0100),
//! plaintext bytes 65 74 69 4c = (x, y) = (6574, 694c).

use crate::RefCipher;

pub struct Speck {
    n: u32,
    alpha: u32,
    beta: u32,
    mask: u64,
    /// round keys k_0 .. k_{T-1}
    k: Vec<u64>,
}

fn rounds_for(block_bits: u32, key_bits: u32) -> Option<usize> {
    // Table 4.1 of the paper
    Some(match (block_bits, key_bits) {
        (32, 64) => 22,
        (48, 72) => 22,
        (48, 96) => 23,
        (64, 96) => 26,
        (64, 128) => 27,
        (96, 96) => 28,
        (96, 144) => 29,
        (128, 128) => 32,
        (128, 192) => 33,
        (128, 256) => 34,
        _ => return None,
    })
}

fn rol(x: u64, r: u32, n: u32, mask: u64) -> u64 {
    ((x << r) | (x >> (n - r))) & mask
}

fn ror(x: u64, r: u32, n: u32, mask: u64) -> u64 {
    ((x >> r) | (x << (n - r))) & mask
}

fn load_be(bytes: &[u8]) -> u64 {
    let mut x = 0u64;
    for &b in bytes {
        x = (x << 8) | b as u64;
    }
    x
}

fn store_be(x: u64, bytes: &mut [u8]) {
    let len = bytes.len();
    for (i, b) in bytes.iter_mut().enumerate() {
        *b = (x >> (8 * (len - 1 - i))) as u8;
    }
}

impl Speck {
    pub fn new(block_bits: u32, key_bits: u32, key: &[u8]) -> Self {
        let t = rounds_for(block_bits, key_bits)
            .unwrap_or_else(|| panic!("Speck: unsupported variant {block_bits}/{key_bits}"));
        assert_eq!(key.len() * 8, key_bits as usize, "Speck{block_bits}/{key_bits}: wrong key length");
        let n = block_bits / 2;
        let m = (key_bits / n) as usize;
        let (alpha, beta) = if n == 16 { (7, 2) } else { (8, 3) };
        let mask = if n == 64 { u64::MAX } else { (1u64 << n) - 1 };
        let wb = (n / 8) as usize;

        // key = (l_{m-2}, ..., l_0, k_0)
        let word = |j: usize| load_be(&key[j * wb..(j + 1) * wb]);
        let mut k = vec![0u64; t];
        let mut l = vec![0u64; t + m - 2];
        k[0] = word(m - 1);
        for i in 0..m - 1 {
            l[i] = word(m - 2 - i);
        }
        // l_{i+m-1} = (k_i + S^{-alpha} l_i) xor i ;  k_{i+1} = S^{beta} k_i xor l_{i+m-1}
        for i in 0..t - 1 {
            l[i + m - 1] = (k[i].wrapping_add(ror(l[i], alpha, n, mask)) & mask) ^ (i as u64);
            k[i + 1] = rol(k[i], beta, n, mask) ^ l[i + m - 1];
        }

        Speck { n, alpha, beta, mask, k }
    }
}

impl RefCipher for Speck {
    fn block_size(&self) -> usize {
        (2 * self.n / 8) as usize
    }

    fn encrypt(&self, block: &mut [u8]) {
        assert_eq!(block.len(), self.block_size());
        let (n, mask) = (self.n, self.mask);
        let wb = (n / 8) as usize;
        let mut x = load_be(&block[..wb]);
        let mut y = load_be(&block[wb..]);
        // R_k(x, y) = ((S^{-alpha} x + y) xor k,  S^{beta} y xor (S^{-alpha} x + y) xor k)
        for &k in &self.k {
            x = (ror(x, self.alpha, n, mask).wrapping_add(y) & mask) ^ k;
            y = rol(y, self.beta, n, mask) ^ x;
        }
        store_be(x, &mut block[..wb]);
        store_be(y, &mut block[wb..]);
    }

    fn decrypt(&self, block: &mut [u8]) {
        assert_eq!(block.len(), self.block_size());
        let (n, mask) = (self.n, self.mask);
        let wb = (n / 8) as usize;
        let mut x = load_be(&block[..wb]);
        let mut y = load_be(&block[wb..]);
        // R_k^{-1}(x, y) = (S^{alpha}((x xor k) - S^{-beta}(x xor y)),  S^{-beta}(x xor y))
        for &k in self.k.iter().rev() {
            y = ror(x ^ y, self.beta, n, mask);
            x = rol((x ^ k).wrapping_sub(y) & mask, self.alpha, n, mask);
        }
        store_be(x, &mut block[..wb]);
        store_be(y, &mut block[wb..]);
    }
}
