//! GIFT-128 reference model, written from Banik, Pandey, Peyrin, Sasaki, Sim, Todo,
//! "GIFT: A Small Present" (CHES 2017), section 2 -- the plain specification form (not fixsliced,
//! not bitsliced).
//!
//! The cipher state is S = b127 b126 ... b0 (b0 the least significant bit), seen as 32 nibbles
//! w31 ... w0 with w_i = b_{4i+3} b_{4i+2} b_{4i+1} b_{4i}.  It is held in a `u128` with bit j of
//! the integer = b_j.  The key state is K = k7 || k6 || ... || k0 (16-bit words).
//!
//! Byte conventions (those of the official test vectors quoted in /repo/gift/tests): big-endian,
//! i.e. block byte 0 = b127..b120 and key byte 0 = the high byte of k7.
//!
//! Each round: SubCells, PermBits, AddRoundKey (round key and round constant); the round key is
//! extracted from the key state before the key state is updated.
//!
//! Speed note: PermBits is evaluated through a per-nibble table PERM[pos][value] that is generated
//! at compile time directly from the specification's formula P128(i); the unit test at the bottom
//! checks it against the literal bit-by-bit permutation.

use crate::RefCipher;

const ROUNDS: usize = 40;

/// The GIFT S-box GS.
const GS: [u8; 16] = [0x1, 0xa, 0x4, 0xc, 0x6, 0xf, 0x3, 0x9, 0x2, 0xd, 0xb, 0x7, 0x5, 0x0, 0x8, 0xe];

const fn invert_sbox(s: [u8; 16]) -> [u8; 16] {
    let mut inv = [0u8; 16];
    let mut x = 0;
    while x < 16 {
        inv[s[x] as usize] = x as u8;
        x += 1;
    }
    inv
}
const GS_INV: [u8; 16] = invert_sbox(GS);

/// The bit permutation of GIFT-128: bit i of the state moves to bit P128(i).
/// P128(i) = 4 floor(i/16) + 32 ((3 floor((i mod 16)/4) + (i mod 4)) mod 4) + (i mod 4)
const fn p128(i: usize) -> usize {
    4 * (i / 16) + 32 * ((3 * ((i % 16) / 4) + (i % 4)) % 4) + (i % 4)
}

/// PERM[pos][v] = image under PermBits of the state having nibble value v at nibble position pos
/// and zero elsewhere.  PERM_INV likewise for the inverse permutation.
const fn perm_tables(inverse: bool) -> [[u128; 16]; 32] {
    // destination of every bit
    let mut dest = [0usize; 128];
    let mut i = 0;
    while i < 128 {
        if inverse {
            dest[p128(i)] = i;
        } else {
            dest[i] = p128(i);
        }
        i += 1;
    }
    let mut t = [[0u128; 16]; 32];
    let mut pos = 0;
    while pos < 32 {
        let mut v = 0;
        while v < 16 {
            let mut out = 0u128;
            let mut j = 0;
            while j < 4 {
                if (v >> j) & 1 == 1 {
                    out |= 1u128 << dest[4 * pos + j];
                }
                j += 1;
            }
            t[pos][v] = out;
            v += 1;
        }
        pos += 1;
    }
    t
}
static PERM: [[u128; 16]; 32] = perm_tables(false);
static PERM_INV: [[u128; 16]; 32] = perm_tables(true);

fn sub_cells(s: u128, sbox: &[u8; 16]) -> u128 {
    let mut out = 0u128;
    for i in 0..32 {
        let w = ((s >> (4 * i)) & 0xf) as usize;
        out |= (sbox[w] as u128) << (4 * i);
    }
    out
}

fn perm_bits(s: u128, table: &[[u128; 16]; 32]) -> u128 {
    let mut out = 0u128;
    for i in 0..32 {
        let w = ((s >> (4 * i)) & 0xf) as usize;
        out |= table[i][w];
    }
    out
}

pub struct Gift128 {
    /// For each round, the 128-bit value XORed into the state by AddRoundKey
    /// (round key bits, round constant bits and the fixed bit 127).
    rk: [u128; ROUNDS],
}

impl Gift128 {
    pub fn new(key: &[u8]) -> Self {
        assert_eq!(key.len(), 16, "GIFT-128: unsupported key length {}", key.len());
        // K = k7 || k6 || ... || k0, big-endian bytes: key[0..2] = k7
        let mut k = [0u16; 8];
        for i in 0..8 {
            k[7 - i] = u16::from_be_bytes([key[2 * i], key[2 * i + 1]]);
        }
        let mut rk = [0u128; ROUNDS];
        // 6-bit round constant LFSR, initialised to zero and updated before use
        let mut c: u8 = 0;
        for round in rk.iter_mut() {
            // round key RK = U || V, U = k5 || k4, V = k1 || k0
            let u: u32 = ((k[5] as u32) << 16) | k[4] as u32;
            let v: u32 = ((k[1] as u32) << 16) | k[0] as u32;
            let mut x = 0u128;
            for i in 0..32 {
                // b_{4i+2} ^= u_i, b_{4i+1} ^= v_i
                x |= (((u >> i) & 1) as u128) << (4 * i + 2);
                x |= (((v >> i) & 1) as u128) << (4 * i + 1);
            }
            // (c5,c4,c3,c2,c1,c0) <- (c4,c3,c2,c1,c0, c5 xor c4 xor 1)
            let c5 = (c >> 5) & 1;
            let c4 = (c >> 4) & 1;
            c = ((c << 1) & 0x3f) | (c5 ^ c4 ^ 1);
            // b127 ^= 1, b23 ^= c5, b19 ^= c4, b15 ^= c3, b11 ^= c2, b7 ^= c1, b3 ^= c0
            x ^= 1u128 << 127;
            for j in 0..6 {
                x ^= (((c >> j) & 1) as u128) << (4 * j + 3);
            }
            *round = x;
            // k7||k6||...||k0 <- (k1 >>> 2)||(k0 >>> 12)||k7||...||k2
            let new = [k[2], k[3], k[4], k[5], k[6], k[7], k[0].rotate_right(12), k[1].rotate_right(2)];
            k = new;
        }
        Gift128 { rk }
    }
}

impl RefCipher for Gift128 {
    fn block_size(&self) -> usize {
        16
    }

    fn encrypt(&self, block: &mut [u8]) {
        let mut s = u128::from_be_bytes((&*block).try_into().expect("GIFT-128: block must be 16 bytes"));
        for r in 0..ROUNDS {
            s = sub_cells(s, &GS);
            s = perm_bits(s, &PERM);
            s ^= self.rk[r];
        }
        block.copy_from_slice(&s.to_be_bytes());
    }

    fn decrypt(&self, block: &mut [u8]) {
        let mut s = u128::from_be_bytes((&*block).try_into().expect("GIFT-128: block must be 16 bytes"));
        for r in (0..ROUNDS).rev() {
            s ^= self.rk[r];
            s = perm_bits(s, &PERM_INV);
            s = sub_cells(s, &GS_INV);
        }
        block.copy_from_slice(&s.to_be_bytes());
    }
}

#[cfg(test)]
mod tests {
    use super::*;

    /// PermBits exactly as in the specification: b_{P(i)} <- b_i for every i.
    fn perm_bits_literal(s: u128) -> u128 {
        let mut out = 0u128;
        for i in 0..128 {
            out |= ((s >> i) & 1) << p128(i);
        }
        out
    }

    #[test]
    fn p128_matches_spec_table() {
        // first two rows of Table "Specifications of GIFT-128 bit permutation" in the paper
        let row0: [usize; 16] = [0, 33, 66, 99, 96, 1, 34, 67, 64, 97, 2, 35, 32, 65, 98, 3];
        let row1: [usize; 16] = [4, 37, 70, 103, 100, 5, 38, 71, 68, 101, 6, 39, 36, 69, 102, 7];
        for i in 0..16 {
            assert_eq!(p128(i), row0[i]);
            assert_eq!(p128(16 + i), row1[i]);
        }
        // last row of the table (i = 112..127)
        let row7: [usize; 16] = [28, 61, 94, 127, 124, 29, 62, 95, 92, 125, 30, 63, 60, 93, 126, 31];
        for i in 0..16 {
            assert_eq!(p128(112 + i), row7[i]);
        }
        // it is a permutation
        let mut seen = [false; 128];
        for i in 0..128 {
            assert!(!seen[p128(i)]);
            seen[p128(i)] = true;
        }
    }

    #[test]
    fn tables_match_literal_permutation() {
        let mut x = 0x9E3779B97F4A7C15F39CC0605CEDC835u128;
        for i in 0..128 {
            let s = 1u128 << i;
            assert_eq!(perm_bits(s, &PERM), perm_bits_literal(s));
            assert_eq!(perm_bits(perm_bits(s, &PERM), &PERM_INV), s);
        }
        for _ in 0..2000 {
            x = x.wrapping_mul(0xDA942042E4DD58B5).rotate_left(29) ^ 0x0123456789ABCDEFFEDCBA9876543210;
            assert_eq!(perm_bits(x, &PERM), perm_bits_literal(x));
            assert_eq!(perm_bits(perm_bits(x, &PERM), &PERM_INV), x);
            assert_eq!(sub_cells(sub_cells(x, &GS), &GS_INV), x);
        }
    }

    #[test]
    fn round_constants() {
        // the paper lists the constants of rounds 1..48: 01,03,07,0F,1F,3E,3D,3B,37,2F,1E,3C,39,33,27,0E,...
        let expect: [u8; 16] = [0x01, 0x03, 0x07, 0x0F, 0x1F, 0x3E, 0x3D, 0x3B, 0x37, 0x2F, 0x1E, 0x3C, 0x39, 0x33, 0x27, 0x0E];
        let g = Gift128::new(&[0u8; 16]);
        for (r, &e) in expect.iter().enumerate() {
            // with a zero key the round value is only constant bits
            let x = g.rk[r];
            let mut c = 0u8;
            for j in 0..6 {
                c |= (((x >> (4 * j + 3)) & 1) as u8) << j;
            }
            assert_eq!(c, e, "round {r}");
            assert_eq!(x >> 127, 1);
        }
    }
}
