//! Validation of the BelT reference model (belt-block and belt-wblock).
//!
//! Anchors: STB 34.101.31-2020 annex A vectors as quoted in /repo/belt-block/tests/mod.rs
//! (table A.1 belt-block encryption, table A.2/A.4 belt-block decryption, table A.6 two belt-wblock
//! encryption vectors of 48 and 47 octets, table A.7 two belt-wblock decryption vectors of 48 and 36
//! octets); inverse property of belt-block on the broad input set; inverse property of belt-wblock
//! for every length 32..=300; structural checks.  The H table's LFSR structure is verified in the unit
//! tests of src/belt.rs.  No third-party library on this image implements BelT.
use refmodels::RefCipher;
use refmodels::belt::{BeltBlock, wblock_dec, wblock_enc};

fn hx(s: &str) -> Vec<u8> {
    let s: String = s.chars().filter(|c| !c.is_whitespace()).collect();
    assert!(s.len() % 2 == 0);
    (0..s.len() / 2).map(|i| u8::from_str_radix(&s[2 * i..2 * i + 2], 16).unwrap()).collect()
}

struct SplitMix64(u64);
impl SplitMix64 {
    fn next(&mut self) -> u64 {
        self.0 = self.0.wrapping_add(0x9E37_79B9_7F4A_7C15);
        let mut z = self.0;
        z = (z ^ (z >> 30)).wrapping_mul(0xBF58_476D_1CE4_E5B9);
        z = (z ^ (z >> 27)).wrapping_mul(0x94D0_49BB_1331_11EB);
        z ^ (z >> 31)
    }
    fn bytes(&mut self, n: usize) -> Vec<u8> {
        let mut v = Vec::with_capacity(n + 8);
        while v.len() < n {
            v.extend_from_slice(&self.next().to_le_bytes());
        }
        v.truncate(n);
        v
    }
}

/// all-zero, all-ones, every walking one, every walking zero, byte ramp, `nrand` pseudo-random values
fn input_set(len: usize, nrand: usize, seed: u64) -> Vec<Vec<u8>> {
    let mut v = vec![vec![0u8; len], vec![0xffu8; len]];
    for bit in 0..len * 8 {
        let mut a = vec![0u8; len];
        a[bit / 8] |= 0x80 >> (bit % 8);
        let b: Vec<u8> = a.iter().map(|x| !x).collect();
        v.push(a);
        v.push(b);
    }
    v.push((0..len).map(|i| i as u8).collect());
    let mut rng = SplitMix64(seed);
    for _ in 0..nrand {
        v.push(rng.bytes(len));
    }
    v
}

const K1: &str = "E9DEE72C 8F0C0FA6 2DDB49F4 6F739647 06075316 ED247A37 39CBA383 03A98BF6";
const K2: &str = "92BD9B1C E5D14101 5445FBC9 5E4D0EF2 682080AA 227D642F 2687F934 90405511";

#[test]
fn stb_belt_block_vectors() {
    // Table A.1 (encryption)
    let c = BeltBlock::new(&hx(K1));
    assert_eq!(c.block_size(), 16);
    let pt = hx("B194BAC8 0A08F53B 366D008E 584A5DE4");
    let ct = hx("69CCA1C9 3557C9E3 D66BC3E0 FA88FA6E");
    let mut b = pt.clone();
    c.encrypt(&mut b);
    assert_eq!(b, ct);
    c.decrypt(&mut b);
    assert_eq!(b, pt);
    // Table A.2 / A.4 (decryption): Y = E12BDC1A..., X = 0DC53006...
    let c = BeltBlock::new(&hx(K2));
    let y = hx("E12BDC1A E28257EC 703FCCF0 95EE8DF1");
    let x = hx("0DC53006 00CAB840 B38448E5 E993F421");
    let mut b = y.clone();
    c.decrypt(&mut b);
    assert_eq!(b, x);
    c.encrypt(&mut b);
    assert_eq!(b, y);
}

#[test]
fn stb_belt_wblock_vectors() {
    // Table A.6 (encryption), 48 and 47 octets
    let x1 = hx("B194BAC8 0A08F53B 366D008E 584A5DE4 8504FA9D 1BB6C7AC 252E72C2 02FDCE0D 5BE3D612 17B96181 FE6786AD 716B890B");
    let y1 = hx("49A38EE1 08D6C742 E52B774F 00A6EF98 B106CBD1 3EA4FB06 80323051 BC04DF76 E487B055 C69BCF54 1176169F 1DC9F6C8");
    let x2 = hx("B194BAC8 0A08F53B 366D008E 584A5DE4 8504FA9D 1BB6C7AC 252E72C2 02FDCE0D 5BE3D612 17B96181 FE6786AD 716B89");
    let y2 = hx("F08EF22D CAA06C81 FB127219 74221CA7 AB82C628 56FCF2F9 FCA006E0 19A28F16 E5821A51 F5735946 25DBAB8F 6A5C94");
    // Table A.7 (decryption), 48 and 36 octets
    let y3 = hx("E12BDC1A E28257EC 703FCCF0 95EE8DF1 C1AB7638 9FE678CA F7C6F860 D5BB9C4F F33C657B 637C306A DD4EA779 9EB23D31");
    let x3 = hx("92632EE0 C21AD9E0 9A39343E 5C07DAA4 889B03F2 E6847EB1 52EC99F7 A4D9F154 B5EF68D8 E4A39E56 7153DE13 D72254EE");
    let y4 = hx("E12BDC1A E28257EC 703FCCF0 95EE8DF1 C1AB7638 9FE678CA F7C6F860 D5BB9C4F F33C657B");
    let x4 = hx("DF3F8822 30BAAFFC 92F05660 32117231 0E3CB218 2681EF43 102E6717 5E177BD7 5E93E4E8");
    assert_eq!((x1.len(), x2.len(), x3.len(), x4.len()), (48, 47, 48, 36));
    for (k, x, y) in [(K1, &x1, &y1), (K1, &x2, &y2), (K2, &x3, &y3), (K2, &x4, &y4)] {
        let k = hx(k);
        let mut t = x.clone();
        wblock_enc(&mut t, &k).unwrap();
        assert_eq!(&t, y, "enc len {}", x.len());
        wblock_dec(&mut t, &k).unwrap();
        assert_eq!(&t, x, "dec len {}", x.len());
        let mut t = y.clone();
        wblock_dec(&mut t, &k).unwrap();
        assert_eq!(&t, x);
    }
}

#[test]
fn wblock_short_input_is_rejected_untouched() {
    let k = hx(K1);
    for len in 0..32usize {
        let orig: Vec<u8> = (0..len as u8).map(|b| b.wrapping_mul(7).wrapping_add(1)).collect();
        let mut t = orig.clone();
        assert_eq!(wblock_enc(&mut t, &k), Err(()));
        assert_eq!(t, orig);
        assert_eq!(wblock_dec(&mut t, &k), Err(()));
        assert_eq!(t, orig);
    }
    let mut t = vec![0u8; 32];
    assert_eq!(wblock_enc(&mut t, &k), Ok(()));
}

#[test]
#[should_panic]
fn bad_key_length_panics() {
    let _ = BeltBlock::new(&[0u8; 16]);
}

#[test]
#[should_panic]
fn wblock_bad_key_length_panics() {
    let mut d = [0u8; 48];
    let _ = wblock_enc(&mut d, &[0u8; 31]);
}

/// decrypt(encrypt(x)) == x == encrypt(decrypt(x)) on the broad input set.
#[test]
fn belt_block_inverse_on_input_set() {
    let keys = input_set(32, 64, 0x62656c74_00000001);
    let blocks = input_set(16, 64, 0x62656c74_00000002);
    assert_eq!(keys.len(), 2 + 512 + 1 + 64);
    assert_eq!(blocks.len(), 2 + 256 + 1 + 64);
    let mut n = 0usize;
    for k in &keys {
        let c = BeltBlock::new(k);
        for b in &blocks {
            let mut t = b.clone();
            c.encrypt(&mut t);
            assert_ne!(&t, b);
            c.decrypt(&mut t);
            assert_eq!(&t, b);
            c.decrypt(&mut t);
            c.encrypt(&mut t);
            assert_eq!(&t, b);
            n += 1;
        }
    }
    println!("belt-block inverse checks: {n} (key, block) pairs, both orders");
}

/// wblock_dec(wblock_enc(x)) == x == wblock_enc(wblock_dec(x)) for every length 32..=300, several
/// keys and data patterns; the output differs from the input in (nearly) every position class and
/// every input octet influences the output (wide-block property, probed by flipping one bit).
#[test]
fn wblock_inverse_every_length() {
    let mut rng = SplitMix64(0x77626c6f_636b0001);
    let keys = [hx(K1), hx(K2), vec![0u8; 32], vec![0xff; 32], rng.bytes(32)];
    let mut n = 0usize;
    for len in 32..=300usize {
        let datas = [vec![0u8; len], vec![0xffu8; len], (0..len).map(|i| i as u8).collect::<Vec<u8>>(), rng.bytes(len), rng.bytes(len)];
        for k in &keys {
            for x in &datas {
                let mut t = x.clone();
                wblock_enc(&mut t, k).unwrap();
                assert_ne!(&t, x);
                let y = t.clone();
                wblock_dec(&mut t, k).unwrap();
                assert_eq!(&t, x, "len {len}");
                wblock_dec(&mut t, k).unwrap();
                wblock_enc(&mut t, k).unwrap();
                assert_eq!(&t, x, "len {len}");
                // flip one input bit: every 16-octet window of the output changes
                let pos = (rng.next() as usize) % len;
                let mut x2 = x.clone();
                x2[pos] ^= 1 << (rng.next() % 8);
                wblock_enc(&mut x2, k).unwrap();
                for (w1, w2) in y.chunks(16).zip(x2.chunks(16)) {
                    if w1.len() >= 4 {
                        assert_ne!(w1, w2, "len {len} pos {pos}");
                    }
                }
                n += 1;
            }
        }
    }
    println!("belt-wblock inverse checks: {n} (len, key, data) triples");
}

/// The repo's synthetic test shape: 16 encryptions then 16 decryptions, lengths 32..255.
#[test]
fn wblock_iterated_roundtrip() {
    let k = hx(K1);
    let x: Vec<u8> = (0u8..255).collect();
    for i in 32..x.len() {
        let mut t = x[..i].to_vec();
        for _ in 0..16 {
            wblock_enc(&mut t, &k).unwrap();
        }
        for _ in 0..16 {
            wblock_dec(&mut t, &k).unwrap();
        }
        assert_eq!(t, x[..i]);
    }
}

#[test]
fn timing() {
    let c = BeltBlock::new(&hx(K1));
    let mut b = [1u8; 16];
    let n = 200000;
    let t = std::time::Instant::now();
    for _ in 0..n {
        c.encrypt(&mut b);
    }
    let e = t.elapsed().as_nanos() as f64 / n as f64;
    let t = std::time::Instant::now();
    for _ in 0..n {
        c.decrypt(&mut b);
    }
    let d = t.elapsed().as_nanos() as f64 / n as f64;
    let mut w = vec![3u8; 48];
    let k = hx(K1);
    let t = std::time::Instant::now();
    for _ in 0..20000 {
        wblock_enc(&mut w, &k).unwrap();
    }
    let we = t.elapsed().as_nanos() as f64 / 20000.0;
    println!("belt-block: encrypt {e:.0} ns/block, decrypt {d:.0} ns/block; belt-wblock enc of 48 octets {we:.0} ns ({} {})", b[0], w[0]);
}
