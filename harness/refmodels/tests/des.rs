//! Validation of the DES / Triple-DES reference model (src/des.rs) against OpenSSL, libgcrypt and published vectors.
#![cfg(feature = "ffi")]

use refmodels::RefCipher;
use refmodels::des::{self, Des, NIST_WEAK_KEYS, Tdes, TdesMode, is_weak, round_keys};
use refmodels::ffi::{GCRY_CIPHER_3DES, GCRY_CIPHER_DES, GPG_ERR_WEAK_KEY, gcrypt_des_is_weak, gcrypt_ecb, openssl_ecb};
use std::collections::HashSet;

fn hx(s: &str) -> Vec<u8> {
    let s: String = s.chars().filter(|c| !c.is_whitespace()).collect();
    (0..s.len() / 2).map(|i| u8::from_str_radix(&s[2 * i..2 * i + 2], 16).unwrap()).collect()
}
fn hx8(s: &str) -> [u8; 8] {
    hx(s).try_into().unwrap()
}

struct SplitMix64(u64);
impl SplitMix64 {
    fn next(&mut self) -> u64 {
        self.0 = self.0.wrapping_add(0x9e37_79b9_7f4a_7c15);
        let mut z = self.0;
        z = (z ^ (z >> 30)).wrapping_mul(0xbf58_476d_1ce4_e5b9);
        z = (z ^ (z >> 27)).wrapping_mul(0x94d0_49bb_1331_11eb);
        z ^ (z >> 31)
    }
    fn bytes(&mut self, n: usize) -> Vec<u8> {
        let mut v = Vec::with_capacity(n + 8);
        while v.len() < n {
            v.extend_from_slice(&self.next().to_le_bytes());
        }
        v.truncate(n);
        v
    }
}

fn one_bit(n: usize, bit: usize) -> Vec<u8> {
    let mut x = vec![0u8; n];
    x[bit / 8] |= 0x80 >> (bit % 8);
    x
}

/// all-zero, all-ones, every walking one (= Hamming weight 1), every walking zero, byte ramp, `nrand` random
fn input_set(n: usize, seed: u64, nrand: usize) -> Vec<Vec<u8>> {
    let mut v = vec![vec![0u8; n], vec![0xffu8; n]];
    for bit in 0..8 * n {
        let x = one_bit(n, bit);
        v.push(x.iter().map(|b| !b).collect());
        v.push(x);
    }
    v.push((0..n as u8).collect());
    let mut rng = SplitMix64(seed);
    for _ in 0..nrand {
        v.push(rng.bytes(n));
    }
    v
}

/// all values of Hamming weight 2
fn weight2(n: usize) -> Vec<Vec<u8>> {
    let mut v = Vec::new();
    for i in 0..8 * n {
        for j in i + 1..8 * n {
            let mut x = one_bit(n, i);
            x[j / 8] |= 0x80 >> (j % 8);
            v.push(x);
        }
    }
    v
}

/// a fixed random value XOR every walking one: exercises every key bit on a non-degenerate key
fn random_xor_walking_one(n: usize, seed: u64) -> Vec<Vec<u8>> {
    let base = SplitMix64(seed).bytes(n);
    (0..8 * n).map(|bit| base.iter().zip(one_bit(n, bit)).map(|(a, b)| a ^ b).collect()).collect()
}

fn ecb(c: &dyn RefCipher, encrypt: bool, data: &[u8]) -> Vec<u8> {
    let mut out = data.to_vec();
    for b in out.chunks_mut(8) {
        if encrypt { c.encrypt(b) } else { c.decrypt(b) }
    }
    out
}

fn k8(k: &[u8]) -> [u8; 8] {
    k.try_into().unwrap()
}

// ------------------------------------------------------------------ published vectors

#[test]
fn des_known_vectors() {
    let cases = [
        // the classic worked example (Grabbe, "The DES Algorithm Illustrated")
        ("133457799bbcdff1", "0123456789abcdef", "85e813540f0ab405"),
        // FIPS 81 Table B1 (ECB), "Now is the time for all "
        ("0123456789abcdef", "4e6f772069732074", "3fa40e8a984d4815"),
        ("0123456789abcdef", "68652074696d6520", "6a271787ab8883f9"),
        ("0123456789abcdef", "666f7220616c6c20", "893d51ec4b563b53"),
        // NBS SP 500-20: IP/E test, variable key test, permutation test, S-box test entries
        ("0101010101010101", "8000000000000000", "95f8a5e5dd31d900"),
        ("0101010101010101", "4000000000000000", "dd7f121ca5015619"),
        ("0101010101010101", "0000000000000001", "166b40b44aba4bd6"),
        ("8001010101010101", "0000000000000000", "95a8d72813daa94d"),
        ("0101010101010102", "0000000000000000", "869efd7f9f265a09"),
        ("1046913489980131", "0000000000000000", "88d55e54f54c97b4"),
        ("7ca110454a1a6e57", "01a1d6d039776742", "690f5b0d9a26939b"),
        ("0131d9619dc1376e", "5cd54ca83def57da", "7a389d10354bd271"),
        // NESSIE set 1 vector 0 / set 2 vector 0
        ("8000000000000000", "0000000000000000", "95a8d72813daa94d"),
        ("0000000000000000", "8000000000000000", "95f8a5e5dd31d900"),
    ];
    for (k, p, c) in cases {
        let d = Des::new(&hx(k));
        assert_eq!(d.block_size(), 8);
        let mut b = hx(p);
        d.encrypt(&mut b);
        assert_eq!(b, hx(c), "encrypt key {k} pt {p}");
        d.decrypt(&mut b);
        assert_eq!(b, hx(p), "decrypt key {k}");
    }
}

/// R. Rivest, "Testing implementations of DES" (1985): X0 = 9474B8E8C73BCA7D,
/// X(i+1) = E(X(i), X(i)) for even i, D(X(i), X(i)) for odd i  (key = data = X(i));  X16 = 1B1A2DDB4C642438.
#[test]
fn des_rivest_test() {
    let mut x = hx8("9474b8e8c73bca7d");
    let expect = [
        "8da744e0c94e5e17", "0cdb25e3ba3c6d79", "4784c4ba5006081f", "1cf1fc126f2ef842", "e4be250042098d13", "7bfc5dc6adb5797c",
        "1ab3b4d82082fb28", "c1576a14de707097", "739b68cd2e26782a", "2a59f0c464506edb", "a5c39d4251f0a81e", "7239ac9a6107ddb1",
        "070cac8590241233", "78f87b6e3dfecf61", "95ec2578c2c433f0", "1b1a2ddb4c642438",
    ];
    for i in 0..16 {
        let d = Des::new(&x);
        let mut b = x;
        if i % 2 == 0 { d.encrypt(&mut b) } else { d.decrypt(&mut b) }
        x = b;
        assert_eq!(x, hx8(expect[i]), "X{}", i + 1);
    }
}

/// subkeys of the classic worked example, K1..K16 as printed there (6-bit groups)
#[test]
fn des_round_keys_worked_example() {
    let ks = round_keys(&hx8("133457799bbcdff1"));
    let want = [
        "000110 110000 001011 101111 111111 000111 000001 110010",
        "011110 011010 111011 011001 110110 111100 100111 100101",
        "010101 011111 110010 001010 010000 101100 111110 011001",
        "011100 101010 110111 010110 110110 110011 010100 011101",
        "011111 001110 110000 000111 111010 110101 001110 101000",
        "011000 111010 010100 111110 010100 000111 101100 101111",
        "111011 001000 010010 110111 111101 100001 100010 111100",
        "111101 111000 101000 111010 110000 010011 101111 111011",
        "111000 001101 101111 101011 111011 011110 011110 000001",
        "101100 011111 001101 000111 101110 100100 011001 001111",
        "001000 010101 111111 010011 110111 101101 001110 000110",
        "011101 010111 000111 110101 100101 000110 011111 101001",
        "100101 111100 010111 010001 111110 101011 101001 000001",
        "010111 110100 001110 110111 111100 101110 011100 111010",
        "101111 111001 000110 001101 001111 010011 111100 001010",
        "110010 110011 110110 001011 000011 100001 011111 110101",
    ];
    for n in 0..16 {
        let bits: String = want[n].chars().filter(|c| !c.is_whitespace()).collect();
        assert_eq!(ks[n], u64::from_str_radix(&bits, 2).unwrap(), "K{}", n + 1);
        assert!(ks[n] < 1 << 48);
    }
}

#[test]
fn tdes_known_vectors() {
    // NIST SP 800-67 Appendix B.1: "The qufck brown fox jump"
    let key = hx("0123456789abcdef 23456789abcdef01 456789abcdef0123");
    let t = Tdes::new(&key, TdesMode::Ede);
    assert_eq!(t.block_size(), 8);
    for (p, c) in [("5468652071756663", "a826fd8ce53b855f"), ("6b2062726f776e20", "cce21c8112256fe6"), ("666f78206a756d70", "68d5c05dd9b6b900")] {
        let mut b = hx(p);
        t.encrypt(&mut b);
        assert_eq!(b, hx(c));
        t.decrypt(&mut b);
        assert_eq!(b, hx(p));
    }
    // keying option 3 (k1 = k2 = k3) degenerates to single DES: FIPS 81 vector
    let t = Tdes::new(&hx("0123456789abcdef 0123456789abcdef 0123456789abcdef"), TdesMode::Ede);
    let mut b = hx("4e6f772069732074");
    t.encrypt(&mut b);
    assert_eq!(b, hx("3fa40e8a984d4815"));
    let t = Tdes::new(&hx("0123456789abcdef 0123456789abcdef"), TdesMode::Ede);
    let mut b = hx("4e6f772069732074");
    t.encrypt(&mut b);
    assert_eq!(b, hx("3fa40e8a984d4815"));
}

// ------------------------------------------------------------------ single DES vs libraries

fn check_des_key(key: &[u8], data: &[u8], n: &mut u64, ng: &mut u64) {
    let d = Des::new(key);
    let enc = ecb(&d, true, data);
    let dec = ecb(&d, false, data);
    assert_eq!(enc, openssl_ecb("DES-ECB", key, None, true, data).expect("openssl DES-ECB"), "enc key={key:02x?}");
    assert_eq!(dec, openssl_ecb("DES-ECB", key, None, false, data).expect("openssl DES-ECB"), "dec key={key:02x?}");
    assert_eq!(ecb(&d, false, &enc), data, "roundtrip key={key:02x?}");
    *n += 2 * (data.len() / 8) as u64;
    // libgcrypt refuses exactly the weak keys
    match gcrypt_ecb(GCRY_CIPHER_DES, key, None, true, data) {
        Ok(g) => {
            assert!(!is_weak(&k8(key)), "gcrypt accepted {key:02x?}");
            assert_eq!(enc, g, "gcrypt enc key={key:02x?}");
            assert_eq!(dec, gcrypt_ecb(GCRY_CIPHER_DES, key, None, false, data).unwrap(), "gcrypt dec key={key:02x?}");
            *ng += 2 * (data.len() / 8) as u64;
        }
        Err(e) => {
            assert_eq!(e, GPG_ERR_WEAK_KEY);
            assert!(is_weak(&k8(key)), "gcrypt rejected {key:02x?}");
        }
    }
}

#[test]
fn des_against_openssl_and_libgcrypt() {
    let keys_base = input_set(8, 0xde5_0001, 64);
    let blocks_base = input_set(8, 0xde5_0002, 64);
    let keys_w2 = weight2(8);
    let blocks_w2 = weight2(8);
    assert_eq!(keys_w2.len(), 2016);
    let (mut n, mut ng) = (0u64, 0u64);
    // base keys x (base blocks + all weight-2 blocks)
    let mut data: Vec<u8> = blocks_base.concat();
    data.extend(blocks_w2.concat());
    for key in keys_base.iter().chain(random_xor_walking_one(8, 0xde5_0003).iter()) {
        check_des_key(key, &data, &mut n, &mut ng);
    }
    // all weight-2 keys x base blocks
    let data: Vec<u8> = blocks_base.concat();
    for key in &keys_w2 {
        check_des_key(key, &data, &mut n, &mut ng);
    }
    // every listed weak key as well
    for key in NIST_WEAK_KEYS.iter() {
        check_des_key(key, &data, &mut n, &mut ng);
    }
    println!("des vs OpenSSL: {n} block comparisons; vs libgcrypt (non-weak keys): {ng}");
}

// ------------------------------------------------------------------ Triple DES vs libraries

fn any_part_weak(key: &[u8]) -> bool {
    key.chunks(8).any(|k| is_weak(&k8(k)))
}

fn check_tdes_key(key: &[u8], data: &[u8], n: &mut u64, ng: &mut u64) {
    let name = if key.len() == 16 { "DES-EDE-ECB" } else { "DES-EDE3-ECB" };
    let t = Tdes::new(key, TdesMode::Ede);
    let enc = ecb(&t, true, data);
    let dec = ecb(&t, false, data);
    assert_eq!(enc, openssl_ecb(name, key, None, true, data).expect(name), "{name} enc key={key:02x?}");
    assert_eq!(dec, openssl_ecb(name, key, None, false, data).expect(name), "{name} dec key={key:02x?}");
    assert_eq!(ecb(&t, false, &enc), data);
    *n += 2 * (data.len() / 8) as u64;
    // libgcrypt 3DES takes 24 bytes; it refuses a key iff one of its three parts is weak
    let mut k24 = key.to_vec();
    if key.len() == 16 {
        k24.extend_from_slice(&key[..8]);
        // a two-key bundle is the three-key bundle (k1, k2, k1)
        let t3 = Tdes::new(&k24, TdesMode::Ede);
        assert_eq!(enc, ecb(&t3, true, data));
    }
    match gcrypt_ecb(GCRY_CIPHER_3DES, &k24, None, true, data) {
        Ok(g) => {
            assert!(!any_part_weak(&k24), "gcrypt accepted {k24:02x?}");
            assert_eq!(enc, g, "gcrypt 3DES enc key={key:02x?}");
            assert_eq!(dec, gcrypt_ecb(GCRY_CIPHER_3DES, &k24, None, false, data).unwrap(), "gcrypt 3DES dec key={key:02x?}");
            *ng += 2 * (data.len() / 8) as u64;
        }
        Err(e) => {
            assert_eq!(e, GPG_ERR_WEAK_KEY);
            assert!(any_part_weak(&k24), "gcrypt rejected {k24:02x?}");
        }
    }

    // EEE: no library; composition of single DES
    let e = Tdes::new(key, TdesMode::Eee);
    let d1 = Des::new(&k24[0..8]);
    let d2 = Des::new(&k24[8..16]);
    let d3 = Des::new(&k24[16..24]);
    let eee = ecb(&e, true, data);
    assert_eq!(eee, ecb(&d3, true, &ecb(&d2, true, &ecb(&d1, true, data))));
    assert_eq!(ecb(&e, false, data), ecb(&d1, false, &ecb(&d2, false, &ecb(&d3, false, data))));
    assert_eq!(ecb(&e, false, &eee), data);
    // EDE likewise (independent of the library check above)
    assert_eq!(enc, ecb(&d3, true, &ecb(&d2, false, &ecb(&d1, true, data))));
    assert_eq!(dec, ecb(&d1, false, &ecb(&d2, true, &ecb(&d3, false, data))));
}

#[test]
fn tdes_against_openssl_and_libgcrypt() {
    let blocks = input_set(8, 0x3de5_0001, 64);
    let data: Vec<u8> = blocks.concat();
    for klen in [16usize, 24] {
        let (mut n, mut ng) = (0u64, 0u64);
        let mut keys = input_set(klen, 0x3de5_0100 + klen as u64, 96);
        keys.extend(random_xor_walking_one(klen, 0x3de5_0200 + klen as u64));
        // bundles containing listed weak keys in each position
        let mut rng = SplitMix64(0x3de5_0300);
        for (i, w) in NIST_WEAK_KEYS.iter().enumerate() {
            let mut k = rng.bytes(klen);
            let pos = i % (klen / 8);
            k[8 * pos..8 * pos + 8].copy_from_slice(w);
            keys.push(k);
        }
        for key in &keys {
            check_tdes_key(key, &data, &mut n, &mut ng);
        }
        println!("tdes {klen}-byte keys: {} keys x {} blocks; {n} comparisons vs OpenSSL, {ng} vs libgcrypt", keys.len(), blocks.len());
    }
}

// ------------------------------------------------------------------ algebraic properties

#[test]
fn des_complementation_and_parity() {
    let keys = input_set(8, 0xde5_1001, 32);
    let blocks = input_set(8, 0xde5_1002, 8);
    for key in &keys {
        let nkey: Vec<u8> = key.iter().map(|b| !b).collect();
        let d = Des::new(key);
        let dn = Des::new(&nkey);
        for p in blocks.iter().step_by(5) {
            let mut c = p.clone();
            d.encrypt(&mut c);
            let mut cn: Vec<u8> = p.iter().map(|b| !b).collect();
            dn.encrypt(&mut cn);
            let cn: Vec<u8> = cn.iter().map(|b| !b).collect();
            assert_eq!(c, cn, "E(~k,~p) = ~E(k,p)");
        }
    }
    // all 256 parity patterns give the same cipher
    let data: Vec<u8> = blocks.concat();
    let mut rng = SplitMix64(0xde5_1003);
    let mut some_keys = vec![hx("133457799bbcdff1"), vec![0u8; 8], (0..8u8).collect::<Vec<u8>>()];
    some_keys.push(rng.bytes(8));
    some_keys.push(rng.bytes(8));
    for key in &some_keys {
        let ks = round_keys(&k8(key));
        let enc = ecb(&Des::new(key), true, &data);
        for pat in 0..256u32 {
            let mut k = key.clone();
            for i in 0..8 {
                k[i] = (k[i] & 0xfe) | ((pat >> i) & 1) as u8;
            }
            assert_eq!(round_keys(&k8(&k)), ks);
            assert_eq!(ecb(&Des::new(&k), true, &data), enc);
            assert_eq!(is_weak(&k8(&k)), is_weak(&k8(key)));
        }
    }
}

// ------------------------------------------------------------------ weak keys

fn strip(k: &[u8; 8]) -> [u8; 8] {
    let mut o = *k;
    for b in o.iter_mut() {
        *b &= 0xfe;
    }
    o
}

fn distinct_subkeys(k: &[u8; 8]) -> usize {
    round_keys(k).iter().collect::<HashSet<_>>().len()
}

#[test]
fn weak_key_list() {
    // (iv) 64 pairwise-distinct entries modulo parity, each in odd-parity form
    let set: HashSet<[u8; 8]> = NIST_WEAK_KEYS.iter().map(strip).collect();
    assert_eq!(set.len(), 64);
    for k in NIST_WEAK_KEYS.iter() {
        assert!(k.iter().all(|b| b.count_ones() % 2 == 1), "odd parity {k:02x?}");
    }

    // (i) every listed key, and each with all parity bits flipped, is flagged by libgcrypt (and by is_weak)
    for k in NIST_WEAK_KEYS.iter() {
        let mut f = *k;
        for b in f.iter_mut() {
            *b ^= 1;
        }
        assert!(gcrypt_des_is_weak(k), "{k:02x?}");
        assert!(gcrypt_des_is_weak(&f), "{f:02x?}");
        assert!(is_weak(k) && is_weak(&f) && is_weak(&strip(k)));
    }

    // (ii) number of distinct subkeys: 4 weak -> 1, 12 semi-weak -> 2, 48 possibly weak -> 4
    for (i, k) in NIST_WEAK_KEYS.iter().enumerate() {
        let want = if i < 4 { 1 } else if i < 16 { 2 } else { 4 };
        assert_eq!(distinct_subkeys(k), want, "entry {i} {k:02x?}");
    }
    // weak keys: encryption is an involution; semi-weak keys come in (adjacent) pairs with E_k2 = D_k1
    let blocks = input_set(8, 0xde5_2001, 16);
    let data: Vec<u8> = blocks.concat();
    for k in &NIST_WEAK_KEYS[..4] {
        let d = Des::new(k);
        assert_eq!(ecb(&d, true, &ecb(&d, true, &data)), data);
    }
    for pair in NIST_WEAK_KEYS[4..16].chunks(2) {
        let mut r = round_keys(&pair[0]);
        r.reverse();
        assert_eq!(r, round_keys(&pair[1]));
        assert_eq!(ecb(&Des::new(&pair[1]), true, &ecb(&Des::new(&pair[0]), true, &data)), data);
    }
    // the list is closed under complementing all key bits (complementation property)
    for k in NIST_WEAK_KEYS.iter() {
        let c: [u8; 8] = core::array::from_fn(|i| !k[i]);
        assert!(is_weak(&c), "complement of {k:02x?}");
    }

    // (iii) libgcrypt flags nothing outside the list: single non-parity bit flips of listed keys ...
    let mut outside = 0;
    for k in NIST_WEAK_KEYS.iter() {
        for bit in 0..64 {
            if bit % 8 == 7 {
                continue; // parity bit
            }
            let mut f = *k;
            f[bit / 8] ^= 0x80 >> (bit % 8);
            if set.contains(&strip(&f)) {
                assert!(is_weak(&f));
                continue;
            }
            outside += 1;
            assert!(!gcrypt_des_is_weak(&f), "gcrypt flags unlisted {f:02x?}");
            assert!(!is_weak(&f));
            assert!(distinct_subkeys(&f) > 4, "{f:02x?}");
        }
    }
    assert!(outside > 3000);
    // ... and 10 000 pseudo-random keys
    let mut rng = SplitMix64(0xde5_2002);
    for _ in 0..10_000 {
        let k = rng.next().to_be_bytes();
        assert!(!set.contains(&strip(&k)));
        assert!(!gcrypt_des_is_weak(&k), "gcrypt flags unlisted {k:02x?}");
        assert!(!is_weak(&k));
    }
    // the base input set too: is_weak agrees with libgcrypt
    for k in input_set(8, 0xde5_2003, 64).iter().chain(weight2(8).iter()) {
        assert_eq!(is_weak(&k8(k)), gcrypt_des_is_weak(&k8(k)), "{k:02x?}");
    }
}

/// Exhaustive over the structured candidates: all 4^8 = 65536 keys with bytes 0..3 drawn from
/// {01, 1F, E0, FE} and bytes 4..7 from {01, 0E, F1, FE} (every listed key has this shape; these are the keys
/// whose C0/D0 registers are built from one bit per key byte).  On this family libgcrypt flags a key iff it
/// is listed.  Note (fact about DES, not about the list): 256 keys of the family -- those of the form
/// (a,b,c,d,a',b',c',d'), i.e. C0 and D0 invariant under rotation by 4 -- have at most 4 distinct subkeys;
/// the NIST list contains only 64 of them (4 + 12 + 48).
#[test]
fn weak_key_list_vs_structured_candidates() {
    let hi = [0x01u8, 0x1f, 0xe0, 0xfe];
    let lo = [0x01u8, 0x0e, 0xf1, 0xfe];
    let (mut listed_n, mut few) = (0, 0);
    for idx in 0..65536u32 {
        let k: [u8; 8] = core::array::from_fn(|i| {
            let sel = ((idx >> (2 * i)) & 3) as usize;
            if i < 4 { hi[sel] } else { lo[sel] }
        });
        let listed = is_weak(&k);
        let n = distinct_subkeys(&k);
        if listed {
            assert!(n <= 4, "{k:02x?}");
        }
        assert_eq!(listed, gcrypt_des_is_weak(&k), "{k:02x?}");
        let period4 = (0..4).all(|i| (idx >> (2 * i)) & 3 == (idx >> (2 * (i + 4))) & 3);
        assert_eq!(n <= 4, period4, "{k:02x?}");
        listed_n += listed as u32;
        few += (n <= 4) as u32;
    }
    assert_eq!(listed_n, 64);
    assert_eq!(few, 256);
}

// ------------------------------------------------------------------ misc

#[test]
fn rejects_bad_key_lengths() {
    for len in [0usize, 7, 9, 16, 24] {
        assert!(std::panic::catch_unwind(|| Des::new(&vec![0u8; len])).is_err(), "DES key length {len}");
    }
    for len in [0usize, 8, 15, 17, 23, 25, 32] {
        for mode in [TdesMode::Ede, TdesMode::Eee] {
            assert!(std::panic::catch_unwind(|| Tdes::new(&vec![0u8; len], mode)).is_err(), "TDES key length {len}");
        }
    }
}

#[test]
fn is_send_sync() {
    fn check<T: Send + Sync>() {}
    check::<Des>();
    check::<Tdes>();
    let _ = des::TdesMode::Ede == des::TdesMode::Eee;
}

#[test]
fn timing() {
    let key: Vec<u8> = (1..=24u8).collect();
    let iters = 2000;
    let t0 = std::time::Instant::now();
    for i in 0..iters {
        let mut k = key.clone();
        k[0] = i as u8;
        std::hint::black_box(Des::new(&k[..8]));
    }
    println!("des key setup: {} ns", t0.elapsed().as_nanos() / iters);
    let t0 = std::time::Instant::now();
    for i in 0..iters {
        let mut k = key.clone();
        k[0] = i as u8;
        std::hint::black_box(Tdes::new(&k, TdesMode::Ede));
    }
    println!("tdes (3-key) key setup: {} ns", t0.elapsed().as_nanos() / iters);
    let ciphers: [(&str, Box<dyn RefCipher>); 3] = [
        ("des", Box::new(Des::new(&key[..8]))),
        ("tdes-ede3", Box::new(Tdes::new(&key, TdesMode::Ede))),
        ("tdes-eee2", Box::new(Tdes::new(&key[..16], TdesMode::Eee))),
    ];
    for (name, c) in ciphers.iter() {
        let mut b = [0u8; 8];
        c.encrypt(&mut b); // warm the look-up tables
        let iters = 20000;
        let t0 = std::time::Instant::now();
        for _ in 0..iters {
            c.encrypt(&mut b);
        }
        let e = t0.elapsed().as_nanos() / iters;
        let t0 = std::time::Instant::now();
        for _ in 0..iters {
            c.decrypt(&mut b);
        }
        let d = t0.elapsed().as_nanos() / iters;
        std::hint::black_box(b);
        println!("{name}: encrypt {e} ns/block, decrypt {d} ns/block");
    }
}
