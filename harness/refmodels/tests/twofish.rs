//! Validation of the Twofish reference model: nettle (16/24/32), libgcrypt (16/32), the
//! specification's examples and the ECB_TBL known-answer iteration quoted in /repo/twofish/tests.
#![cfg(feature = "ffi")]
use refmodels::RefCipher;
use refmodels::ffi::{GCRY_CIPHER_TWOFISH, GCRY_CIPHER_TWOFISH128, gcrypt_ecb, nettle_twofish};
use refmodels::twofish::Twofish;

// ---- deterministic input alphabet (duplicated in each tests/<module>.rs on purpose: self-contained)
#[allow(dead_code)]
mod inputs {
    pub struct SplitMix64(pub u64);
    impl SplitMix64 {
        pub fn next(&mut self) -> u64 {
            self.0 = self.0.wrapping_add(0x9E3779B97F4A7C15);
            let mut z = self.0;
            z = (z ^ (z >> 30)).wrapping_mul(0xBF58476D1CE4E5B9);
            z = (z ^ (z >> 27)).wrapping_mul(0x94D049BB133111EB);
            z ^ (z >> 31)
        }
        pub fn bytes(&mut self, n: usize) -> Vec<u8> {
            let mut v = Vec::with_capacity(n + 8);
            while v.len() < n {
                v.extend_from_slice(&self.next().to_le_bytes());
            }
            v.truncate(n);
            v
        }
    }
    /// all-zero, all-ones, byte ramp, `nrand` pseudo-random values
    pub fn core(n: usize, nrand: usize, seed: u64) -> Vec<Vec<u8>> {
        let mut v = vec![vec![0u8; n], vec![0xffu8; n], (0..n).map(|i| i as u8).collect::<Vec<u8>>()];
        let mut rng = SplitMix64(seed ^ (n as u64) << 32);
        for _ in 0..nrand {
            v.push(rng.bytes(n));
        }
        v
    }
    /// every single-bit value (walking one) and every single-zero-bit value
    pub fn walking(n: usize) -> Vec<Vec<u8>> {
        let mut v = Vec::new();
        for bit in 0..8 * n {
            let mut a = vec![0u8; n];
            a[bit / 8] |= 0x80 >> (bit % 8);
            let b: Vec<u8> = a.iter().map(|x| !x).collect();
            v.push(a);
            v.push(b);
        }
        v
    }
    /// full alphabet: core(64 random) + walking
    pub fn full(n: usize, seed: u64) -> Vec<Vec<u8>> {
        let mut v = core(n, 64, seed);
        v.extend(walking(n));
        v
    }
    pub fn concat(v: &[Vec<u8>]) -> Vec<u8> {
        v.iter().flat_map(|b| b.iter().copied()).collect()
    }
    pub fn hx(s: &str) -> Vec<u8> {
        let s: String = s.chars().filter(|c| !c.is_whitespace()).collect();
        (0..s.len() / 2).map(|i| u8::from_str_radix(&s[2 * i..2 * i + 2], 16).unwrap()).collect()
    }
}
use inputs::*;

/// Apply the model block by block over a concatenation of blocks.
#[allow(dead_code)]
fn model_ecb(c: &dyn RefCipher, encrypt: bool, data: &[u8]) -> Vec<u8> {
    let bs = c.block_size();
    assert_eq!(data.len() % bs, 0);
    let mut out = data.to_vec();
    for b in out.chunks_mut(bs) {
        if encrypt { c.encrypt(b) } else { c.decrypt(b) }
    }
    out
}

/// Key/block pairing used against the libraries: every key of the full key alphabet with a small
/// block set, and the core keys (zero, ones, ramp, 64 random) with the full block alphabet.
/// Returns (key, concatenated blocks) jobs.
#[allow(dead_code)]
fn jobs(klen: usize, bs: usize) -> Vec<(Vec<u8>, Vec<u8>)> {
    let small = concat(&core(bs, 8, 0xB10C));
    let fullb = concat(&full(bs, 0xB10C));
    let mut j = Vec::new();
    for k in core(klen, 64, 0x5EED) {
        j.push((k, fullb.clone()));
    }
    for k in walking(klen) {
        j.push((k, small.clone()));
    }
    j
}

/// Decoder for RustCrypto's `blobby` container (git-flavoured VLQ lengths, de-duplication table).
#[allow(dead_code)]
fn blobby(d: &[u8]) -> Vec<Vec<u8>> {
    fn vlq(d: &[u8], p: &mut usize) -> usize {
        let mut b = d[*p];
        *p += 1;
        let mut v = (b & 0x7f) as usize;
        while b & 0x80 != 0 {
            b = d[*p];
            *p += 1;
            v = ((v + 1) << 7) + (b & 0x7f) as usize;
        }
        v
    }
    let mut p = 0usize;
    let n = vlq(d, &mut p);
    let mut dedup = Vec::new();
    for _ in 0..n {
        let m = vlq(d, &mut p);
        dedup.push(d[p..p + m].to_vec());
        p += m;
    }
    let mut out = Vec::new();
    while p < d.len() {
        let n = vlq(d, &mut p);
        if n & 1 == 1 {
            out.push(dedup[n >> 1].clone());
        } else {
            out.push(d[p..p + (n >> 1)].to_vec());
            p += n >> 1;
        }
    }
    out
}

#[test]
fn twofish_vs_nettle() {
    let mut cases = 0usize;
    for klen in [16usize, 24, 32] {
        for (key, data) in jobs(klen, 16) {
            let m = Twofish::new(&key);
            let ct = model_ecb(&m, true, &data);
            assert_eq!(ct, nettle_twofish(&key, true, &data), "enc klen={klen} key={key:02x?}");
            let pt = model_ecb(&m, false, &data);
            assert_eq!(pt, nettle_twofish(&key, false, &data), "dec klen={klen} key={key:02x?}");
            assert_eq!(model_ecb(&m, false, &ct), data);
            assert_eq!(model_ecb(&m, true, &pt), data);
            cases += 2 * data.len() / 16;
        }
    }
    println!("twofish vs nettle: {cases} block operations compared");
}

#[test]
fn twofish_vs_gcrypt() {
    let mut cases = 0usize;
    for (klen, algo) in [(16usize, GCRY_CIPHER_TWOFISH128), (32, GCRY_CIPHER_TWOFISH)] {
        for (key, data) in jobs(klen, 16) {
            let m = Twofish::new(&key);
            assert_eq!(model_ecb(&m, true, &data), gcrypt_ecb(algo, &key, None, true, &data).unwrap(), "enc klen={klen}");
            assert_eq!(model_ecb(&m, false, &data), gcrypt_ecb(algo, &key, None, false, &data).unwrap(), "dec klen={klen}");
            cases += 2 * data.len() / 16;
        }
    }
    println!("twofish vs gcrypt: {cases} block operations compared");
}

/// The three worked examples of the specification (appendix "Test Vectors": intermediate values
/// for 128-, 192- and 256-bit keys): S-box key words, expanded key words, ciphertext.
#[test]
fn twofish_spec_examples() {
    // 128-bit: key = 0, plaintext = 0
    let m = Twofish::new(&[0u8; 16]);
    assert_eq!(m.sbox_key(), vec![0x00000000, 0x00000000]);
    let k128: [u32; 40] = [
        0x52C54DDE, 0x11F0626D, 0x7CAC9D4A, 0x4D1B4AAA, 0xB7B83A10, 0x1E7D0BEB, 0xEE9C341F, 0xCFE14BE4,
        0xF98FFEF9, 0x9C5B3C17, 0x15A48310, 0x342A4D81, 0x424D89FE, 0xC14724A7, 0x311B834C, 0xFDE87320,
        0x3302778F, 0x26CD67B4, 0x7A6C6362, 0xC2BAF60E, 0x3411B994, 0xD972C87F, 0x84ADB1EA, 0xA7DEE434,
        0x54D2960F, 0xA2F7CAA8, 0xA6B8FF8C, 0x8014C425, 0x6A748D1C, 0xEDBAF720, 0x928EF78C, 0x0338EE13,
        0x9949D6BE, 0xC8314176, 0x07C07D68, 0xECAE7EA7, 0x1FE71844, 0x85C05C89, 0xF298311E, 0x696EA672,
    ];
    assert_eq!(m.expanded_key(), k128);
    let mut b = [0u8; 16];
    m.encrypt(&mut b);
    assert_eq!(b.to_vec(), hx("9F589F5CF6122C32B6BFEC2F2AE8C35A"));
    m.decrypt(&mut b);
    assert_eq!(b, [0u8; 16]);

    // 192-bit
    let m = Twofish::new(&hx("0123456789ABCDEFFEDCBA98765432100011223344556677"));
    assert_eq!(m.sbox_key(), vec![0xB89FF6F2, 0xB255BC4B, 0x45661061]);
    assert_eq!(
        m.expanded_key()[..8],
        [0x38394A24, 0xC36D1175, 0xE802528F, 0x219BFEB4, 0xB9141AB4, 0xBD3E70CD, 0xAF609383, 0xFD36908A]
    );
    let mut b = [0u8; 16];
    m.encrypt(&mut b);
    assert_eq!(b.to_vec(), hx("CFD1D2E5A9BE9CDF501F13B892BD2248"));
    m.decrypt(&mut b);
    assert_eq!(b, [0u8; 16]);

    // 256-bit
    let m = Twofish::new(&hx("0123456789ABCDEFFEDCBA987654321000112233445566778899AABBCCDDEEFF"));
    assert_eq!(m.sbox_key(), vec![0xB89FF6F2, 0xB255BC4B, 0x45661061, 0x8E4447F7]);
    assert_eq!(
        m.expanded_key()[..8],
        [0x5EC769BF, 0x44D13C60, 0x76CD39B1, 0x16750474, 0x349C294B, 0xEC21F6D6, 0x4FBD10B4, 0x578DA0ED]
    );
    let mut b = [0u8; 16];
    m.encrypt(&mut b);
    assert_eq!(b.to_vec(), hx("37527BE0052334B89F0CFCCAE87CFA20"));
    m.decrypt(&mut b);
    assert_eq!(b, [0u8; 16]);
}

/// ECB_TBL.TXT known-answer iteration (values quoted in /repo/twofish/tests/mod.rs):
/// I=1: key 0, pt 0;  then key_{i+1} = pt_i || key_i (truncated),  pt_{i+1} = ct_i.
#[test]
fn twofish_ecb_tbl() {
    let tbl: [(usize, [&str; 6]); 3] = [
        (16, [
            "9F589F5CF6122C32B6BFEC2F2AE8C35A", "D491DB16E7B1C39E86CB086B789F5419", "019F9809DE1711858FAAC3A3BA20FBC3",
            "6363977DE839486297E661C6C9D668EB", "816D5BD0FAE35342BF2A7412C246F752", "6B459286F3FFD28D49F15B1581B08E42",
        ]),
        (24, [
            "EFA71F788965BD4453F860178FC19101", "88B2B2706B105E36B446BB6D731A1E88", "39DA69D6BA4997D585B6DC073CA341B2",
            "182B02D81497EA45F9DAACDC29193A65", "7AFF7A70CA2FF28AC31DD8AE5DAAAB63", "F0AB73301125FA21EF70BE5385FB76B6",
        ]),
        (32, [
            "57FF739D4DC92C1BD7FC01700CC8216F", "D43BB7556EA32E46F2A282B7D45B4E0D", "90AFE91BB288544F2C32DC239B2635E6",
            "6CB4561C40BF0A9705931CB6D408E7FA", "3059D6D61753B958D92F4781C8640E58", "431058F4DBC7F734DA4F02F04CC4F459",
        ]),
    ];
    for (klen, exp) in tbl {
        let mut key = vec![0u8; klen];
        let mut plain = vec![0u8; 16];
        for i in 1..50 {
            let m = Twofish::new(&key);
            let mut c = plain.clone();
            m.encrypt(&mut c);
            let mut back = c.clone();
            m.decrypt(&mut back);
            assert_eq!(back, plain);
            let want = match i {
                1..=5 => Some(exp[i - 1]),
                48 => Some(exp[5]),
                _ => None,
            };
            if let Some(w) = want {
                assert_eq!(c, hx(w), "klen {klen} i {i}");
            }
            let mut nk = plain.clone();
            nk.extend_from_slice(&key[..klen - 16]);
            key = nk;
            plain = c;
        }
    }
}

#[test]
fn twofish_unsupported_key_lengths_panic() {
    for n in [0usize, 8, 15, 17, 20, 31, 33, 64] {
        assert!(std::panic::catch_unwind(|| Twofish::new(&vec![0u8; n])).is_err(), "len {n}");
    }
}

/// Timing report (informative; run with --release --nocapture).  Minimum over 5 repetitions.
#[test]
fn twofish_speed() {
    let m = Twofish::new(&[7u8; 32]);
    let mut b = [0u8; 16];
    let n = 20_000;
    let (mut e, mut d, mut s) = (f64::MAX, f64::MAX, f64::MAX);
    let mut acc = 0u8;
    for _ in 0..5 {
        let t = std::time::Instant::now();
        for _ in 0..n {
            m.encrypt(&mut b);
        }
        e = e.min(t.elapsed().as_nanos() as f64 / n as f64);
        let t = std::time::Instant::now();
        for _ in 0..n {
            m.decrypt(&mut b);
        }
        d = d.min(t.elapsed().as_nanos() as f64 / n as f64);
        let t = std::time::Instant::now();
        for i in 0..2_000u32 {
            let mut k = [0u8; 32];
            k[..4].copy_from_slice(&i.to_le_bytes());
            k[4] = b[0];
            acc ^= std::hint::black_box(Twofish::new(&k)).block_size() as u8;
        }
        s = s.min(t.elapsed().as_nanos() as f64 / 2_000.0);
    }
    println!("twofish: encrypt {e:.0} ns/block, decrypt {d:.0} ns/block, key set-up {s:.0} ns ({acc} {b:?})");
}
