#![cfg(feature = "ffi")]
//! Validation of the IDEA reference model against libgcrypt GCRY_CIPHER_IDEA, OpenSSL IDEA-ECB (legacy provider,
//! if built in) and the classic published vector.

use refmodels::RefCipher;
use refmodels::ffi::{GCRY_CIPHER_IDEA, gcrypt_ecb, openssl_ecb};
use refmodels::idea::{Idea, mul};

fn hx(s: &str) -> Vec<u8> {
    (0..s.len() / 2).map(|i| u8::from_str_radix(&s[2 * i..2 * i + 2], 16).unwrap()).collect()
}

struct SplitMix64(u64);
impl SplitMix64 {
    fn next(&mut self) -> u64 {
        self.0 = self.0.wrapping_add(0x9E3779B97F4A7C15);
        let mut z = self.0;
        z = (z ^ (z >> 30)).wrapping_mul(0xBF58476D1CE4E5B9);
        z = (z ^ (z >> 27)).wrapping_mul(0x94D049BB133111EB);
        z ^ (z >> 31)
    }
    fn bytes(&mut self, n: usize) -> Vec<u8> {
        let mut v = Vec::with_capacity(n + 8);
        while v.len() < n {
            v.extend_from_slice(&self.next().to_le_bytes());
        }
        v.truncate(n);
        v
    }
}

fn input_set(n: usize, nrand: usize, seed: u64) -> Vec<Vec<u8>> {
    let mut v = vec![vec![0u8; n], vec![0xffu8; n]];
    for bit in 0..8 * n {
        let mut a = vec![0u8; n];
        a[bit / 8] |= 0x80 >> (bit % 8);
        let b: Vec<u8> = a.iter().map(|x| !x).collect();
        v.push(a);
        v.push(b);
    }
    v.push((0..n).map(|i| i as u8).collect());
    let mut rng = SplitMix64(seed);
    for _ in 0..nrand {
        v.push(rng.bytes(n));
    }
    v
}

/// Words that make the special operands of the multiplication (0 = 2^16, 1, -1) and carries appear.
const SPECIAL: [u16; 8] = [0x0000, 0x0001, 0xFFFF, 0x8000, 0x7FFF, 0x0002, 0xFFFE, 0x8001];

fn words_to_bytes(w: &[u16]) -> Vec<u8> {
    w.iter().flat_map(|x| x.to_be_bytes()).collect()
}

/// All 4^4 blocks over {0, 1, 0xFFFF, 0x8000} plus 256 blocks over the 8 special words.
fn special_blocks() -> Vec<u8> {
    let mut out = Vec::new();
    for i in 0..256usize {
        let w: Vec<u16> = (0..4).map(|j| SPECIAL[(i >> (2 * j)) & 3]).collect();
        out.extend(words_to_bytes(&w));
    }
    let mut rng = SplitMix64(0x1DEA_B10C);
    for _ in 0..256 {
        let r = rng.next();
        let w: Vec<u16> = (0..4).map(|j| SPECIAL[((r >> (3 * j)) & 7) as usize]).collect();
        out.extend(words_to_bytes(&w));
    }
    out
}

/// Keys whose eight words are all taken from the special words: every word constant, all 4^4 patterns over
/// {0,1,0xFFFF,0x8000} repeated twice, and 1024 pseudo-random selections over the 8 special words.
fn special_keys() -> Vec<Vec<u8>> {
    let mut out = Vec::new();
    for &s in &SPECIAL {
        out.push(words_to_bytes(&[s; 8]));
    }
    for i in 0..256usize {
        let w: Vec<u16> = (0..8).map(|j| SPECIAL[(i >> (2 * (j % 4))) & 3]).collect();
        out.push(words_to_bytes(&w));
    }
    let mut rng = SplitMix64(0x1DEA_0CE1);
    for _ in 0..1024 {
        let r = rng.next();
        let w: Vec<u16> = (0..8).map(|j| SPECIAL[((r >> (3 * j)) & 7) as usize]).collect();
        out.push(words_to_bytes(&w));
    }
    out
}

fn model_ecb(c: &dyn RefCipher, encrypt: bool, data: &[u8]) -> Vec<u8> {
    let mut out = data.to_vec();
    for b in out.chunks_mut(8) {
        if encrypt { c.encrypt(b) } else { c.decrypt(b) }
    }
    out
}

fn all_keys() -> Vec<Vec<u8>> {
    let mut keys = input_set(16, 128, 0x1DEA);
    keys.extend(special_keys());
    keys
}

fn all_blocks() -> Vec<u8> {
    let mut blocks: Vec<u8> = input_set(8, 64, 0xB10C).concat();
    blocks.extend(special_blocks());
    blocks
}

#[test]
fn classic_vector() {
    // Lai's thesis / PGP idea.c test: key 0001 0002 ... 0008, plaintext 0000 0001 0002 0003
    let c = Idea::new(&hx("00010002000300040005000600070008"));
    let mut b = hx("0000000100020003");
    c.encrypt(&mut b);
    assert_eq!(b, hx("11FBED2B01986DE5"));
    c.decrypt(&mut b);
    assert_eq!(b, hx("0000000100020003"));
}

#[test]
fn mul_properties() {
    // spot values: 0 stands for 2^16 = -1 mod 65537
    assert_eq!(mul(0, 0), 1); // (-1)(-1)
    assert_eq!(mul(0, 1), 0);
    assert_eq!(mul(1, 0), 0);
    assert_eq!(mul(0, 2), 0xFFFF); // -2 = 65535
    assert_eq!(mul(0xFFFF, 0xFFFF), 4); // (-2)(-2)
    assert_eq!(mul(0x8000, 2), 0); // 2^16
    assert_eq!(mul(0x8000, 0x8000), 0xC001); // 2^30 = -(2^14) mod 65537
    assert_eq!(mul(3, 5), 15);
    // against an independent formulation (low - high trick is NOT used in the model): a*b mod 65537 via u128
    let mut rng = SplitMix64(77);
    let check = |a: u16, b: u16| {
        let x = if a == 0 { 65536u128 } else { a as u128 };
        let y = if b == 0 { 65536u128 } else { b as u128 };
        let r = (x * y) % 65537;
        assert!(r != 0);
        assert_eq!(mul(a, b) as u128, r % 65536, "mul({a},{b})");
        assert_eq!(mul(a, b), mul(b, a));
    };
    for &a in &SPECIAL {
        for b in 0..=65535u16 {
            check(a, b);
        }
    }
    for _ in 0..200_000 {
        let r = rng.next();
        check(r as u16, (r >> 16) as u16);
    }
    // group structure: every element has an inverse (x^65535), multiplication by a fixed element is a bijection
    for a in [0u16, 1, 2, 0xFFFF, 0x8000, 12345] {
        let mut seen = vec![false; 65536];
        for b in 0..=65535u16 {
            let m = mul(a, b) as usize;
            assert!(!seen[m]);
            seen[m] = true;
        }
    }
}

#[test]
fn gcrypt_idea() {
    let blocks = all_blocks();
    let mut cases = 0;
    let keys = all_keys();
    for k in &keys {
        let c = Idea::new(k);
        for enc in [true, false] {
            let lib = gcrypt_ecb(GCRY_CIPHER_IDEA, k, None, enc, &blocks).unwrap_or_else(|e| panic!("gcrypt IDEA key {:02x?}: error {}", k, e));
            let got = model_ecb(&c, enc, &blocks);
            assert_eq!(got, lib, "key {:02x?} enc {}", k, enc);
            assert_eq!(model_ecb(&c, !enc, &got), blocks);
            cases += blocks.len() / 8;
        }
    }
    println!("idea/gcrypt: {} keys, {cases} block comparisons", keys.len());
}

#[test]
fn openssl_idea() {
    let probe = openssl_ecb("IDEA-ECB", &[0u8; 16], None, true, &[0u8; 8]);
    if probe.is_none() {
        println!("idea/openssl: IDEA-ECB fetch returned None (cipher not built into this OpenSSL) -- NOT validated against OpenSSL");
        return;
    }
    let blocks = all_blocks();
    let mut cases = 0;
    let keys = all_keys();
    for k in &keys {
        let c = Idea::new(k);
        for enc in [true, false] {
            let lib = openssl_ecb("IDEA-ECB", k, None, enc, &blocks).expect("openssl IDEA");
            assert_eq!(model_ecb(&c, enc, &blocks), lib, "key {:02x?} enc {}", k, enc);
            cases += blocks.len() / 8;
        }
    }
    println!("idea/openssl: {} keys, {cases} block comparisons", keys.len());
}

#[test]
fn speed() {
    let c = Idea::new(&hx("00010002000300040005000600070008"));
    let mut b = [0u8; 8];
    let n = 200_000;
    let t = std::time::Instant::now();
    for _ in 0..n {
        c.encrypt(&mut b);
    }
    let e = t.elapsed().as_nanos() as f64 / n as f64;
    let t = std::time::Instant::now();
    for _ in 0..n {
        c.decrypt(&mut b);
    }
    let d = t.elapsed().as_nanos() as f64 / n as f64;
    let t = std::time::Instant::now();
    let mut acc = 0u8;
    for i in 0..2000u32 {
        let mut k = [0u8; 16];
        k[..4].copy_from_slice(&i.to_le_bytes());
        let c = Idea::new(&k);
        c.encrypt(&mut b);
        acc ^= b[0];
    }
    let s = t.elapsed().as_nanos() as f64 / 2000.0;
    println!("idea speed: encrypt {e:.0} ns/block, decrypt {d:.0} ns/block, key setup {s:.0} ns ({acc})");
}

// ------------------------------------------------------------------------------------------------
// NESSIE vectors (Idea-128-64.verified.test-vectors) as stored in /repo/idea/tests/data/idea.blb
// ("blobby" format: VLQ count d, d de-duplicated blobs (VLQ length + bytes), then entries: VLQ n; if n&1 a
// reference to de-duplicated blob n>>1, else n>>1 literal bytes).  Triples (key, plaintext, ciphertext).

fn read_vlq(data: &[u8], pos: &mut usize) -> usize {
    let mut b = data[*pos];
    *pos += 1;
    let mut val = (b & 0x7f) as usize;
    while b & 0x80 != 0 {
        b = data[*pos];
        *pos += 1;
        val = ((val + 1) << 7) + (b & 0x7f) as usize;
    }
    val
}

fn read_blb(data: &[u8]) -> Vec<Vec<u8>> {
    let mut pos = 0;
    let d = read_vlq(data, &mut pos);
    let mut dedup = Vec::new();
    for _ in 0..d {
        let m = read_vlq(data, &mut pos);
        dedup.push(data[pos..pos + m].to_vec());
        pos += m;
    }
    let mut out = Vec::new();
    while pos < data.len() {
        let n = read_vlq(data, &mut pos);
        if n & 1 == 1 {
            out.push(dedup[n >> 1].clone());
        } else {
            out.push(data[pos..pos + (n >> 1)].to_vec());
            pos += n >> 1;
        }
    }
    out
}

#[test]
fn nessie_vectors() {
    let data = std::fs::read("/repo/idea/tests/data/idea.blb").expect("NESSIE vector file of the idea crate");
    let blobs = read_blb(&data);
    assert_eq!(blobs.len() % 3, 0);
    let mut n = 0;
    for t in blobs.chunks(3) {
        let (k, p, c) = (&t[0], &t[1], &t[2]);
        assert_eq!((k.len(), p.len(), c.len()), (16, 8, 8));
        let m = Idea::new(k);
        assert_eq!(&model_ecb(&m, true, p), c, "NESSIE key {:02x?}", k);
        assert_eq!(&model_ecb(&m, false, c), p);
        n += 1;
    }
    assert!(n >= 100, "expected the NESSIE set, got {n} vectors");
    println!("idea/nessie: {n} vectors");
}
