#![cfg(feature = "ffi")]
//! Validation of the Blowfish / eksblowfish reference model:
//!  - OpenSSL BF-ECB (legacy provider): every key length 4..=56 (and whatever else OpenSSL accepts in 1..=72),
//!    full input sets at key lengths 4, 8, 17, 56
//!  - libgcrypt GCRY_CIPHER_BLOWFISH (16-byte keys)
//!  - Schneier's / Eric Young's published vectors (34 fixed-key ECB vectors + the 24 variable-key-length vectors)
//!  - eksblowfish: a complete bcrypt built on `State`, against vectors produced by libxcrypt ($2a$/$2b$)

use refmodels::RefCipher;
use refmodels::blowfish::{Blowfish, State};
use refmodels::ffi::{GCRY_CIPHER_BLOWFISH, gcrypt_ecb, openssl_ecb};

fn hx(s: &str) -> Vec<u8> {
    (0..s.len() / 2).map(|i| u8::from_str_radix(&s[2 * i..2 * i + 2], 16).unwrap()).collect()
}

struct SplitMix64(u64);
impl SplitMix64 {
    fn next(&mut self) -> u64 {
        self.0 = self.0.wrapping_add(0x9E3779B97F4A7C15);
        let mut z = self.0;
        z = (z ^ (z >> 30)).wrapping_mul(0xBF58476D1CE4E5B9);
        z = (z ^ (z >> 27)).wrapping_mul(0x94D049BB133111EB);
        z ^ (z >> 31)
    }
    fn bytes(&mut self, n: usize) -> Vec<u8> {
        let mut v = Vec::with_capacity(n + 8);
        while v.len() < n {
            v.extend_from_slice(&self.next().to_le_bytes());
        }
        v.truncate(n);
        v
    }
}

/// The brief's input set for byte strings of length n: all-zero, all-ones, walking one, walking zero,
/// byte ramp, `nrand` pseudo-random values.
fn input_set(n: usize, nrand: usize, seed: u64) -> Vec<Vec<u8>> {
    let mut v = vec![vec![0u8; n], vec![0xffu8; n]];
    for bit in 0..8 * n {
        let mut a = vec![0u8; n];
        a[bit / 8] |= 0x80 >> (bit % 8);
        let b: Vec<u8> = a.iter().map(|x| !x).collect();
        v.push(a);
        v.push(b);
    }
    v.push((0..n).map(|i| i as u8).collect());
    let mut rng = SplitMix64(seed);
    for _ in 0..nrand {
        v.push(rng.bytes(n));
    }
    v
}

fn model_ecb(c: &dyn RefCipher, encrypt: bool, data: &[u8]) -> Vec<u8> {
    let mut out = data.to_vec();
    for b in out.chunks_mut(8) {
        if encrypt { c.encrypt(b) } else { c.decrypt(b) }
    }
    out
}

fn swap_halves_endianness(data: &[u8]) -> Vec<u8> {
    let mut out = data.to_vec();
    for w in out.chunks_mut(4) {
        w.reverse();
    }
    out
}

/// Compares the model (both byte orders) with OpenSSL for one key over `data`, both directions.
/// Returns the number of block comparisons made against the library.
fn check_openssl(key: &[u8], data: &[u8]) -> usize {
    let be = Blowfish::new(key, false);
    let le = Blowfish::new(key, true);
    let mut n = 0;
    for enc in [true, false] {
        let lib = openssl_ecb("BF-ECB", key, None, enc, data).unwrap_or_else(|| panic!("OpenSSL BF-ECB keylen {}", key.len()));
        let got = model_ecb(&be, enc, data);
        assert_eq!(got, lib, "BF key {:02x?} enc {}", key, enc);
        // little-endian variant: same permutation, halves byte-swapped on input and output
        let got_le = model_ecb(&le, enc, &swap_halves_endianness(data));
        assert_eq!(swap_halves_endianness(&got_le), lib, "BF-LE key {:02x?} enc {}", key, enc);
        // round trip
        assert_eq!(model_ecb(&be, !enc, &got), data);
        assert_eq!(model_ecb(&le, !enc, &got_le), swap_halves_endianness(data));
        n += data.len() / 8;
    }
    n
}

#[test]
fn openssl_every_key_length() {
    let blocks: Vec<u8> = input_set(8, 64, 0xB10F).concat();
    let mut rng = SplitMix64(0x1234_5678);
    let mut cases = 0;
    let mut accepted_outside_spec = Vec::new();
    for len in 1..=72usize {
        // keys of pairwise-distinct bytes (so that a wrong cycling order / offset is visible)
        let k1: Vec<u8> = (0..len).map(|i| (i as u8).wrapping_mul(3).wrapping_add(0x11)).collect();
        let k2: Vec<u8> = (0..len).map(|i| 0xf0u8.wrapping_sub((i as u8).wrapping_mul(5))).collect();
        let mut k3 = rng.bytes(len);
        // make k3 pairwise distinct: a random permutation start of 0..=255
        {
            let mut perm: Vec<u8> = (0..=255u8).collect();
            for i in (1..256usize).rev() {
                let j = (rng.next() % (i as u64 + 1)) as usize;
                perm.swap(i, j);
            }
            k3.copy_from_slice(&perm[..len]);
        }
        for k in [&k1, &k2, &k3] {
            let mut sorted = k.to_vec();
            sorted.sort();
            sorted.dedup();
            assert_eq!(sorted.len(), len, "key bytes pairwise distinct");
            if (4..=56).contains(&len) {
                cases += check_openssl(k, &blocks);
            } else if openssl_ecb("BF-ECB", k, None, true, &blocks[..8]).is_some() {
                // outside the specified range: compare where OpenSSL accepts the length
                cases += check_openssl(k, &blocks);
                if !accepted_outside_spec.contains(&len) {
                    accepted_outside_spec.push(len);
                }
            } else {
                // still must round-trip
                let c = Blowfish::new(k, false);
                assert_eq!(model_ecb(&c, false, &model_ecb(&c, true, &blocks)), blocks);
            }
        }
    }
    println!("blowfish/openssl every key length: {cases} block comparisons; OpenSSL also accepted lengths {accepted_outside_spec:?}");
}

#[test]
fn openssl_full_input_sets() {
    let blocks: Vec<u8> = input_set(8, 64, 0xB10F).concat();
    let mut cases = 0;
    let mut keys = 0;
    for len in [4usize, 8, 17, 56] {
        for k in input_set(len, 64, 0x5EED + len as u64) {
            cases += check_openssl(&k, &blocks);
            keys += 1;
        }
    }
    println!("blowfish/openssl full input sets: {keys} keys, {cases} block comparisons");
}

#[test]
fn gcrypt_16_byte_keys() {
    let blocks: Vec<u8> = input_set(8, 64, 0xB10F).concat();
    let mut cases = 0;
    for k in input_set(16, 64, 0x6C727970) {
        let be = Blowfish::new(&k, false);
        for enc in [true, false] {
            let lib = gcrypt_ecb(GCRY_CIPHER_BLOWFISH, &k, None, enc, &blocks).expect("gcrypt blowfish");
            assert_eq!(model_ecb(&be, enc, &blocks), lib, "key {:02x?} enc {}", k, enc);
            cases += blocks.len() / 8;
        }
    }
    println!("blowfish/gcrypt: {cases} block comparisons");
}

/// Eric Young's vectors.txt as distributed by Schneier (https://www.schneier.com/code/vectors.txt): ecb test data
const SCHNEIER_ECB: &[(&str, &str, &str)] = &[
    ("0000000000000000", "0000000000000000", "4EF997456198DD78"),
    ("FFFFFFFFFFFFFFFF", "FFFFFFFFFFFFFFFF", "51866FD5B85ECB8A"),
    ("3000000000000000", "1000000000000001", "7D856F9A613063F2"),
    ("1111111111111111", "1111111111111111", "2466DD878B963C9D"),
    ("0123456789ABCDEF", "1111111111111111", "61F9C3802281B096"),
    ("1111111111111111", "0123456789ABCDEF", "7D0CC630AFDA1EC7"),
    ("FEDCBA9876543210", "0123456789ABCDEF", "0ACEAB0FC6A0A28D"),
    ("7CA110454A1A6E57", "01A1D6D039776742", "59C68245EB05282B"),
    ("0131D9619DC1376E", "5CD54CA83DEF57DA", "B1B8CC0B250F09A0"),
    ("07A1133E4A0B2686", "0248D43806F67172", "1730E5778BEA1DA4"),
    ("3849674C2602319E", "51454B582DDF440A", "A25E7856CF2651EB"),
    ("04B915BA43FEB5B6", "42FD443059577FA2", "353882B109CE8F1A"),
    ("0113B970FD34F2CE", "059B5E0851CF143A", "48F4D0884C379918"),
    ("0170F175468FB5E6", "0756D8E0774761D2", "432193B78951FC98"),
    ("43297FAD38E373FE", "762514B829BF486A", "13F04154D69D1AE5"),
    ("07A7137045DA2A16", "3BDD119049372802", "2EEDDA93FFD39C79"),
    ("04689104C2FD3B2F", "26955F6835AF609A", "D887E0393C2DA6E3"),
    ("37D06BB516CB7546", "164D5E404F275232", "5F99D04F5B163969"),
    ("1F08260D1AC2465E", "6B056E18759F5CCA", "4A057A3B24D3977B"),
    ("584023641ABA6176", "004BD6EF09176062", "452031C1E4FADA8E"),
    ("025816164629B007", "480D39006EE762F2", "7555AE39F59B87BD"),
    ("49793EBC79B3258F", "437540C8698F3CFA", "53C55F9CB49FC019"),
    ("4FB05E1515AB73A7", "072D43A077075292", "7A8E7BFA937E89A3"),
    ("49E95D6D4CA229BF", "02FE55778117F12A", "CF9C5D7A4986ADB5"),
    ("018310DC409B26D6", "1D9D5C5018F728C2", "D1ABB290658BC778"),
    ("1C587F1C13924FEF", "305532286D6F295A", "55CB3774D13EF201"),
    ("0101010101010101", "0123456789ABCDEF", "FA34EC4847B268B2"),
    ("1F1F1F1F0E0E0E0E", "0123456789ABCDEF", "A790795108EA3CAE"),
    ("E0FEE0FEF1FEF1FE", "0123456789ABCDEF", "C39E072D9FAC631D"),
    ("0000000000000000", "FFFFFFFFFFFFFFFF", "014933E0CDAFF6E4"),
    ("FFFFFFFFFFFFFFFF", "0000000000000000", "F21E9A77B71C49BC"),
    ("0123456789ABCDEF", "0000000000000000", "245946885754369A"),
    ("FEDCBA9876543210", "FFFFFFFFFFFFFFFF", "6B5C5A9C5D9E0A5A"),
];

/// Same file, "set_key test data": key bytes F0E1D2C3B4A5968778695A4B3C2D1E0F0011223344556677 truncated to
/// 1..=24 bytes, data FEDCBA9876543210
const SCHNEIER_SETKEY: &[&str] = &[
    "F9AD597C49DB005E", "E91D21C1D961A6D6", "E9C2B70A1BC65CF3", "BE1E639408640F05", "B39E44481BDB1E6E", "9457AA83B1928C0D",
    "8BB77032F960629D", "E87A244E2CC85E82", "15750E7A4F4EC577", "122BA70B3AB64AE0", "3A833C9AFFC537F6", "9409DA87A90F6BF2",
    "884F80625060B8B4", "1F85031C19E11968", "79D9373A714CA34F", "93142887EE3BE15C", "03429E838CE2D14B", "A4299E27469FF67B",
    "AFD5AED1C1BC96A8", "10851C0E3858DA9F", "E6F51ED79B9DB21F", "64A6E14AFD36B46F", "80C7D7D45A5479AD", "05044B62FA52D080",
];

#[test]
fn schneier_vectors() {
    for (k, p, c) in SCHNEIER_ECB {
        let (k, p, c) = (hx(k), hx(p), hx(c));
        let bf = Blowfish::new(&k, false);
        assert_eq!(model_ecb(&bf, true, &p), c);
        assert_eq!(model_ecb(&bf, false, &c), p);
    }
    let key = hx("F0E1D2C3B4A5968778695A4B3C2D1E0F0011223344556677");
    let data = hx("FEDCBA9876543210");
    for (i, c) in SCHNEIER_SETKEY.iter().enumerate() {
        let bf = Blowfish::new(&key[..i + 1], false);
        assert_eq!(model_ecb(&bf, true, &data), hx(c), "set_key vector, key length {}", i + 1);
        assert_eq!(model_ecb(&bf, false, &hx(c)), data);
    }
    println!("blowfish/schneier: {} ecb + {} set_key vectors", SCHNEIER_ECB.len(), SCHNEIER_SETKEY.len());
}

#[test]
fn state_api_consistency() {
    // (i) expand_key(k) on init() gives the state under which encrypt_words agrees with OpenSSL (and with Blowfish::new)
    // (ii) salted_expand_key(&[0;16], k) == expand_key(k); zero salts of other lengths too
    let blocks: Vec<u8> = input_set(8, 16, 0xB10F).concat();
    let mut rng = SplitMix64(0xEC5);
    for len in [1usize, 4, 5, 8, 16, 17, 23, 56, 57, 71, 72] {
        let k = rng.bytes(len);
        let mut st = State::init();
        st.expand_key(&k);
        let mut st2 = State::init();
        st2.salted_expand_key(&[0u8; 16], &k);
        assert!(st == st2);
        for zl in [1usize, 3, 8, 24] {
            let mut st3 = State::init();
            st3.salted_expand_key(&vec![0u8; zl], &k);
            assert!(st == st3);
        }
        let bf = Blowfish::new(&k, false);
        let lib = if (4..=56).contains(&len) { openssl_ecb("BF-ECB", &k, None, true, &blocks) } else { None };
        for (i, b) in blocks.chunks(8).enumerate() {
            let lr = [u32::from_be_bytes([b[0], b[1], b[2], b[3]]), u32::from_be_bytes([b[4], b[5], b[6], b[7]])];
            let e = st.encrypt_words(lr);
            assert_eq!(st.decrypt_words(e), lr);
            let mut out = Vec::new();
            out.extend_from_slice(&e[0].to_be_bytes());
            out.extend_from_slice(&e[1].to_be_bytes());
            let mut m = b.to_vec();
            bf.encrypt(&mut m);
            assert_eq!(out, m);
            if let Some(lib) = &lib {
                assert_eq!(&out[..], &lib[8 * i..8 * i + 8]);
            }
        }
    }
    // a non-zero salt must change the state, and the salt stream must keep cycling across the P/S boundary:
    // with a 16-byte salt whose halves differ, swapping the halves must change the result
    let k = b"key material";
    let mut a = State::init();
    a.salted_expand_key(&hx("000102030405060708090a0b0c0d0e0f"), k);
    let mut b = State::init();
    b.salted_expand_key(&hx("08090a0b0c0d0e0f0001020304050607"), k);
    let mut z = State::init();
    z.expand_key(k);
    assert!(a != b && a != z && b != z);
}

// ------------------------------------------------------------------------------------------------ bcrypt
const BCRYPT_B64: &[u8; 64] = b"./ABCDEFGHIJKLMNOPQRSTUVWXYZabcdefghijklmnopqrstuvwxyz0123456789";

fn bcrypt_b64_decode(s: &str, nbytes: usize) -> Vec<u8> {
    let mut bits: u32 = 0;
    let mut nbits = 0;
    let mut out = Vec::new();
    for ch in s.bytes() {
        let v = BCRYPT_B64.iter().position(|&c| c == ch).expect("bcrypt base64 char") as u32;
        bits = (bits << 6) | v;
        nbits += 6;
        if nbits >= 8 {
            nbits -= 8;
            out.push((bits >> nbits) as u8);
            bits &= (1 << nbits) - 1;
        }
    }
    out.truncate(nbytes);
    assert_eq!(out.len(), nbytes);
    out
}

fn bcrypt_b64_encode(data: &[u8]) -> String {
    let mut out = String::new();
    let mut bits: u32 = 0;
    let mut nbits = 0;
    for &b in data {
        bits = (bits << 8) | b as u32;
        nbits += 8;
        while nbits >= 6 {
            nbits -= 6;
            out.push(BCRYPT_B64[((bits >> nbits) & 63) as usize] as char);
        }
        bits &= (1 << nbits) - 1;
    }
    if nbits > 0 {
        out.push(BCRYPT_B64[((bits << (6 - nbits)) & 63) as usize] as char);
    }
    out
}

/// bcrypt(cost, salt, key) of Provos & Mazieres on top of the reference `State`; returns the 24 raw bytes.
fn bcrypt_raw(cost: u32, salt: &[u8; 16], key: &[u8]) -> [u8; 24] {
    // EksBlowfishSetup
    let mut st = State::init();
    st.salted_expand_key(salt, key);
    for _ in 0..(1u64 << cost) {
        st.expand_key(key);
        st.expand_key(salt);
    }
    // ctext = "OrpheanBeholderScryDoubt", encrypted 64 times in ECB mode
    let text = b"OrpheanBeholderScryDoubt";
    let mut w = [0u32; 6];
    for i in 0..6 {
        w[i] = u32::from_be_bytes([text[4 * i], text[4 * i + 1], text[4 * i + 2], text[4 * i + 3]]);
    }
    for _ in 0..64 {
        for b in 0..3 {
            let e = st.encrypt_words([w[2 * b], w[2 * b + 1]]);
            w[2 * b] = e[0];
            w[2 * b + 1] = e[1];
        }
    }
    let mut out = [0u8; 24];
    for i in 0..6 {
        out[4 * i..4 * i + 4].copy_from_slice(&w[i].to_be_bytes());
    }
    out
}

/// Full "$2x$cc$<22 salt chars><31 hash chars>" string for an (ASCII) password.
fn bcrypt_string(prefix: &str, cost: u32, salt_b64: &str, password: &[u8]) -> String {
    let salt: [u8; 16] = bcrypt_b64_decode(salt_b64, 16).try_into().unwrap();
    // key = password bytes + NUL terminator, at most 72 bytes
    let mut key = password.to_vec();
    key.push(0);
    key.truncate(72);
    let raw = bcrypt_raw(cost, &salt, &key);
    format!("${}${:02}${}{}", prefix, cost, salt_b64, bcrypt_b64_encode(&raw[..23]))
}

#[test]
fn bcrypt_vectors() {
    let pw72: Vec<u8> = (0..72u32).map(|i| (33 + (i * 7) % 90) as u8).collect();
    // (password, expected).  The first four are the classic jBCrypt / OpenBSD-derived vectors; all ten were
    // (re)produced on this machine with libxcrypt through python3 `crypt.crypt(password, "$2b$cc$salt")`.
    let cases: Vec<(Vec<u8>, &str)> = vec![
        (b"".to_vec(), "$2a$06$DCq7YPn5Rq63x1Lad4cll.TV4S6ytwfsfvkgY8jIucDrjc8deX1s."),
        (b"a".to_vec(), "$2a$06$m0CrhHm10qJ3lXRY.5zDGO3rS2KdeeWLuGmsfGlMfOxih58VYVfxe"),
        (b"".to_vec(), "$2a$08$HqWuK6/Ng6sg9gQzbLrgb.Tl.ZHfXLhvt/SgVyWhQqgqcZ7ZuUtye"),
        (b"abc".to_vec(), "$2a$06$If6bvum7DFjUnE9p2uDeDu0YHzrHM6tf.iqN8.yx.jNN1ILEf7h0i"),
        (b"abcdefghijklmnopqrstuvwxyz".to_vec(), "$2b$05$.rCVZVOThsIa97pEDOxvGukVKoKHkUySeFEFEpwnxQr6Q3mMrdl92"),
        (b"~!@#$%^&*()      ~!@#$%^&*()PNBFRD".to_vec(), "$2b$06$fPIsBO8qRqkjj273rfaOI.HtSV9jLDpTbZn782DC6/t7qT67P6FfO"),
        (pw72.clone(), "$2b$04$abcdefghijklmnopqrstuuQ82V0iPuKGaT0DgkNzQpAN11jEP3y6."),
        (pw72[..71].to_vec(), "$2b$05$XXXXXXXXXXXXXXXXXXXXXOxdI15lDZvv4AI.HkJ9Aq5aG0vqQuROa"),
        (pw72[..55].to_vec(), "$2a$04$......................vTeEufH40DZ4EjmpDchUy/YTBiAqtqK"),
        (b"0123456789".to_vec(), "$2b$04$zzzzzzzzzzzzzzzzzzzzzeNHu0yGuc9iHS0vy2iyO4ICdq.qfz/km"),
    ];
    for (pw, expected) in &cases {
        let prefix = &expected[1..3];
        let cost: u32 = expected[4..6].parse().unwrap();
        let salt = &expected[7..29];
        assert_eq!(&bcrypt_string(prefix, cost, salt, pw), expected, "bcrypt password {:?}", String::from_utf8_lossy(pw));
    }
    println!("blowfish/bcrypt: {} vectors", cases.len());
}

#[test]
fn speed() {
    let bf = Blowfish::new(b"0123456789abcdef", false);
    let mut b = [0u8; 8];
    let n = 200_000;
    let t = std::time::Instant::now();
    for _ in 0..n {
        bf.encrypt(&mut b);
    }
    let e = t.elapsed().as_nanos() as f64 / n as f64;
    let t = std::time::Instant::now();
    for _ in 0..n {
        bf.decrypt(&mut b);
    }
    let d = t.elapsed().as_nanos() as f64 / n as f64;
    let t = std::time::Instant::now();
    let mut acc = 0u8;
    for i in 0..200u32 {
        let c = Blowfish::new(&i.to_le_bytes(), false);
        c.encrypt(&mut b);
        acc ^= b[0];
    }
    let s = t.elapsed().as_nanos() as f64 / 200.0;
    println!("blowfish speed: encrypt {e:.0} ns/block, decrypt {d:.0} ns/block, key setup {s:.0} ns ({acc})");
}
