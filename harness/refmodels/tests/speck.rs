//! Validation of the Speck reference model.
//! No third-party implementation of Speck exists on this machine, so the anchors are
//! (b) the ten vectors (one per variant) of Appendix C of "The SIMON and SPECK Families of Lightweight
//!     Block Ciphers", in the byte encoding of /repo/speck/tests/mod.rs (= the paper's hex strings read
//!     left to right: big-endian words, block x||y, key l_{m-2}||..||l_0||k_0);
//! (c) decrypt(encrypt(x)) == x on the deterministic input set for every variant.
use refmodels::RefCipher;
use refmodels::speck::Speck;
use std::time::Instant;

fn hx(s: &str) -> Vec<u8> {
    let s: String = s.chars().filter(|c| !c.is_whitespace()).collect();
    (0..s.len() / 2).map(|i| u8::from_str_radix(&s[2 * i..2 * i + 2], 16).unwrap()).collect()
}

struct SplitMix64(u64);
impl SplitMix64 {
    fn next(&mut self) -> u64 {
        self.0 = self.0.wrapping_add(0x9E3779B97F4A7C15);
        let mut z = self.0;
        z = (z ^ (z >> 30)).wrapping_mul(0xBF58476D1CE4E5B9);
        z = (z ^ (z >> 27)).wrapping_mul(0x94D049BB133111EB);
        z ^ (z >> 31)
    }
    fn bytes(&mut self, n: usize) -> Vec<u8> {
        let mut v = Vec::with_capacity(n + 8);
        while v.len() < n {
            v.extend_from_slice(&self.next().to_le_bytes());
        }
        v.truncate(n);
        v
    }
}

/// all-zero, all-ones, walking one, walking zero, byte ramp, `nrand` pseudo-random values
fn input_set(len: usize, nrand: usize, seed: u64) -> Vec<Vec<u8>> {
    let mut v = vec![vec![0u8; len], vec![0xffu8; len]];
    for bit in 0..8 * len {
        let mut a = vec![0u8; len];
        a[bit / 8] |= 0x80 >> (bit % 8);
        let b: Vec<u8> = a.iter().map(|x| !x).collect();
        v.push(a);
        v.push(b);
    }
    v.push((0..len).map(|i| i as u8).collect());
    let mut rng = SplitMix64(seed);
    for _ in 0..nrand {
        v.push(rng.bytes(len));
    }
    v
}


const VARIANTS: [(u32, u32); 10] =
    [(32, 64), (48, 72), (48, 96), (64, 96), (64, 128), (96, 96), (96, 144), (128, 128), (128, 192), (128, 256)];

#[test]
fn paper_appendix_c_vectors() {
    let v: [(u32, u32, &str, &str, &str); 10] = [
        (32, 64, "1918 1110 0908 0100", "6574 694c", "a868 42f2"),
        (48, 72, "121110 0a0908 020100", "20796c 6c6172", "c049a5 385adc"),
        (48, 96, "1a1918 121110 0a0908 020100", "6d2073 696874", "735e10 b6445d"),
        (64, 96, "13121110 0b0a0908 03020100", "74614620 736e6165", "9f7952ec 4175946c"),
        (64, 128, "1b1a1918 13121110 0b0a0908 03020100", "3b726574 7475432d", "8c6fa548 454e028b"),
        (96, 96, "0d0c0b0a0908 050403020100", "65776f68202c 656761737520", "9e4d09ab7178 62bdde8f79aa"),
        (96, 144, "151413121110 0d0c0b0a0908 050403020100", "656d6974206e 69202c726576", "2bf31072228a 7ae440252ee6"),
        (128, 128, "0f0e0d0c0b0a0908 0706050403020100", "6c61766975716520 7469206564616d20", "a65d985179783265 7860fedf5c570d18"),
        (
            128,
            192,
            "1716151413121110 0f0e0d0c0b0a0908 0706050403020100",
            "7261482066656968 43206f7420746e65",
            "1be4cf3a13135566 f9bc185de03c1886",
        ),
        (
            128,
            256,
            "1f1e1d1c1b1a1918 1716151413121110 0f0e0d0c0b0a0908 0706050403020100",
            "65736f6874206e49 202e72656e6f6f70",
            "4109010405c0f53e 4eeeb48d9c188f43",
        ),
    ];
    for (bb, kb, k, p, c) in v {
        let s = Speck::new(bb, kb, &hx(k));
        assert_eq!(s.block_size(), (bb / 8) as usize);
        let mut b = hx(p);
        s.encrypt(&mut b);
        assert_eq!(b, hx(c), "Speck{bb}/{kb} encrypt");
        s.decrypt(&mut b);
        assert_eq!(b, hx(p), "Speck{bb}/{kb} decrypt");
    }
}

#[test]
fn roundtrip_input_set() {
    let mut n = 0usize;
    for (bb, kb) in VARIANTS {
        let keys = input_set((kb / 8) as usize, 64, 0x7370_6b00 + ((bb as u64) << 20) + kb as u64);
        let blocks = input_set((bb / 8) as usize, 64, 0x7370_6200 + bb as u64);
        for (ki, k) in keys.iter().enumerate() {
            let s = Speck::new(bb, kb, k);
            let step = if ki < 4 || ki % 16 == 0 { 1 } else { 7 };
            for p in blocks.iter().step_by(step) {
                let mut b = p.clone();
                s.encrypt(&mut b);
                s.decrypt(&mut b);
                assert_eq!(&b, p, "Speck{bb}/{kb}");
                s.decrypt(&mut b);
                s.encrypt(&mut b);
                assert_eq!(&b, p, "Speck{bb}/{kb}");
                n += 1;
            }
        }
    }
    println!("speck roundtrip cases: {n}");
}

#[test]
fn unsupported_variants_panic() {
    for (bb, kb, kl) in [(32u32, 128u32, 16usize), (64, 64, 8), (128, 96, 12), (40, 80, 10), (128, 128, 15), (128, 256, 16)] {
        let r = std::panic::catch_unwind(|| Speck::new(bb, kb, &vec![0u8; kl]).block_size());
        assert!(r.is_err(), "Speck{bb}/{kb} with {kl}-byte key should panic");
    }
}

#[test]
fn speed() {
    for (bb, kb) in VARIANTS {
        let key: Vec<u8> = (0..kb / 8).map(|i| i as u8).collect();
        let c = Speck::new(bb, kb, &key);
        let mut blk = vec![0u8; c.block_size()];
        let n = 200_000;
        let t = Instant::now();
        for _ in 0..n {
            c.encrypt(&mut blk);
        }
        let e = t.elapsed().as_nanos() as f64 / n as f64;
        let t = Instant::now();
        for _ in 0..n {
            c.decrypt(&mut blk);
        }
        let d = t.elapsed().as_nanos() as f64 / n as f64;
        assert!(blk.iter().all(|&x| x == 0));
        let t = Instant::now();
        let mut acc = 0usize;
        for _ in 0..20_000 {
            acc += Speck::new(bb, kb, &key).block_size();
        }
        let s = t.elapsed().as_nanos() as f64 / 20_000.0;
        println!("speck{bb}/{kb}: encrypt {e:.0} ns/block, decrypt {d:.0} ns/block, new {s:.0} ns ({acc})");
    }
}
