//! Validation of the CAST-256 reference model.  No library on this machine implements CAST-256:
//! anchors are the three RFC 2612 Appendix A vectors, structural checks, and the fact that the
//! S-boxes / round functions are shared with the OpenSSL-validated CAST-128 model.
use refmodels::RefCipher;
use refmodels::cast6::Cast6;

// ---- deterministic input alphabet (duplicated in each tests/<module>.rs on purpose: self-contained)
#[allow(dead_code)]
mod inputs {
    pub struct SplitMix64(pub u64);
    impl SplitMix64 {
        pub fn next(&mut self) -> u64 {
            self.0 = self.0.wrapping_add(0x9E3779B97F4A7C15);
            let mut z = self.0;
            z = (z ^ (z >> 30)).wrapping_mul(0xBF58476D1CE4E5B9);
            z = (z ^ (z >> 27)).wrapping_mul(0x94D049BB133111EB);
            z ^ (z >> 31)
        }
        pub fn bytes(&mut self, n: usize) -> Vec<u8> {
            let mut v = Vec::with_capacity(n + 8);
            while v.len() < n {
                v.extend_from_slice(&self.next().to_le_bytes());
            }
            v.truncate(n);
            v
        }
    }
    /// all-zero, all-ones, byte ramp, `nrand` pseudo-random values
    pub fn core(n: usize, nrand: usize, seed: u64) -> Vec<Vec<u8>> {
        let mut v = vec![vec![0u8; n], vec![0xffu8; n], (0..n).map(|i| i as u8).collect::<Vec<u8>>()];
        let mut rng = SplitMix64(seed ^ (n as u64) << 32);
        for _ in 0..nrand {
            v.push(rng.bytes(n));
        }
        v
    }
    /// every single-bit value (walking one) and every single-zero-bit value
    pub fn walking(n: usize) -> Vec<Vec<u8>> {
        let mut v = Vec::new();
        for bit in 0..8 * n {
            let mut a = vec![0u8; n];
            a[bit / 8] |= 0x80 >> (bit % 8);
            let b: Vec<u8> = a.iter().map(|x| !x).collect();
            v.push(a);
            v.push(b);
        }
        v
    }
    /// full alphabet: core(64 random) + walking
    pub fn full(n: usize, seed: u64) -> Vec<Vec<u8>> {
        let mut v = core(n, 64, seed);
        v.extend(walking(n));
        v
    }
    pub fn concat(v: &[Vec<u8>]) -> Vec<u8> {
        v.iter().flat_map(|b| b.iter().copied()).collect()
    }
    pub fn hx(s: &str) -> Vec<u8> {
        let s: String = s.chars().filter(|c| !c.is_whitespace()).collect();
        (0..s.len() / 2).map(|i| u8::from_str_radix(&s[2 * i..2 * i + 2], 16).unwrap()).collect()
    }
}
use inputs::*;

/// Apply the model block by block over a concatenation of blocks.
#[allow(dead_code)]
fn model_ecb(c: &dyn RefCipher, encrypt: bool, data: &[u8]) -> Vec<u8> {
    let bs = c.block_size();
    assert_eq!(data.len() % bs, 0);
    let mut out = data.to_vec();
    for b in out.chunks_mut(bs) {
        if encrypt { c.encrypt(b) } else { c.decrypt(b) }
    }
    out
}

/// Key/block pairing used against the libraries: every key of the full key alphabet with a small
/// block set, and the core keys (zero, ones, ramp, 64 random) with the full block alphabet.
/// Returns (key, concatenated blocks) jobs.
#[allow(dead_code)]
fn jobs(klen: usize, bs: usize) -> Vec<(Vec<u8>, Vec<u8>)> {
    let small = concat(&core(bs, 8, 0xB10C));
    let fullb = concat(&full(bs, 0xB10C));
    let mut j = Vec::new();
    for k in core(klen, 64, 0x5EED) {
        j.push((k, fullb.clone()));
    }
    for k in walking(klen) {
        j.push((k, small.clone()));
    }
    j
}

/// Decoder for RustCrypto's `blobby` container (git-flavoured VLQ lengths, de-duplication table).
#[allow(dead_code)]
fn blobby(d: &[u8]) -> Vec<Vec<u8>> {
    fn vlq(d: &[u8], p: &mut usize) -> usize {
        let mut b = d[*p];
        *p += 1;
        let mut v = (b & 0x7f) as usize;
        while b & 0x80 != 0 {
            b = d[*p];
            *p += 1;
            v = ((v + 1) << 7) + (b & 0x7f) as usize;
        }
        v
    }
    let mut p = 0usize;
    let n = vlq(d, &mut p);
    let mut dedup = Vec::new();
    for _ in 0..n {
        let m = vlq(d, &mut p);
        dedup.push(d[p..p + m].to_vec());
        p += m;
    }
    let mut out = Vec::new();
    while p < d.len() {
        let n = vlq(d, &mut p);
        if n & 1 == 1 {
            out.push(dedup[n >> 1].clone());
        } else {
            out.push(d[p..p + (n >> 1)].to_vec());
            p += n >> 1;
        }
    }
    out
}

#[test]
fn cast6_rfc2612_appendix_a() {
    let pt = vec![0u8; 16];
    for (k, c) in [
        ("2342bb9efa38542c0af75647f29f615d", "c842a08972b43d20836c91d1b7530f6b"),
        ("2342bb9efa38542cbed0ac83940ac298bac77a7717942863", "1b386c0210dcadcbdd0e41aa08a7a7e8"),
        ("2342bb9efa38542cbed0ac83940ac2988d7c47ce264908461cc1b5137ae6b604", "4f6a2038286897b9c9870136553317fa"),
    ] {
        let m = Cast6::new(&hx(k));
        let mut b = pt.clone();
        m.encrypt(&mut b);
        assert_eq!(b, hx(c), "key {k}");
        m.decrypt(&mut b);
        assert_eq!(b, pt);
    }
}

#[test]
fn cast6_sboxes_are_cast5_sboxes() {
    let s = refmodels::cast6::sboxes();
    let c5: [&[u32; 256]; 4] = [&refmodels::cast5::S1, &refmodels::cast5::S2, &refmodels::cast5::S3, &refmodels::cast5::S4];
    for i in 0..4 {
        let a: Vec<u8> = s[i].iter().flat_map(|w| w.to_be_bytes()).collect();
        let b: Vec<u8> = c5[i].iter().flat_map(|w| w.to_be_bytes()).collect();
        assert_eq!(a, b, "S{}", i + 1);
    }
    // RFC 2144 Appendix A first entries as a sanity anchor
    assert_eq!(refmodels::cast5::S1[0], 0x30fb40d4);
    assert_eq!(refmodels::cast5::S4[0], 0x9db30420);
}

#[test]
fn cast6_short_key_is_zero_padded() {
    let blocks = concat(&core(16, 8, 0xB10C));
    for klen in [16usize, 20, 24, 28] {
        for key in full(klen, 0x5EED) {
            let mut padded = key.clone();
            padded.resize(32, 0);
            let a = Cast6::new(&key);
            let b = Cast6::new(&padded);
            assert_eq!(model_ecb(&a, true, &blocks), model_ecb(&b, true, &blocks), "klen {klen}");
            assert_eq!(model_ecb(&a, false, &blocks), model_ecb(&b, false, &blocks), "klen {klen}");
        }
    }
}

#[test]
fn cast6_roundtrip() {
    let mut cases = 0usize;
    for klen in [16usize, 20, 24, 28, 32] {
        for (key, data) in jobs(klen, 16) {
            let m = Cast6::new(&key);
            let ct = model_ecb(&m, true, &data);
            assert_ne!(ct, data);
            assert_eq!(model_ecb(&m, false, &ct), data, "klen {klen}");
            let pt = model_ecb(&m, false, &data);
            assert_eq!(model_ecb(&m, true, &pt), data, "klen {klen}");
            cases += 2 * data.len() / 16;
        }
    }
    println!("cast6 round trip: {cases} block operations");
}

/// Every key bit and every plaintext bit influences the ciphertext (guards against a schedule
/// that drops key words, which the three RFC vectors alone would not necessarily expose).
#[test]
fn cast6_every_key_bit_matters() {
    let base = hx("2342bb9efa38542cbed0ac83940ac2988d7c47ce264908461cc1b5137ae6b604");
    let m0 = Cast6::new(&base);
    let mut c0 = [0u8; 16];
    m0.encrypt(&mut c0);
    for bit in 0..256 {
        let mut k = base.clone();
        k[bit / 8] ^= 0x80 >> (bit % 8);
        let mut c = [0u8; 16];
        Cast6::new(&k).encrypt(&mut c);
        let diff: u32 = c.iter().zip(c0.iter()).map(|(a, b)| (a ^ b).count_ones()).sum();
        assert!(diff >= 30 && diff <= 98, "key bit {bit}: hamming distance {diff}");
    }
    for bit in 0..128 {
        let mut p = [0u8; 16];
        p[bit / 8] ^= 0x80 >> (bit % 8);
        m0.encrypt(&mut p);
        let diff: u32 = p.iter().zip(c0.iter()).map(|(a, b)| (a ^ b).count_ones()).sum();
        assert!(diff >= 30 && diff <= 98, "pt bit {bit}: hamming distance {diff}");
    }
}

#[test]
fn cast6_unsupported_key_lengths_panic() {
    for n in [0usize, 8, 15, 17, 18, 22, 31, 33, 64] {
        assert!(std::panic::catch_unwind(|| Cast6::new(&vec![0u8; n])).is_err(), "len {n}");
    }
}

/// Timing report (informative; run with --release --nocapture).  Minimum over 5 repetitions.
#[test]
fn cast6_speed() {
    let m = Cast6::new(&hx("2342bb9efa38542c0af75647f29f615d"));
    let mut b = [0u8; 16];
    let n = 20_000;
    let (mut e, mut d, mut s) = (f64::MAX, f64::MAX, f64::MAX);
    let mut acc = 0u8;
    for _ in 0..5 {
        let t = std::time::Instant::now();
        for _ in 0..n {
            m.encrypt(&mut b);
        }
        e = e.min(t.elapsed().as_nanos() as f64 / n as f64);
        let t = std::time::Instant::now();
        for _ in 0..n {
            m.decrypt(&mut b);
        }
        d = d.min(t.elapsed().as_nanos() as f64 / n as f64);
        let t = std::time::Instant::now();
        for i in 0..2_000u32 {
            let mut k = [0u8; 32];
            k[..4].copy_from_slice(&i.to_le_bytes());
            k[4] = b[0];
            acc ^= std::hint::black_box(Cast6::new(&k)).block_size() as u8;
        }
        s = s.min(t.elapsed().as_nanos() as f64 / 2_000.0);
    }
    println!("cast6: encrypt {e:.0} ns/block, decrypt {d:.0} ns/block, key set-up {s:.0} ns ({acc} {b:?})");
}
