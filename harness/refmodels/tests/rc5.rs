//! Validation of the RC5-w/r/b reference model.
//! No third-party implementation of RC5 is available on this machine (OpenSSL is built without RC5:
//! `openssl_available` below records that), so the anchors are
//! (b) published vectors:
//!     - the six vectors of draft-krovetz-rc6-rc5-vectors-00 (one per word size 8/16/32/64/128, two for 32),
//!     - the five chained examples of Rivest's paper for RC5-32/12/16,
//!     - RFC 2040 section 9 RC5-CBC single-block vectors (C = E(P xor IV)), which cover r = 0, b = 1
//!       and other odd key lengths for RC5-32;
//! (c) decrypt(encrypt(x)) == x on the deterministic input set for all word sizes.
use refmodels::RefCipher;
use refmodels::rc5::Rc5;
use std::time::Instant;

fn hx(s: &str) -> Vec<u8> {
    let s: String = s.chars().filter(|c| !c.is_whitespace()).collect();
    (0..s.len() / 2).map(|i| u8::from_str_radix(&s[2 * i..2 * i + 2], 16).unwrap()).collect()
}

struct SplitMix64(u64);
impl SplitMix64 {
    fn next(&mut self) -> u64 {
        self.0 = self.0.wrapping_add(0x9E3779B97F4A7C15);
        let mut z = self.0;
        z = (z ^ (z >> 30)).wrapping_mul(0xBF58476D1CE4E5B9);
        z = (z ^ (z >> 27)).wrapping_mul(0x94D049BB133111EB);
        z ^ (z >> 31)
    }
    fn bytes(&mut self, n: usize) -> Vec<u8> {
        let mut v = Vec::with_capacity(n + 8);
        while v.len() < n {
            v.extend_from_slice(&self.next().to_le_bytes());
        }
        v.truncate(n);
        v
    }
}

/// all-zero, all-ones, walking one, walking zero, byte ramp, `nrand` pseudo-random values
fn input_set(len: usize, nrand: usize, seed: u64) -> Vec<Vec<u8>> {
    if len == 0 {
        return vec![vec![]];
    }
    let mut v = vec![vec![0u8; len], vec![0xffu8; len]];
    for bit in 0..8 * len {
        let mut a = vec![0u8; len];
        a[bit / 8] |= 0x80 >> (bit % 8);
        let b: Vec<u8> = a.iter().map(|x| !x).collect();
        v.push(a);
        v.push(b);
    }
    v.push((0..len).map(|i| i as u8).collect());
    let mut rng = SplitMix64(seed);
    for _ in 0..nrand {
        v.push(rng.bytes(len));
    }
    v
}

fn check(w: u32, r: u32, key: &str, pt: &str, ct: &str) {
    let c = Rc5::new(w, r, &hx(key));
    assert_eq!(c.block_size(), (2 * w / 8) as usize);
    let mut b = hx(pt);
    c.encrypt(&mut b);
    assert_eq!(b, hx(ct), "RC5-{w}/{r} key {key} encrypt");
    c.decrypt(&mut b);
    assert_eq!(b, hx(pt), "RC5-{w}/{r} key {key} decrypt");
}

#[cfg(feature = "ffi")]
#[test]
fn openssl_available() {
    // Recorded fact, not an anchor: the OpenSSL on this image has no RC5.
    let r = refmodels::ffi::openssl_ecb("RC5-ECB", &[0u8; 16], None, true, &[0u8; 8]);
    println!("openssl RC5-ECB available: {}", r.is_some());
    if let Some(ct) = r {
        // default OpenSSL RC5 is RC5-32/12
        let c = Rc5::new(32, 12, &[0u8; 16]);
        let mut b = [0u8; 8];
        c.encrypt(&mut b);
        assert_eq!(&b[..], &ct[..]);
    }
}

#[test]
fn krovetz_draft_vectors() {
    // https://www.ietf.org/archive/id/draft-krovetz-rc6-rc5-vectors-00.txt
    check(8, 12, "00010203", "0001", "212A");
    check(16, 16, "0001020304050607", "00010203", "23A8D72E");
    check(32, 12, "000102030405060708090A0B0C0D0E0F", "0001020304050607", "C8D3B3C486700CFA");
    check(32, 16, "000102030405060708090A0B0C0D0E0F", "0001020304050607", "3E2E95357027D896");
    check(
        64,
        24,
        "000102030405060708090A0B0C0D0E0F1011121314151617",
        "000102030405060708090A0B0C0D0E0F",
        "A46772820EDBCE0235ABEA32AE7178DA",
    );
    check(
        128,
        28,
        "000102030405060708090A0B0C0D0E0F101112131415161718191A1B1C1D1E1F",
        "000102030405060708090A0B0C0D0E0F101112131415161718191A1B1C1D1E1F",
        "ECA5910921A4F4CFDD7AD7AD20A1FCBA068EC7A7CD752D68FE914B7FE180B440",
    );
}

#[test]
fn rivest_paper_examples() {
    // "The RC5 Encryption Algorithm", section "Examples" (RC5-32/12/16); the paper prints the words
    // A, B; here they are given as little-endian bytes.  Each plaintext is the previous ciphertext.
    check(32, 12, "00000000000000000000000000000000", "0000000000000000", "21A5DBEE154B8F6D");
    check(32, 12, "915F4619BE41B2516355A50110A9CE91", "21A5DBEE154B8F6D", "F7C013AC5B2B8952");
    check(32, 12, "783348E75AEB0F2FD7B169BB8DC16787", "F7C013AC5B2B8952", "2F42B3B70369FC92");
    check(32, 12, "DC49DB1375A5584F6485B413B5F12BAF", "2F42B3B70369FC92", "65C178B284D197CC");
    check(32, 12, "5269F149D41BA0152497574D7F153125", "65C178B284D197CC", "EB44E415DA319824");
}

#[test]
fn rfc2040_single_block_cbc_vectors() {
    // RFC 2040 section 9, RC5_CBC (no padding), one block: C = E_K(P xor IV).  (rounds, key, iv, p, c)
    let v: &[(u32, &str, &str, &str, &str)] = &[
        (0, "00", "0000000000000000", "0000000000000000", "7a7bba4d79111d1e"),
        (0, "00", "0000000000000000", "ffffffffffffffff", "797bba4d78111d1e"),
        (0, "00", "0000000000000001", "0000000000000000", "7a7bba4d79111d1f"),
        (0, "00", "0000000000000000", "0000000000000001", "7a7bba4d79111d1f"),
        (0, "00", "0102030405060708", "1020304050607080", "8b9ded91ce7794a6"),
        (1, "11", "0000000000000000", "0000000000000000", "2f759fe7ad86a378"),
        (2, "00", "0000000000000000", "0000000000000000", "dca2694bf40e0788"),
        (2, "00000000", "0000000000000000", "0000000000000000", "dca2694bf40e0788"),
        (8, "00", "0000000000000000", "0000000000000000", "dcfe098577eca5ff"),
        (8, "00", "0102030405060708", "1020304050607080", "9646fb77638f9ca8"),
        (12, "00", "0102030405060708", "1020304050607080", "b2b3209db6594da4"),
        (16, "00", "0102030405060708", "1020304050607080", "545f7f32a5fc3836"),
        (8, "01020304", "0000000000000000", "ffffffffffffffff", "8285e7c1b5bc7402"),
        (12, "01020304", "0000000000000000", "ffffffffffffffff", "fc586f92f7080934"),
        (16, "01020304", "0000000000000000", "ffffffffffffffff", "cf270ef9717ff7c4"),
        (12, "0102030405060708", "0000000000000000", "ffffffffffffffff", "e493f1c1bb4d6e8c"),
        (8, "0102030405060708", "0102030405060708", "1020304050607080", "5c4c041e0f217ac3"),
        (12, "0102030405060708", "0102030405060708", "1020304050607080", "921f12485373b4f7"),
        (16, "0102030405060708", "0102030405060708", "1020304050607080", "5ba0ca6bbe7f5fad"),
        (8, "01020304050607081020304050607080", "0102030405060708", "1020304050607080", "c533771cd0110e63"),
        (12, "01020304050607081020304050607080", "0102030405060708", "1020304050607080", "294ddb46b3278d60"),
        (16, "01020304050607081020304050607080", "0102030405060708", "1020304050607080", "dad6bda9dfe8f7e8"),
        (12, "0102030405", "0000000000000000", "ffffffffffffffff", "97e0787837ed317f"),
        (8, "0102030405", "0000000000000000", "ffffffffffffffff", "7875dbf6738c6478"),
    ];
    for &(r, key, iv, p, c) in v {
        let x: Vec<u8> = hx(p).iter().zip(hx(iv)).map(|(a, b)| a ^ b).collect();
        let cipher = Rc5::new(32, r, &hx(key));
        let mut b = x.clone();
        cipher.encrypt(&mut b);
        assert_eq!(b, hx(c), "RFC 2040: R={r} key={key} iv={iv} p={p}");
        cipher.decrypt(&mut b);
        assert_eq!(b, x);
    }
}

#[test]
fn empty_key_equals_single_zero_byte_key() {
    // b = 0 gives c = 1, L = [0]; a key made of 1..=u zero bytes gives the same L and c, hence the same cipher.
    for w in [8u32, 16, 32, 64, 128] {
        let u = (w / 8) as usize;
        let a = Rc5::new(w, 12, &[]);
        for len in 1..=u {
            let z = Rc5::new(w, 12, &vec![0u8; len]);
            let mut x: Vec<u8> = (0..2 * u).map(|i| (i * 17 + 3) as u8).collect();
            let mut y = x.clone();
            a.encrypt(&mut x);
            z.encrypt(&mut y);
            assert_eq!(x, y);
        }
    }
    // and the RFC 2040 pair above (key 00 vs 00000000, R = 2) is the published instance of this.
}

#[test]
fn roundtrip_input_set() {
    let mut n = 0usize;
    for w in [8u32, 16, 32, 64, 128] {
        let bs = (2 * w / 8) as usize;
        let blocks = input_set(bs, 64, 0x7263_3500 + w as u64);
        for r in [0u32, 1, 2, 8, 12, 16, 20, 24, 28, 255] {
            let klens: Vec<usize> = if r == 12 {
                (0..=40).chain([48, 64, 100, 128, 200, 254, 255]).collect()
            } else {
                vec![0, 1, 5, 16, 32, 255]
            };
            for b in klens {
                // full key set for small keys, otherwise reduced
                let keys = input_set(b, 64, 0x6b65_7900 + ((w as u64) << 16) + b as u64);
                let kstep = if b <= 16 && r == 12 { 1 } else { 13 };
                for (ki, k) in keys.iter().step_by(kstep).enumerate() {
                    let c = Rc5::new(w, r, k);
                    let bstep = if ki < 3 { 1 } else { 11 };
                    for p in blocks.iter().step_by(bstep) {
                        let mut x = p.clone();
                        c.encrypt(&mut x);
                        c.decrypt(&mut x);
                        assert_eq!(&x, p, "RC5-{w}/{r}/{b}");
                        c.decrypt(&mut x);
                        c.encrypt(&mut x);
                        assert_eq!(&x, p, "RC5-{w}/{r}/{b}");
                        n += 1;
                    }
                }
            }
        }
    }
    println!("rc5 roundtrip cases: {n}");
}

#[test]
#[should_panic]
fn bad_word_size() {
    let _ = Rc5::new(24, 12, &[0u8; 16]);
}

#[test]
#[should_panic]
fn bad_key_length() {
    let _ = Rc5::new(32, 12, &[0u8; 256]);
}

#[test]
#[should_panic]
fn bad_rounds() {
    let _ = Rc5::new(32, 256, &[0u8; 16]);
}

#[test]
fn speed() {
    for (w, r, b) in [(8u32, 12u32, 4usize), (16, 16, 8), (32, 12, 16), (32, 16, 16), (64, 24, 24), (128, 28, 32), (32, 255, 255)] {
        let key: Vec<u8> = (0..b).map(|i| i as u8).collect();
        let c = Rc5::new(w, r, &key);
        let mut blk = vec![0u8; c.block_size()];
        let n = 200_000;
        let t = Instant::now();
        for _ in 0..n {
            c.encrypt(&mut blk);
        }
        let e = t.elapsed().as_nanos() as f64 / n as f64;
        let t = Instant::now();
        for _ in 0..n {
            c.decrypt(&mut blk);
        }
        let d = t.elapsed().as_nanos() as f64 / n as f64;
        assert!(blk.iter().all(|&x| x == 0));
        let t = Instant::now();
        let mut acc = 0usize;
        for _ in 0..20_000 {
            acc += Rc5::new(w, r, &key).block_size();
        }
        let s = t.elapsed().as_nanos() as f64 / 20_000.0;
        println!("rc5-{w}/{r}/{b}: encrypt {e:.0} ns/block, decrypt {d:.0} ns/block, new {s:.0} ns ({acc})");
    }
}
