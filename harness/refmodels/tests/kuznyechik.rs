//! Validation of the Kuznyechik reference model (public API).
//!
//! Anchors: RFC 7801 / GOST R 34.12-2015 example (key, plaintext, ciphertext), the 65536-fold chain
//! self-test quoted in /repo/kuznyechik/tests/mod.rs (public API only), inverse property on the broad
//! input set.  The RFC 7801 values for S, R, L, C1..C8, K1..K10 and the per-round encryption trace are
//! checked by the unit tests inside src/kuznyechik.rs (they need the private transformations).
//! No third-party library on this image implements Kuznyechik (see `no_library_has_it`).
use refmodels::RefCipher;
use refmodels::kuznyechik::Kuznyechik;

fn hx(s: &str) -> Vec<u8> {
    let s: String = s.chars().filter(|c| !c.is_whitespace()).collect();
    (0..s.len() / 2).map(|i| u8::from_str_radix(&s[2 * i..2 * i + 2], 16).unwrap()).collect()
}

struct SplitMix64(u64);
impl SplitMix64 {
    fn next(&mut self) -> u64 {
        self.0 = self.0.wrapping_add(0x9E37_79B9_7F4A_7C15);
        let mut z = self.0;
        z = (z ^ (z >> 30)).wrapping_mul(0xBF58_476D_1CE4_E5B9);
        z = (z ^ (z >> 27)).wrapping_mul(0x94D0_49BB_1331_11EB);
        z ^ (z >> 31)
    }
    fn bytes(&mut self, n: usize) -> Vec<u8> {
        let mut v = Vec::with_capacity(n + 8);
        while v.len() < n {
            v.extend_from_slice(&self.next().to_le_bytes());
        }
        v.truncate(n);
        v
    }
}

/// all-zero, all-ones, every walking one, every walking zero, byte ramp, `nrand` pseudo-random values
fn input_set(len: usize, nrand: usize, seed: u64) -> Vec<Vec<u8>> {
    let mut v = vec![vec![0u8; len], vec![0xffu8; len]];
    for bit in 0..len * 8 {
        let mut a = vec![0u8; len];
        a[bit / 8] |= 0x80 >> (bit % 8);
        let b: Vec<u8> = a.iter().map(|x| !x).collect();
        v.push(a);
        v.push(b);
    }
    v.push((0..len).map(|i| i as u8).collect());
    let mut rng = SplitMix64(seed);
    for _ in 0..nrand {
        v.push(rng.bytes(len));
    }
    v
}

#[test]
fn rfc7801_example() {
    let key = hx("8899aabbccddeeff0011223344556677 fedcba98765432100123456789abcdef");
    let pt = hx("1122334455667700ffeeddccbbaa9988");
    let ct = hx("7f679d90bebc24305a468d42b9d4edcd");
    let c = Kuznyechik::new(&key);
    assert_eq!(c.block_size(), 16);
    let mut b = pt.clone();
    c.encrypt(&mut b);
    assert_eq!(b, ct);
    c.decrypt(&mut b);
    assert_eq!(b, pt);
}

#[test]
#[should_panic]
fn bad_key_length_panics() {
    let _ = Kuznyechik::new(&[0u8; 16]);
}

/// Chain self-test from /repo/kuznyechik/tests/mod.rs: key = [42; 32], 32 blocks with
/// block[i][0] = i, each encrypted 65536 times.  4 million block operations: about 5 s with
/// `--release`, minutes in a debug build, hence ignored there (run with `--release` or `--ignored`).
#[test]
#[cfg_attr(debug_assertions, ignore = "4M block operations; run with --release")]
fn chain_65536() {
    const N: usize = 1 << 16;
    let expected = [
        "11D15674379CD494AD88593829490D88", "CD6FADA332F2A0DA822104CC1504AC25",
        "42E01F93BA3A32B63BFD510422C3C63E", "98CF3C6A666C615E2E30AEA728AE5F99",
        "48D0A38142D67888B655AAB30F6A272C", "AAC6FB321587253415ADEC32781125B6",
        "73511E76309D5828E5B101E41A905F8B", "6411E97F18C3880877993C6D89320923",
        "8DFA86AAAB005B656B4DEC969C12D920", "62B1EC7E54B2F2AC4CD2A4CC35A667DF",
        "FB28F70F8F7E57AADBFE16914BFA182E", "DA549C44F5B67C35BB36B482B0D1395B",
        "B54A552F1EF9F42B9EA807573202F67D", "625A9CD84D0B1FFDD194ECD2967AE637",
        "8D289AFB65774FC553090FBBC4869990", "8CDE9FCF9BDBFCC7465481F4D305EFC3",
        "60A8836A71692E2975935E6AD357C22F", "90CB51859D95A03D472EAD2FE8001A73",
        "32CD8B2FBD2826646EC05400A9FD2026", "426B92425A2C36A1F78A6D548EE092A1",
        "7CE00E51E8BA451EE3117B3655736200", "A5A8D7ADA61A55E632DC18A40E11A536",
        "5506E07D1CDF1E9CBB976FE5C06F65B6", "968DBF83021137C4E28FBB5E045A9806",
        "2B5D4D11ED27B9F3AFDACEF63099FE8F", "960D76DBA4B3019AD7ABA1F2B62C195A",
        "D9CCB67B70E3EBEC9729234B57D389BE", "42E01DCBF710D24BB95D62BCD6D980B4",
        "4346E56B5CDE431ABD256812AF44B862", "5B20A5A85A484758470B102D4D8B4B5A",
        "547DBA406B244657CAC3052E4CC93616", "E350A265B6E2F43910C26F875CB8ADD6",
    ];
    let c = Kuznyechik::new(&[42u8; 32]);
    let mut init = [[0u8; 16]; 32];
    for (i, b) in init.iter_mut().enumerate() {
        b[0] = i as u8;
    }
    let mut blocks = init;
    for b in blocks.iter_mut() {
        for _ in 0..N {
            c.encrypt(b);
        }
    }
    for (b, e) in blocks.iter().zip(expected.iter()) {
        assert_eq!(b.to_vec(), hx(e));
    }
    for b in blocks.iter_mut() {
        for _ in 0..N {
            c.decrypt(b);
        }
    }
    assert_eq!(blocks, init);
}

/// decrypt(encrypt(x)) == x == encrypt(decrypt(x)) on the broad input set; also the cipher is not
/// the identity and distinct keys/blocks give distinct results on simple probes.
#[test]
fn inverse_on_input_set() {
    let keys = input_set(32, 64, 0x4b757a6e_79656368);
    let blocks = input_set(16, 64, 0x626c6f63_6b730001);
    assert_eq!(keys.len(), 2 + 512 + 1 + 64);
    assert_eq!(blocks.len(), 2 + 256 + 1 + 64);
    let mut n = 0usize;
    for k in &keys {
        let c = Kuznyechik::new(k);
        for b in &blocks {
            let mut t = b.clone();
            c.encrypt(&mut t);
            assert_ne!(&t, b);
            c.decrypt(&mut t);
            assert_eq!(&t, b);
            c.decrypt(&mut t);
            c.encrypt(&mut t);
            assert_eq!(&t, b);
            n += 1;
        }
    }
    println!("kuznyechik inverse checks: {n} (key, block) pairs, both orders");
}

#[cfg(feature = "ffi")]
#[test]
fn no_library_has_it() {
    // Documented absence: OpenSSL 3 (default+legacy) has no Kuznyechik without the gost engine;
    // libgcrypt on this image has no GCRY_CIPHER_GOST* 128-bit cipher.  If one appears, this test
    // compares it against the RFC vector so that the anchor is not silently ignored.
    let key = hx("8899aabbccddeeff0011223344556677 fedcba98765432100123456789abcdef");
    let pt = hx("1122334455667700ffeeddccbbaa9988");
    let ct = hx("7f679d90bebc24305a468d42b9d4edcd");
    for name in ["kuznyechik-ecb", "KUZNYECHIK-ECB", "grasshopper-ecb", "id-tc26-cipher-gostr3412-2015-kuznyechik-ecb"] {
        match refmodels::ffi::openssl_ecb(name, &key, None, true, &pt) {
            None => println!("openssl: {name} not available"),
            Some(c) => assert_eq!(c, ct),
        }
    }
}

#[test]
fn timing() {
    let c = Kuznyechik::new(&[7u8; 32]);
    let mut b = [1u8; 16];
    let n = 20000;
    let t = std::time::Instant::now();
    for _ in 0..n {
        c.encrypt(&mut b);
    }
    let e = t.elapsed().as_nanos() as f64 / n as f64;
    let t = std::time::Instant::now();
    for _ in 0..n {
        c.decrypt(&mut b);
    }
    let d = t.elapsed().as_nanos() as f64 / n as f64;
    let t = std::time::Instant::now();
    let mut acc = 0u8;
    for i in 0..200u32 {
        let mut k = [0u8; 32];
        k[0] = i as u8;
        let c = Kuznyechik::new(&k);
        let mut z = [0u8; 16];
        c.encrypt(&mut z);
        acc ^= z[0];
    }
    let s = t.elapsed().as_nanos() as f64 / 200.0;
    println!("kuznyechik: encrypt {e:.0} ns/block, decrypt {d:.0} ns/block, new+1 block {s:.0} ns ({acc} {})", b[0]);
}
