//! Validation of the AES reference model (src/aes.rs) against OpenSSL, libgcrypt and the FIPS-197 vectors.
#![cfg(feature = "ffi")]

use refmodels::RefCipher;
use refmodels::aes::{self, Aes};
use refmodels::ffi::{GCRY_CIPHER_AES128, GCRY_CIPHER_AES192, GCRY_CIPHER_AES256, gcrypt_ecb, openssl_ecb};

fn hx(s: &str) -> Vec<u8> {
    let s: String = s.chars().filter(|c| !c.is_whitespace()).collect();
    (0..s.len() / 2).map(|i| u8::from_str_radix(&s[2 * i..2 * i + 2], 16).unwrap()).collect()
}
fn hx16(s: &str) -> [u8; 16] {
    hx(s).try_into().unwrap()
}

struct SplitMix64(u64);
impl SplitMix64 {
    fn next(&mut self) -> u64 {
        self.0 = self.0.wrapping_add(0x9e37_79b9_7f4a_7c15);
        let mut z = self.0;
        z = (z ^ (z >> 30)).wrapping_mul(0xbf58_476d_1ce4_e5b9);
        z = (z ^ (z >> 27)).wrapping_mul(0x94d0_49bb_1331_11eb);
        z ^ (z >> 31)
    }
    fn bytes(&mut self, n: usize) -> Vec<u8> {
        let mut v = Vec::with_capacity(n + 8);
        while v.len() < n {
            v.extend_from_slice(&self.next().to_le_bytes());
        }
        v.truncate(n);
        v
    }
}

/// all-zero, all-ones, every walking one, every walking zero, byte ramp, `nrand` pseudo-random values
fn input_set(n: usize, seed: u64, nrand: usize) -> Vec<Vec<u8>> {
    let mut v = vec![vec![0u8; n], vec![0xffu8; n]];
    for bit in 0..8 * n {
        let mut x = vec![0u8; n];
        x[bit / 8] |= 0x80 >> (bit % 8);
        v.push(x.clone());
        v.push(x.iter().map(|b| !b).collect());
    }
    v.push((0..n as u8).collect());
    let mut rng = SplitMix64(seed);
    for _ in 0..nrand {
        v.push(rng.bytes(n));
    }
    v
}

const KEY_SIZES: [(usize, &str, i32); 3] =
    [(16, "AES-128-ECB", GCRY_CIPHER_AES128), (24, "AES-192-ECB", GCRY_CIPHER_AES192), (32, "AES-256-ECB", GCRY_CIPHER_AES256)];

fn ecb(c: &Aes, encrypt: bool, data: &[u8]) -> Vec<u8> {
    let mut out = data.to_vec();
    for b in out.chunks_mut(16) {
        if encrypt { c.encrypt(b) } else { c.decrypt(b) }
    }
    out
}

// ------------------------------------------------------------------ S-box

/// independent re-derivation: inverse as a^254 with a carry-less multiply + reduction, affine map via rotations
#[test]
fn sbox_independent_derivation() {
    fn mul(a: u8, b: u8) -> u8 {
        // schoolbook carry-less product, then reduce modulo 0x11b
        let mut p: u16 = 0;
        for i in 0..8 {
            if (b >> i) & 1 == 1 {
                p ^= (a as u16) << i;
            }
        }
        for i in (8..15).rev() {
            if (p >> i) & 1 == 1 {
                p ^= 0x11b << (i - 8);
            }
        }
        p as u8
    }
    let sbox = aes::sbox();
    let mut seen = [false; 256];
    for x in 0..256usize {
        let a = x as u8;
        // a^254
        let mut inv = 1u8;
        for _ in 0..254 {
            inv = mul(inv, a);
        }
        if a != 0 {
            assert_eq!(mul(a, inv), 1);
        } else {
            assert_eq!(inv, 0);
        }
        let s = inv ^ inv.rotate_left(1) ^ inv.rotate_left(2) ^ inv.rotate_left(3) ^ inv.rotate_left(4) ^ 0x63;
        assert_eq!(sbox[x], s, "sbox[{x:#x}]");
        assert!(!std::mem::replace(&mut seen[s as usize], true));
    }
    // spot values from FIPS-197 Figure 7 / §5.1.1 example
    assert_eq!(sbox[0x00], 0x63);
    assert_eq!(sbox[0x01], 0x7c);
    assert_eq!(sbox[0x53], 0xed);
    assert_eq!(sbox[0x10], 0xca);
    assert_eq!(sbox[0xf0], 0x8c);
    assert_eq!(sbox[0xff], 0x16);
    // first row of Figure 7
    assert_eq!(&sbox[..16], &hx("637c777bf26b6fc53001672bfed7ab76")[..]);
    // no fixed points, no opposite fixed points
    for x in 0..256usize {
        assert_ne!(sbox[x], x as u8);
        assert_ne!(sbox[x], !(x as u8));
    }
}

// ------------------------------------------------------------------ FIPS-197 vectors

#[test]
fn fips197_appendix_a_key_expansion() {
    // A.1
    let c = Aes::new(&hx("2b7e151628aed2a6abf7158809cf4f3c"));
    let rk = c.round_keys();
    assert_eq!(rk.len(), 11);
    assert_eq!(rk[0], hx16("2b7e151628aed2a6abf7158809cf4f3c"));
    assert_eq!(rk[1], hx16("a0fafe1788542cb123a339392a6c7605")); // w4..w7
    assert_eq!(rk[10], hx16("d014f9a8c9ee2589e13f0cc8b6630ca6")); // w40..w43
    // A.2
    let c = Aes::new(&hx("8e73b0f7da0e6452c810f32b809079e562f8ead2522c6b7b"));
    let rk = c.round_keys();
    assert_eq!(rk.len(), 13);
    assert_eq!(&rk[1][8..], &hx("fe0c91f72402f5a5")[..]); // w6, w7
    assert_eq!(rk[12], hx16("e98ba06f448c773c8ecc720401002202")); // w48..w51
    // A.3
    let c = Aes::new(&hx("603deb1015ca71be2b73aef0857d77811f352c073b6108d72d9810a30914dff4"));
    let rk = c.round_keys();
    assert_eq!(rk.len(), 15);
    assert_eq!(rk[2], hx16("9ba354118e6925afa51a8b5f2067fcde")); // w8..w11
    assert_eq!(rk[3], hx16("a8b09c1a93d194cdbe49846eb75d5b9a")); // w12..w15 (uses the Nk=8 extra SubWord)
    assert_eq!(rk[14], hx16("fe4890d1e6188d0b046df344706c631e")); // w56..w59
}

#[test]
fn fips197_appendix_b_and_c() {
    let cases = [
        // Appendix B
        ("2b7e151628aed2a6abf7158809cf4f3c", "3243f6a8885a308d313198a2e0370734", "3925841d02dc09fbdc118597196a0b32"),
        // C.1, C.2, C.3
        ("000102030405060708090a0b0c0d0e0f", "00112233445566778899aabbccddeeff", "69c4e0d86a7b0430d8cdb78070b4c55a"),
        ("000102030405060708090a0b0c0d0e0f1011121314151617", "00112233445566778899aabbccddeeff", "dda97ca4864cdfe06eaf70a0ec0d7191"),
        (
            "000102030405060708090a0b0c0d0e0f101112131415161718191a1b1c1d1e1f",
            "00112233445566778899aabbccddeeff",
            "8ea2b7ca516745bfeafc49904b496089",
        ),
    ];
    for (k, p, c) in cases {
        let a = Aes::new(&hx(k));
        assert_eq!(a.block_size(), 16);
        let mut b = hx(p);
        a.encrypt(&mut b);
        assert_eq!(b, hx(c), "encrypt key {k}");
        a.decrypt(&mut b);
        assert_eq!(b, hx(p), "decrypt key {k}");
    }
}

/// Appendix C.1 intermediate values of round 1 and the last round, for the individual transformations
#[test]
fn fips197_c1_round_intermediates() {
    let mut s = hx16("00102030405060708090a0b0c0d0e0f0"); // round[1].start
    aes::sub_bytes(&mut s);
    assert_eq!(s, hx16("63cab7040953d051cd60e0e7ba70e18c")); // round[1].s_box
    aes::shift_rows(&mut s);
    assert_eq!(s, hx16("6353e08c0960e104cd70b751bacad0e7")); // round[1].s_row
    aes::mix_columns(&mut s);
    assert_eq!(s, hx16("5f72641557f5bc92f7be3b291db9f91a")); // round[1].m_col
    // and back
    aes::inv_mix_columns(&mut s);
    assert_eq!(s, hx16("6353e08c0960e104cd70b751bacad0e7"));
    aes::inv_shift_rows(&mut s);
    assert_eq!(s, hx16("63cab7040953d051cd60e0e7ba70e18c"));
    aes::inv_sub_bytes(&mut s);
    assert_eq!(s, hx16("00102030405060708090a0b0c0d0e0f0"));

    // Appendix B round 1: start / after SubBytes / ShiftRows / MixColumns
    let mut s = hx16("193de3bea0f4e22b9ac68d2ae9f84808");
    aes::sub_bytes(&mut s);
    assert_eq!(s, hx16("d42711aee0bf98f1b8b45de51e415230"));
    aes::shift_rows(&mut s);
    assert_eq!(s, hx16("d4bf5d30e0b452aeb84111f11e2798e5"));
    aes::mix_columns(&mut s);
    assert_eq!(s, hx16("046681e5e0cb199a48f8d37a2806264c"));

    // C.1 inverse cipher: round[1].istart -> is_row -> is_box
    let mut s = hx16("7ad5fda789ef4e272bca100b3d9ff59f");
    aes::inv_shift_rows(&mut s);
    assert_eq!(s, hx16("7a9f102789d5f50b2beffd9f3dca4ea7"));
    aes::inv_sub_bytes(&mut s);
    assert_eq!(s, hx16("bd6e7c3df2b5779e0b61216e8b10b689"));
    // InvMixColumns vector (C.1 equivalent inverse cipher, round 1 im_col)
    aes::inv_mix_columns(&mut s);
    assert_eq!(s, hx16("4773b91ff72f354361cb018ea1e6cf2c"));
}

/// full-round functions against the FIPS-197 C.1 values (the vectors of /repo/aes/tests/hazmat.rs)
#[test]
fn fips197_c1_full_rounds() {
    let enc = [
        ("00102030405060708090a0b0c0d0e0f0", "d6aa74fdd2af72fadaa678f1d6ab76fe", "89d810e8855ace682d1843d8cb128fe4"),
        ("89d810e8855ace682d1843d8cb128fe4", "b692cf0b643dbdf1be9bc5006830b3fe", "4915598f55e5d7a0daca94fa1f0a63f7"),
        ("4915598f55e5d7a0daca94fa1f0a63f7", "b6ff744ed2c2c9bf6c590cbf0469bf41", "fa636a2825b339c940668a3157244d17"),
        ("fa636a2825b339c940668a3157244d17", "47f7f7bc95353e03f96c32bcfd058dfd", "247240236966b3fa6ed2753288425b6c"),
    ];
    for (start, k, out) in enc {
        let mut b = hx16(start);
        aes::cipher_round(&mut b, &hx16(k));
        assert_eq!(b, hx16(out));
    }
    let dec = [
        ("7ad5fda789ef4e272bca100b3d9ff59f", "13aa29be9c8faff6f770f58000f7bf03", "54d990a16ba09ab596bbf40ea111702f"),
        ("54d990a16ba09ab596bbf40ea111702f", "1362a4638f2586486bff5a76f7874a83", "3e1c22c0b6fcbf768da85067f6170495"),
        ("3e1c22c0b6fcbf768da85067f6170495", "8d82fc749c47222be4dadc3e9c7810f5", "b458124c68b68a014b99f82e5f15554c"),
        ("b458124c68b68a014b99f82e5f15554c", "72e3098d11c5de5f789dfe1578a2cccb", "e8dab6901477d4653ff7f5e2e747dd4f"),
    ];
    for (start, k, out) in dec {
        let mut b = hx16(start);
        aes::equiv_inv_cipher_round(&mut b, &hx16(k));
        assert_eq!(b, hx16(out));
    }
    // the C.1 key schedule values used above are the model's round keys 1..4
    let c = Aes::new(&hx("000102030405060708090a0b0c0d0e0f"));
    for (r, (_, k, _)) in enc.iter().enumerate() {
        assert_eq!(c.round_keys()[r + 1], hx16(k));
    }
    // and the equivalent-inverse-cipher schedule is InvMixColumns of round keys 9, 8, 7, 6
    for (i, (_, k, _)) in dec.iter().enumerate() {
        let mut dw = c.round_keys()[9 - i];
        aes::inv_mix_columns(&mut dw);
        assert_eq!(dw, hx16(k));
    }
}

// ------------------------------------------------------------------ round functions chained == full cipher (vs. OpenSSL)

#[test]
fn chained_round_functions_reproduce_openssl() {
    let mut n = 0;
    for (klen, name, _) in KEY_SIZES {
        let keys = input_set(klen, 0xae5_0001 + klen as u64, 16);
        let blocks = input_set(16, 0xae5_0002, 16);
        let data: Vec<u8> = blocks.concat();
        for key in keys.iter().step_by(5) {
            let c = Aes::new(key);
            let rk = c.round_keys();
            let nr = rk.len() - 1;
            let want_enc = openssl_ecb(name, key, None, true, &data).unwrap();
            let want_dec = openssl_ecb(name, key, None, false, &data).unwrap();
            for (i, blk) in blocks.iter().enumerate() {
                // Cipher built from cipher_round
                let mut s: [u8; 16] = blk[..].try_into().unwrap();
                for j in 0..16 {
                    s[j] ^= rk[0][j];
                }
                for r in 1..nr {
                    aes::cipher_round(&mut s, &rk[r]);
                }
                aes::sub_bytes(&mut s);
                aes::shift_rows(&mut s);
                for j in 0..16 {
                    s[j] ^= rk[nr][j];
                }
                assert_eq!(&s[..], &want_enc[16 * i..16 * i + 16]);
                // EqInvCipher (FIPS-197 §5.3.5) built from equiv_inv_cipher_round, dw = InvMixColumns(w)
                let mut s: [u8; 16] = blk[..].try_into().unwrap();
                for j in 0..16 {
                    s[j] ^= rk[nr][j];
                }
                for r in (1..nr).rev() {
                    let mut dw = rk[r];
                    aes::inv_mix_columns(&mut dw);
                    aes::equiv_inv_cipher_round(&mut s, &dw);
                }
                aes::inv_sub_bytes(&mut s);
                aes::inv_shift_rows(&mut s);
                for j in 0..16 {
                    s[j] ^= rk[0][j];
                }
                assert_eq!(&s[..], &want_dec[16 * i..16 * i + 16]);
                n += 2;
            }
        }
    }
    println!("aes chained rounds vs OpenSSL: {n} cases");
}

// ------------------------------------------------------------------ transformations: mutual inverses, structure

#[test]
fn transformations_are_mutual_inverses() {
    let set = input_set(16, 0xae5_0003, 256);
    for x in &set {
        let x: [u8; 16] = x[..].try_into().unwrap();
        let mut s = x;
        aes::mix_columns(&mut s);
        aes::inv_mix_columns(&mut s);
        assert_eq!(s, x);
        aes::inv_mix_columns(&mut s);
        aes::mix_columns(&mut s);
        assert_eq!(s, x);
        aes::shift_rows(&mut s);
        aes::inv_shift_rows(&mut s);
        assert_eq!(s, x);
        aes::inv_shift_rows(&mut s);
        aes::shift_rows(&mut s);
        assert_eq!(s, x);
        aes::sub_bytes(&mut s);
        aes::inv_sub_bytes(&mut s);
        assert_eq!(s, x);
        aes::inv_sub_bytes(&mut s);
        aes::sub_bytes(&mut s);
        assert_eq!(s, x);
        // MixColumns^4 = identity (the polynomial a(x) has order 4 modulo x^4+1)
        for _ in 0..4 {
            aes::mix_columns(&mut s);
        }
        assert_eq!(s, x);
        // SubBytes is the byte-wise S-box
        let sb = aes::sbox();
        aes::sub_bytes(&mut s);
        for i in 0..16 {
            assert_eq!(s[i], sb[x[i] as usize]);
        }
    }
    // ShiftRows on the index pattern: row r rotated left by r  (block byte i = row i%4, column i/4)
    let mut s: [u8; 16] = core::array::from_fn(|i| i as u8);
    aes::shift_rows(&mut s);
    assert_eq!(s, [0, 5, 10, 15, 4, 9, 14, 3, 8, 13, 2, 7, 12, 1, 6, 11]);
    // MixColumns examples from the literature: column db 13 53 45 -> 8e 4d a1 bc, f2 0a 22 5c -> 9f dc 58 9d
    let mut s = hx16("db135345f20a225c01010101c6c6c6c6");
    aes::mix_columns(&mut s);
    assert_eq!(s, hx16("8e4da1bc9fdc589d01010101c6c6c6c6"));
}

// ------------------------------------------------------------------ libraries

#[test]
fn against_openssl_and_libgcrypt() {
    let mut n = 0u64;
    for (klen, name, galgo) in KEY_SIZES {
        let keys = input_set(klen, 0xae5_1000 + klen as u64, 64);
        let blocks = input_set(16, 0xae5_2000 + klen as u64, 64);
        let data: Vec<u8> = blocks.concat();
        for key in &keys {
            let c = Aes::new(key);
            for encrypt in [true, false] {
                let got = ecb(&c, encrypt, &data);
                let o = openssl_ecb(name, key, None, encrypt, &data).expect("openssl");
                assert_eq!(got, o, "{name} enc={encrypt} key={key:02x?}");
                let g = gcrypt_ecb(galgo, key, None, encrypt, &data).expect("gcrypt");
                assert_eq!(got, g, "gcrypt {galgo} enc={encrypt} key={key:02x?}");
                n += 2 * blocks.len() as u64;
            }
            // (c) round trip
            assert_eq!(ecb(&c, false, &ecb(&c, true, &data)), data);
        }
        println!("{name}: {} keys x {} blocks", keys.len(), blocks.len());
    }
    println!("aes vs OpenSSL+libgcrypt: {n} block comparisons");
}

// ------------------------------------------------------------------ misc

#[test]
fn rejects_bad_key_lengths() {
    for len in [0usize, 1, 8, 15, 17, 20, 31, 33, 64] {
        let r = std::panic::catch_unwind(|| Aes::new(&vec![0u8; len]));
        assert!(r.is_err(), "key length {len} must panic");
    }
}

#[test]
fn is_send_sync() {
    fn check<T: Send + Sync>() {}
    check::<Aes>();
}

#[test]
fn timing() {
    let key: Vec<u8> = (0..32u8).collect();
    let t0 = std::time::Instant::now();
    let iters = 2000;
    for i in 0..iters {
        let mut k = key.clone();
        k[0] = i as u8;
        std::hint::black_box(Aes::new(&k));
    }
    println!("aes-256 key setup: {} ns", t0.elapsed().as_nanos() / iters);
    for klen in [16usize, 24, 32] {
        let c = Aes::new(&key[..klen]);
        let mut b = [0u8; 16];
        let iters = 20000;
        let t0 = std::time::Instant::now();
        for _ in 0..iters {
            c.encrypt(&mut b);
        }
        let e = t0.elapsed().as_nanos() / iters;
        let t0 = std::time::Instant::now();
        for _ in 0..iters {
            c.decrypt(&mut b);
        }
        let d = t0.elapsed().as_nanos() / iters;
        std::hint::black_box(b);
        println!("aes-{}: encrypt {e} ns/block, decrypt {d} ns/block", klen * 8);
    }
}
