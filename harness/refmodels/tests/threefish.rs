//! Validation of the Threefish reference model.
//! No third-party implementation of Threefish exists on this machine, so the anchors are
//! (b) the Threefish known-answer vectors of the Skein 1.3 reference distribution as collected in
//!     Crypto++'s TestVectors/threefish.txt and quoted in /repo/threefish/tests/mod.rs: for each of
//!     256/512/1024 the all-zero key/tweak/plaintext vector and the incrementing-bytes
//!     key/tweak/plaintext vector, plus the four chained Threefish-512 zero-tweak vectors;
//! (c) decrypt(encrypt(x)) == x on the deterministic input set (keys, tweaks, blocks) for every size.
//! The rotation and permutation tables are transcribed from the paper (the permutation table in
//! /repo/threefish/src/consts.rs is the inverse of the paper's Table 3, this model uses the paper's).
use refmodels::RefCipher;
use refmodels::threefish::Threefish;
use std::time::Instant;

fn hx(s: &str) -> Vec<u8> {
    let s: String = s.chars().filter(|c| !c.is_whitespace()).collect();
    (0..s.len() / 2).map(|i| u8::from_str_radix(&s[2 * i..2 * i + 2], 16).unwrap()).collect()
}

struct SplitMix64(u64);
impl SplitMix64 {
    fn next(&mut self) -> u64 {
        self.0 = self.0.wrapping_add(0x9E3779B97F4A7C15);
        let mut z = self.0;
        z = (z ^ (z >> 30)).wrapping_mul(0xBF58476D1CE4E5B9);
        z = (z ^ (z >> 27)).wrapping_mul(0x94D049BB133111EB);
        z ^ (z >> 31)
    }
    fn bytes(&mut self, n: usize) -> Vec<u8> {
        let mut v = Vec::with_capacity(n + 8);
        while v.len() < n {
            v.extend_from_slice(&self.next().to_le_bytes());
        }
        v.truncate(n);
        v
    }
}

/// all-zero, all-ones, walking one, walking zero, byte ramp, `nrand` pseudo-random values
fn input_set(len: usize, nrand: usize, seed: u64) -> Vec<Vec<u8>> {
    let mut v = vec![vec![0u8; len], vec![0xffu8; len]];
    for bit in 0..8 * len {
        let mut a = vec![0u8; len];
        a[bit / 8] |= 0x80 >> (bit % 8);
        let b: Vec<u8> = a.iter().map(|x| !x).collect();
        v.push(a);
        v.push(b);
    }
    v.push((0..len).map(|i| i as u8).collect());
    let mut rng = SplitMix64(seed);
    for _ in 0..nrand {
        v.push(rng.bytes(len));
    }
    v
}


fn check(key: &[u8], tweak: &[u8], pt: &[u8], ct: &[u8]) {
    let tw: [u8; 16] = tweak.try_into().unwrap();
    let c = Threefish::new(key, &tw);
    assert_eq!(c.block_size(), key.len());
    let mut b = pt.to_vec();
    c.encrypt(&mut b);
    assert_eq!(b, ct, "Threefish-{} encrypt", 8 * key.len());
    c.decrypt(&mut b);
    assert_eq!(b, pt, "Threefish-{} decrypt", 8 * key.len());
}

fn ramp(start: u8, n: usize) -> Vec<u8> {
    (0..n).map(|i| start.wrapping_add(i as u8)).collect()
}
fn ramp_down(start: u8, n: usize) -> Vec<u8> {
    (0..n).map(|i| start.wrapping_sub(i as u8)).collect()
}

#[test]
fn kat_256() {
    check(
        &[0; 32],
        &[0; 16],
        &[0; 32],
        &hx("84DA2A1F8BEAEE94 7066AE3E3103F1AD 536DB1F4A1192495 116B9F3CE6133FD8"),
    );
    // key 10..2F, tweak 00..0F, plaintext FF FE .. E0
    check(
        &ramp(0x10, 32),
        &ramp(0x00, 16),
        &ramp_down(0xFF, 32),
        &hx("E0D091FF0EEA8FDF C98192E62ED80AD5 9D865D08588DF476 657056B5955E97DF"),
    );
}

#[test]
fn kat_512() {
    let a = hx("B1A2BBC6EF6025BC 40EB3822161F36E3 75D1BB0AEE3186FB D19E47C5D479947B
                7BC2F8586E35F0CF F7E7F03084B0B7B1 F1AB3961A580A3E9 7EB41EA14A6D7BBE");
    let b = hx("F13CA06760DD9BBE AB87B6C56F3BBBDB E9D08A77978B942A C02D471DC10268F2
                261C3D4330D6CA34 1F4BD4115DEE16A2 1DCDA2A34A0A76FB A976174E4CF1E306");
    let c = hx("1BEC82CBA1357566 B34E1CF1FBF123A1 41C8F4089F6E4CE3 209AEA10095AEC93
                C900D068BDC7F7A2 DD58513C11DEC956 B93169B1C4F24CED E31A265DE83E36B4");
    let d = hx("073CB5F8FABFA17D B751477F294EB3DD 4ACD92B78397331F CC36A9C3D3055B81
                D867CBDD56279037 373359CA1832669A F4B87A1F2FDAF8D3 6E2FB7A6D19F5D45");
    check(&[0; 64], &[0; 16], &[0; 64], &a);
    check(&a, &[0; 16], &[0; 64], &b);
    check(&b, &[0; 16], &a, &c);
    let mut a1 = a.clone();
    a1[63] ^= 1; // ...7BBF
    check(&b, &[0; 16], &a1, &d);
    check(
        &ramp(0x10, 64),
        &ramp(0x00, 16),
        &ramp_down(0xFF, 64),
        &hx("E304439626D45A2C B401CAD8D636249A 6338330EB06D45DD 8B36B90E97254779
             272A0A8D99463504 784420EA18C9A725 AF11DFFEA1016234 8927673D5C1CAF3D"),
    );
}

#[test]
fn kat_1024() {
    check(
        &[0; 128],
        &[0; 16],
        &[0; 128],
        &hx("F05C3D0A3D05B304 F785DDC7D1E03601 5C8AA76E2F217B06 C6E1544C0BC1A90D
             F0ACCB9473C24E0F D54FEA68057F4332 9CB454761D6DF5CF 7B2E9B3614FBD5A2
             0B2E4760B4060354 0D82EABC5482C171 C832AFBE68406BC3 9500367A592943FA
             9A5B4A43286CA3C4 CF46104B443143D5 60A4B230488311DF 4FEEF7E1DFE8391E"),
    );
    check(
        &ramp(0x10, 128),
        &ramp(0x00, 16),
        &ramp_down(0xFF, 128),
        &hx("A6654DDBD73CC3B0 5DD777105AA849BC E49372EAAFFC5568 D254771BAB85531C
             94F780E7FFAAE430 D5D8AF8C70EEBBE1 760F3B42B737A89C B363490D670314BD
             8AA41EE63C2E1F45 FBD477922F8360B3 88D6125EA6C7AF0A D7056D01796E90C8
             3313F4150A5716B3 0ED5F569288AE974 CE2B4347926FCE57 DE44512177DD7CDE"),
    );
}

#[test]
fn roundtrip_input_set() {
    let mut n = 0usize;
    for len in [32usize, 64, 128] {
        let keys = input_set(len, 64, 0x7466_6b00 + len as u64);
        let blocks = input_set(len, 64, 0x7466_6200 + len as u64);
        let tweaks = input_set(16, 64, 0x7466_7400 + len as u64);
        let tw = |i: usize| -> [u8; 16] { tweaks[i % tweaks.len()].clone().try_into().unwrap() };
        // every key, cycling through the tweaks, reduced block set (full for a few keys)
        for (ki, k) in keys.iter().enumerate() {
            let c = Threefish::new(k, &tw(ki));
            let step = if ki < 4 { 1 } else { 97 };
            for p in blocks.iter().skip(ki % step).step_by(step) {
                let mut b = p.clone();
                c.encrypt(&mut b);
                c.decrypt(&mut b);
                assert_eq!(&b, p);
                c.decrypt(&mut b);
                c.encrypt(&mut b);
                assert_eq!(&b, p);
                n += 1;
            }
        }
        // every tweak, a few keys, reduced block set
        for (ti, t) in tweaks.iter().enumerate() {
            let t: [u8; 16] = t.clone().try_into().unwrap();
            let c = Threefish::new(&keys[(ti * 5) % keys.len()], &t);
            for p in blocks.iter().skip(ti % 61).step_by(61) {
                let mut b = p.clone();
                c.encrypt(&mut b);
                c.decrypt(&mut b);
                assert_eq!(&b, p);
                n += 1;
            }
        }
    }
    println!("threefish roundtrip cases: {n}");
}

#[test]
fn tweak_and_key_matter() {
    // sanity: changing any single tweak bit or key bit changes the ciphertext of the zero block
    for len in [32usize, 64, 128] {
        let mut base = vec![0u8; len];
        Threefish::new(&vec![0u8; len], &[0u8; 16]).encrypt(&mut base);
        for bit in 0..128 {
            let mut t = [0u8; 16];
            t[bit / 8] |= 1 << (bit % 8);
            let mut b = vec![0u8; len];
            Threefish::new(&vec![0u8; len], &t).encrypt(&mut b);
            assert_ne!(b, base);
        }
        for bit in 0..8 * len {
            let mut k = vec![0u8; len];
            k[bit / 8] |= 1 << (bit % 8);
            let mut b = vec![0u8; len];
            Threefish::new(&k, &[0u8; 16]).encrypt(&mut b);
            assert_ne!(b, base);
        }
    }
}

#[test]
#[should_panic]
fn bad_key_length() {
    let _ = Threefish::new(&[0u8; 48], &[0u8; 16]);
}

#[test]
fn speed() {
    for len in [32usize, 64, 128] {
        let key = ramp(0x10, len);
        let tweak: [u8; 16] = ramp(0, 16).try_into().unwrap();
        let c = Threefish::new(&key, &tweak);
        let mut blk = vec![0u8; len];
        let n = 100_000;
        let t = Instant::now();
        for _ in 0..n {
            c.encrypt(&mut blk);
        }
        let e = t.elapsed().as_nanos() as f64 / n as f64;
        let t = Instant::now();
        for _ in 0..n {
            c.decrypt(&mut blk);
        }
        let d = t.elapsed().as_nanos() as f64 / n as f64;
        assert!(blk.iter().all(|&x| x == 0));
        let t = Instant::now();
        let mut acc = 0usize;
        for _ in 0..20_000 {
            acc += Threefish::new(&key, &tweak).block_size();
        }
        let s = t.elapsed().as_nanos() as f64 / 20_000.0;
        println!("threefish-{}: encrypt {e:.0} ns/block, decrypt {d:.0} ns/block, new {s:.0} ns ({acc})", 8 * len);
    }
}
