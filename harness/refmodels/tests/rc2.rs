#![cfg(feature = "ffi")]
//! Validation of the RC2 reference model against OpenSSL RC2-ECB (legacy provider) with explicit effective key
//! bits, and the eight RFC 2268 section 5 vectors.

use refmodels::RefCipher;
use refmodels::ffi::openssl_ecb;
use refmodels::rc2::Rc2;

fn hx(s: &str) -> Vec<u8> {
    (0..s.len() / 2).map(|i| u8::from_str_radix(&s[2 * i..2 * i + 2], 16).unwrap()).collect()
}

struct SplitMix64(u64);
impl SplitMix64 {
    fn next(&mut self) -> u64 {
        self.0 = self.0.wrapping_add(0x9E3779B97F4A7C15);
        let mut z = self.0;
        z = (z ^ (z >> 30)).wrapping_mul(0xBF58476D1CE4E5B9);
        z = (z ^ (z >> 27)).wrapping_mul(0x94D049BB133111EB);
        z ^ (z >> 31)
    }
    fn bytes(&mut self, n: usize) -> Vec<u8> {
        let mut v = Vec::with_capacity(n + 8);
        while v.len() < n {
            v.extend_from_slice(&self.next().to_le_bytes());
        }
        v.truncate(n);
        v
    }
}

fn input_set(n: usize, nrand: usize, seed: u64) -> Vec<Vec<u8>> {
    let mut v = vec![vec![0u8; n], vec![0xffu8; n]];
    for bit in 0..8 * n {
        let mut a = vec![0u8; n];
        a[bit / 8] |= 0x80 >> (bit % 8);
        let b: Vec<u8> = a.iter().map(|x| !x).collect();
        v.push(a);
        v.push(b);
    }
    v.push((0..n).map(|i| i as u8).collect());
    let mut rng = SplitMix64(seed);
    for _ in 0..nrand {
        v.push(rng.bytes(n));
    }
    v
}

fn model_ecb(c: &dyn RefCipher, encrypt: bool, data: &[u8]) -> Vec<u8> {
    let mut out = data.to_vec();
    for b in out.chunks_mut(8) {
        if encrypt { c.encrypt(b) } else { c.decrypt(b) }
    }
    out
}

/// Model vs OpenSSL for one (key, effective bits) over `data`, both directions + round trip.
fn check(key: &[u8], bits: usize, data: &[u8]) -> usize {
    let c = Rc2::new(key, bits);
    let mut n = 0;
    for enc in [true, false] {
        let lib = openssl_ecb("RC2-ECB", key, Some(bits as u32), enc, data)
            .unwrap_or_else(|| panic!("OpenSSL RC2-ECB keylen {} bits {}", key.len(), bits));
        let got = model_ecb(&c, enc, data);
        assert_eq!(got, lib, "RC2 keylen {} bits {} key {:02x?} enc {}", key.len(), bits, key, enc);
        assert_eq!(model_ecb(&c, !enc, &got), data);
        n += data.len() / 8;
    }
    n
}

/// A few keys of each length: zero, ones, ramp, and pseudo-random ones.
fn few_keys(len: usize, nrand: usize, rng: &mut SplitMix64) -> Vec<Vec<u8>> {
    let mut v = vec![vec![0u8; len], vec![0xffu8; len], (0..len).map(|i| (i as u8).wrapping_mul(7).wrapping_add(1)).collect()];
    for _ in 0..nrand {
        v.push(rng.bytes(len));
    }
    v
}

#[test]
fn rfc2268_vectors() {
    // RFC 2268 section 5: (effective bits, key, plaintext, ciphertext)
    let v: [(usize, &str, &str, &str); 8] = [
        (63, "0000000000000000", "0000000000000000", "ebb773f993278eff"),
        (64, "ffffffffffffffff", "ffffffffffffffff", "278b27e42e2f0d49"),
        (64, "3000000000000000", "1000000000000001", "30649edf9be7d2c2"),
        (64, "88", "0000000000000000", "61a8a244adacccf0"),
        (64, "88bca90e90875a", "0000000000000000", "6ccf4308974c267f"),
        (64, "88bca90e90875a7f0f79c384627bafb2", "0000000000000000", "1a807d272bbe5db1"),
        (128, "88bca90e90875a7f0f79c384627bafb2", "0000000000000000", "2269552ab0f85ca6"),
        (129, "88bca90e90875a7f0f79c384627bafb216f80a6f85920584c42fceb0be255daf1e", "0000000000000000", "5b78d3a43dfff1f1"),
    ];
    for (bits, k, p, c) in v {
        let (k, p, c) = (hx(k), hx(p), hx(c));
        let m = Rc2::new(&k, bits);
        assert_eq!(model_ecb(&m, true, &p), c, "RFC 2268 vector bits {bits}");
        assert_eq!(model_ecb(&m, false, &c), p);
        // and OpenSSL agrees with the RFC too (sanity of the anchor)
        assert_eq!(openssl_ecb("RC2-ECB", &k, Some(bits as u32), true, &p).unwrap(), c);
    }
}

#[test]
fn openssl_every_key_length_selected_bits() {
    let blocks: Vec<u8> = input_set(8, 64, 0x2C2).concat();
    let mut rng = SplitMix64(0x2268);
    let mut cases = 0;
    let mut combos = 0;
    for len in 1..=128usize {
        let mut bits_list = vec![1usize, 7, 8, 9, 40, 63, 64, 65, 127, 128, 129, 8 * len, 1023, 1024];
        if len > 1 {
            bits_list.push(8 * len - 1);
            bits_list.push(8 * len - 7);
        }
        if len < 128 {
            bits_list.push(8 * len + 1);
        }
        bits_list.sort();
        bits_list.dedup();
        for &bits in &bits_list {
            for k in few_keys(len, 4, &mut rng) {
                cases += check(&k, bits, &blocks);
                combos += 1;
            }
        }
    }
    println!("rc2/openssl every key length x selected bits: {combos} (key,bits) pairs, {cases} block comparisons");
}

#[test]
fn openssl_all_effective_bits() {
    let blocks: Vec<u8> = input_set(8, 8, 0x2C3).concat();
    let mut rng = SplitMix64(0x2269);
    let mut cases = 0;
    let mut combos = 0;
    for len in [1usize, 8, 16, 33, 128] {
        for bits in 1..=1024usize {
            for k in few_keys(len, 2, &mut rng) {
                cases += check(&k, bits, &blocks);
                combos += 1;
            }
        }
    }
    println!("rc2/openssl all effective bits: {combos} (key,bits) pairs, {cases} block comparisons");
}

#[test]
fn openssl_full_key_sets() {
    // the brief's key set (zero, ones, walking one, walking zero, ramp, 64 random) for EVERY key length,
    // at effective bits = 8*len (the default of most APIs) and at 64 and 1024
    // (few blocks here: this test is about the key schedule; the block input set is covered by the other tests)
    let mut blocks: Vec<u8> = vec![0u8; 8];
    blocks.extend([0xffu8; 8]);
    blocks.extend((0..8u8).map(|i| i.wrapping_mul(0x23).wrapping_add(1)));
    blocks.extend(SplitMix64(0x2C4).bytes(40));
    let mut cases = 0;
    let mut keys = 0;
    for len in 1..=128usize {
        for k in input_set(len, 64, 0x5EED0 + len as u64) {
            for bits in [8 * len, 64, 1024] {
                cases += check(&k, bits, &blocks);
            }
            keys += 1;
        }
    }
    println!("rc2/openssl full key sets: {keys} keys x 3 bit settings, {cases} block comparisons");
}

#[test]
#[should_panic]
fn rejects_empty_key() {
    Rc2::new(&[], 64);
}

#[test]
#[should_panic]
fn rejects_zero_bits() {
    Rc2::new(&[1, 2, 3], 0);
}

#[test]
#[should_panic]
fn rejects_1025_bits() {
    Rc2::new(&[1, 2, 3], 1025);
}

#[test]
fn speed() {
    let c = Rc2::new(&hx("88bca90e90875a7f0f79c384627bafb2"), 128);
    let mut b = [0u8; 8];
    let n = 200_000;
    let t = std::time::Instant::now();
    for _ in 0..n {
        c.encrypt(&mut b);
    }
    let e = t.elapsed().as_nanos() as f64 / n as f64;
    let t = std::time::Instant::now();
    for _ in 0..n {
        c.decrypt(&mut b);
    }
    let d = t.elapsed().as_nanos() as f64 / n as f64;
    let t = std::time::Instant::now();
    let mut acc = 0u8;
    for i in 0..2000u32 {
        let c = Rc2::new(&i.to_le_bytes(), 64);
        c.encrypt(&mut b);
        acc ^= b[0];
    }
    let s = t.elapsed().as_nanos() as f64 / 2000.0;
    println!("rc2 speed: encrypt {e:.0} ns/block, decrypt {d:.0} ns/block, key setup {s:.0} ns ({acc})");
}
