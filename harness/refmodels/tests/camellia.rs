//! Validation of the Camellia reference model (RFC 3713) against OpenSSL, libgcrypt and the RFC vectors.
#![cfg(feature = "ffi")]

use refmodels::camellia::Camellia;
use refmodels::ffi::{GCRY_CIPHER_CAMELLIA128, GCRY_CIPHER_CAMELLIA192, GCRY_CIPHER_CAMELLIA256, gcrypt_ecb, openssl_ecb};

use refmodels::RefCipher;

fn hx(s: &str) -> Vec<u8> {
    (0..s.len() / 2).map(|i| u8::from_str_radix(&s[2 * i..2 * i + 2], 16).unwrap()).collect()
}

/// Deterministic input set of `len`-byte strings: all-zero, all-ones, every walking-one, every
/// walking-zero, byte ramp, and 64 pseudo-random values from a fixed splitmix64 stream.
fn inputs(len: usize, seed: u64) -> Vec<Vec<u8>> {
    let mut v = vec![vec![0u8; len], vec![0xffu8; len]];
    for bit in 0..8 * len {
        let mut one = vec![0u8; len];
        one[bit / 8] |= 0x80 >> (bit % 8);
        let zero: Vec<u8> = one.iter().map(|b| !b).collect();
        v.push(one);
        v.push(zero);
    }
    v.push((0..len).map(|i| i as u8).collect());
    let mut s = seed;
    let mut next = move || {
        s = s.wrapping_add(0x9E3779B97F4A7C15);
        let mut z = s;
        z = (z ^ (z >> 30)).wrapping_mul(0xBF58476D1CE4E5B9);
        z = (z ^ (z >> 27)).wrapping_mul(0x94D049BB133111EB);
        z ^ (z >> 31)
    };
    for _ in 0..64 {
        let mut r = Vec::with_capacity(len);
        while r.len() < len {
            r.extend_from_slice(&next().to_be_bytes());
        }
        r.truncate(len);
        v.push(r);
    }
    v
}

/// For every key in the input set: run the model over every block of the input set (both
/// directions), check the round trip, and compare against each library oracle (ECB over the
/// concatenated blocks).  Returns the number of (key, block, direction) cases compared per oracle.
fn sweep(
    klen: usize,
    make: &dyn Fn(&[u8]) -> Box<dyn RefCipher>,
    oracles: &[(&str, &dyn Fn(&[u8], bool, &[u8]) -> Vec<u8>)],
) -> usize {
    let keys = inputs(klen, 0x1234_5678_9abc_def0 ^ klen as u64);
    let blocks = inputs(16, 0x0fed_cba9_8765_4321 ^ klen as u64);
    let flat: Vec<u8> = blocks.concat();
    let mut cases = 0;
    for key in &keys {
        let c = make(key);
        assert_eq!(c.block_size(), 16);
        let mut enc = flat.clone();
        let mut dec = flat.clone();
        for b in enc.chunks_exact_mut(16) {
            c.encrypt(b);
        }
        for b in dec.chunks_exact_mut(16) {
            c.decrypt(b);
        }
        // (c) round trips
        let mut rt = enc.clone();
        for b in rt.chunks_exact_mut(16) {
            c.decrypt(b);
        }
        assert_eq!(rt, flat, "decrypt(encrypt(x)) != x, key {key:02x?}");
        let mut rt = dec.clone();
        for b in rt.chunks_exact_mut(16) {
            c.encrypt(b);
        }
        assert_eq!(rt, flat, "encrypt(decrypt(x)) != x, key {key:02x?}");
        // (a) libraries
        for (name, o) in oracles {
            let e = o(key, true, &flat);
            let d = o(key, false, &flat);
            for (i, b) in blocks.iter().enumerate() {
                assert_eq!(&enc[16 * i..16 * i + 16], &e[16 * i..16 * i + 16], "{name} encrypt: key {key:02x?} block {b:02x?}");
                assert_eq!(&dec[16 * i..16 * i + 16], &d[16 * i..16 * i + 16], "{name} decrypt: key {key:02x?} block {b:02x?}");
            }
        }
        cases += 2 * blocks.len();
    }
    cases
}

fn kat(c: &dyn RefCipher, pt: &str, ct: &str) {
    let (pt, ct) = (hx(pt), hx(ct));
    let mut b = pt.clone();
    c.encrypt(&mut b);
    assert_eq!(b, ct);
    c.decrypt(&mut b);
    assert_eq!(b, pt);
}

/// Prints ns per block (informational; run with --release --nocapture for meaningful numbers).
fn timing(name: &str, c: &dyn RefCipher, key: &[u8], make: &dyn Fn(&[u8]) -> Box<dyn RefCipher>) {
    let mut b = [0u8; 16];
    let n = 200_000u32;
    let t = std::time::Instant::now();
    for _ in 0..n {
        c.encrypt(&mut b);
    }
    let e = t.elapsed().as_nanos() as f64 / n as f64;
    let t = std::time::Instant::now();
    for _ in 0..n {
        c.decrypt(&mut b);
    }
    let d = t.elapsed().as_nanos() as f64 / n as f64;
    let m = 20_000u32;
    let t = std::time::Instant::now();
    let mut acc = 0u8;
    for i in 0..m {
        let mut k = key.to_vec();
        k[0] = i as u8;
        let c = make(&k);
        let mut x = [0u8; 16];
        c.encrypt(&mut x);
        acc ^= x[0];
    }
    let s = t.elapsed().as_nanos() as f64 / m as f64;
    println!("{name}: encrypt {e:.0} ns/block, decrypt {d:.0} ns/block, new+1 block {s:.0} ns (acc {acc} {:02x})", b[0]);
}

fn make(key: &[u8]) -> Box<dyn RefCipher> {
    Box::new(Camellia::new(key))
}

/// RFC 3713 Appendix A (also the first vectors of the NESSIE/ISO sets)
#[test]
fn rfc3713_appendix_a() {
    let pt = "0123456789abcdeffedcba9876543210";
    kat(&Camellia::new(&hx("0123456789abcdeffedcba9876543210")), pt, "67673138549669730857065648eabe43");
    kat(
        &Camellia::new(&hx("0123456789abcdeffedcba98765432100011223344556677")),
        pt,
        "b4993401b3e996f84ee5cee7d79b09b9",
    );
    kat(
        &Camellia::new(&hx("0123456789abcdeffedcba987654321000112233445566778899aabbccddeeff")),
        pt,
        "9acc237dff16d76c20ef7c919e3a7509",
    );
}

fn vs_libs(klen: usize) {
    let (name, algo) = match klen {
        16 => ("CAMELLIA-128-ECB", GCRY_CIPHER_CAMELLIA128),
        24 => ("CAMELLIA-192-ECB", GCRY_CIPHER_CAMELLIA192),
        32 => ("CAMELLIA-256-ECB", GCRY_CIPHER_CAMELLIA256),
        _ => unreachable!(),
    };
    let o = move |k: &[u8], enc: bool, d: &[u8]| openssl_ecb(name, k, None, enc, d).expect(name);
    let g = move |k: &[u8], enc: bool, d: &[u8]| gcrypt_ecb(algo, k, None, enc, d).expect("gcrypt camellia");
    let n = sweep(klen, &make, &[(name, &o), ("libgcrypt", &g)]);
    println!("Camellia-{}: {n} cases vs {name} and libgcrypt", klen * 8);
}

#[test]
fn camellia128_vs_openssl_gcrypt() {
    vs_libs(16);
}
#[test]
fn camellia192_vs_openssl_gcrypt() {
    vs_libs(24);
}
#[test]
fn camellia256_vs_openssl_gcrypt() {
    vs_libs(32);
}

#[test]
#[should_panic]
fn bad_key_length() {
    let _ = Camellia::new(&[0u8; 8]);
}

#[test]
fn speed() {
    for klen in [16usize, 24, 32] {
        let key: Vec<u8> = (0..klen as u8).collect();
        timing(&format!("camellia{}", klen * 8), &Camellia::new(&key), &key, &make);
    }
}
