//! Validation of the XTEA reference model.  No library on this machine implements XTEA (OpenSSL: fetch of
//! "XTEA-ECB"/"XTEA" returns None; libgcrypt and nettle have no XTEA), so the anchors are published vectors only:
//!  - the vector of /repo/xtea/tests (asecuritysite.com), little-endian words
//!  - the six vectors used by the Bouncy Castle XTEATest / common "XTEA test vectors" lists, which are stated
//!    for the big-endian word convention: translated explicitly by byte-swapping every 32-bit word of key,
//!    plaintext and ciphertext
//!  - an independent straight transcription of the Needham-Wheeler C reference `encipher`/`decipher` on u32 words
//!    (different code shape: explicit round loop over 64 half-rounds) compared on the brief's input set
//!  - decrypt(encrypt(x)) == x

use refmodels::RefCipher;
use refmodels::xtea::Xtea;

fn hx(s: &str) -> Vec<u8> {
    (0..s.len() / 2).map(|i| u8::from_str_radix(&s[2 * i..2 * i + 2], 16).unwrap()).collect()
}

struct SplitMix64(u64);
impl SplitMix64 {
    fn next(&mut self) -> u64 {
        self.0 = self.0.wrapping_add(0x9E3779B97F4A7C15);
        let mut z = self.0;
        z = (z ^ (z >> 30)).wrapping_mul(0xBF58476D1CE4E5B9);
        z = (z ^ (z >> 27)).wrapping_mul(0x94D049BB133111EB);
        z ^ (z >> 31)
    }
    fn bytes(&mut self, n: usize) -> Vec<u8> {
        let mut v = Vec::with_capacity(n + 8);
        while v.len() < n {
            v.extend_from_slice(&self.next().to_le_bytes());
        }
        v.truncate(n);
        v
    }
}

fn input_set(n: usize, nrand: usize, seed: u64) -> Vec<Vec<u8>> {
    let mut v = vec![vec![0u8; n], vec![0xffu8; n]];
    for bit in 0..8 * n {
        let mut a = vec![0u8; n];
        a[bit / 8] |= 0x80 >> (bit % 8);
        let b: Vec<u8> = a.iter().map(|x| !x).collect();
        v.push(a);
        v.push(b);
    }
    v.push((0..n).map(|i| i as u8).collect());
    let mut rng = SplitMix64(seed);
    for _ in 0..nrand {
        v.push(rng.bytes(n));
    }
    v
}

/// Reverses the bytes of every 32-bit word (big-endian convention <-> little-endian convention).
fn swap32(data: &[u8]) -> Vec<u8> {
    let mut out = data.to_vec();
    for w in out.chunks_mut(4) {
        w.reverse();
    }
    out
}

#[test]
fn repo_test_vector_little_endian() {
    // /repo/xtea/tests/mod.rs
    let c = Xtea::new(b"0123456789012345");
    let mut b = *b"ABCDEFGH";
    c.encrypt(&mut b);
    assert_eq!(b, [0xea, 0x0c, 0x3d, 0x7c, 0x1c, 0x22, 0x55, 0x7f]);
    c.decrypt(&mut b);
    assert_eq!(&b, b"ABCDEFGH");
}

#[test]
fn published_vectors_big_endian_convention() {
    // (key, plaintext, ciphertext), words big-endian in the source
    let v = [
        ("000102030405060708090a0b0c0d0e0f", "4142434445464748", "497df3d072612cb5"),
        ("000102030405060708090a0b0c0d0e0f", "4141414141414141", "e78f2d13744341d8"),
        ("000102030405060708090a0b0c0d0e0f", "5a5b6e278948d77f", "4141414141414141"),
        ("00000000000000000000000000000000", "4142434445464748", "a0390589f8b8efa5"),
        ("00000000000000000000000000000000", "4141414141414141", "ed23375a821a8c2d"),
        ("00000000000000000000000000000000", "70e1225d6e4e7655", "4141414141414141"),
    ];
    for (k, p, c) in v {
        let m = Xtea::new(&swap32(&hx(k)));
        let mut b = swap32(&hx(p));
        m.encrypt(&mut b);
        assert_eq!(swap32(&b), hx(c), "XTEA BE vector key {k} pt {p}");
        m.decrypt(&mut b);
        assert_eq!(swap32(&b), hx(p));
    }
}

/// Needham & Wheeler's reference, transcribed on words:
///   void encipher(unsigned long *v, unsigned long *k) { y=v[0], z=v[1], sum=0, delta=0x9E3779B9, n=32;
///     while (n-- > 0) { y += (z<<4 ^ z>>5) + z ^ sum + k[sum&3]; sum += delta; z += (y<<4 ^ y>>5) + y ^ sum + k[sum>>11 & 3]; } }
/// Here as 64 half-rounds with the round counter deciding the half, and the sums precomputed.
fn second_opinion(k: [u32; 4], v: [u32; 2], encrypt: bool) -> [u32; 2] {
    let mut sums = [0u32; 33];
    for i in 1..33 {
        sums[i] = (0x9E3779B9u64 * i as u64 % (1u64 << 32)) as u32;
    }
    let half = |x: u32, s: u32, key: u32| -> u32 {
        let a = ((x as u64 * 16) % (1 << 32)) as u32 ^ (x / 32);
        ((a as u64 + x as u64) as u32) ^ ((s as u64 + key as u64) as u32)
    };
    let (mut y, mut z) = (v[0], v[1]);
    if encrypt {
        for r in 0..64 {
            if r % 2 == 0 {
                let s = sums[r / 2];
                y = ((y as u64 + half(z, s, k[(s % 4) as usize]) as u64) % (1 << 32)) as u32;
            } else {
                let s = sums[r / 2 + 1];
                z = ((z as u64 + half(y, s, k[((s / 2048) % 4) as usize]) as u64) % (1 << 32)) as u32;
            }
        }
    } else {
        for r in (0..64).rev() {
            if r % 2 == 0 {
                let s = sums[r / 2];
                y = (((1u64 << 32) + y as u64 - half(z, s, k[(s % 4) as usize]) as u64) % (1 << 32)) as u32;
            } else {
                let s = sums[r / 2 + 1];
                z = (((1u64 << 32) + z as u64 - half(y, s, k[((s / 2048) % 4) as usize]) as u64) % (1 << 32)) as u32;
            }
        }
    }
    [y, z]
}

#[test]
fn input_set_roundtrip_and_second_opinion() {
    let blocks = input_set(8, 64, 0x7EA);
    let mut cases = 0;
    for k in input_set(16, 64, 0x7EA0) {
        let m = Xtea::new(&k);
        let kw: [u32; 4] = std::array::from_fn(|i| u32::from_le_bytes(k[4 * i..4 * i + 4].try_into().unwrap()));
        for b in &blocks {
            let vw = [u32::from_le_bytes(b[0..4].try_into().unwrap()), u32::from_le_bytes(b[4..8].try_into().unwrap())];
            let mut e = b.clone();
            m.encrypt(&mut e);
            let ew = second_opinion(kw, vw, true);
            assert_eq!(&e[0..4], &ew[0].to_le_bytes());
            assert_eq!(&e[4..8], &ew[1].to_le_bytes());
            let mut d = e.clone();
            m.decrypt(&mut d);
            assert_eq!(&d, b, "decrypt(encrypt(x)) key {:02x?}", k);
            // decrypt direction on arbitrary input too
            let mut d2 = b.clone();
            m.decrypt(&mut d2);
            let dw = second_opinion(kw, vw, false);
            assert_eq!(&d2[0..4], &dw[0].to_le_bytes());
            assert_eq!(&d2[4..8], &dw[1].to_le_bytes());
            let mut e2 = d2.clone();
            m.encrypt(&mut e2);
            assert_eq!(&e2, b);
            cases += 2;
        }
    }
    println!("xtea: {cases} block round-trips / second-opinion comparisons");
}

#[cfg(feature = "ffi")]
#[test]
fn no_library_has_xtea() {
    for name in ["XTEA-ECB", "XTEA", "TEA-ECB", "xtea"] {
        assert!(refmodels::ffi::openssl_ecb(name, &[0u8; 16], None, true, &[0u8; 8]).is_none(), "OpenSSL unexpectedly has {name}");
    }
}

#[test]
#[should_panic]
fn rejects_bad_key_length() {
    Xtea::new(&[0u8; 15]);
}

#[test]
fn speed() {
    let c = Xtea::new(b"0123456789012345");
    let mut b = [0u8; 8];
    let n = 200_000;
    let t = std::time::Instant::now();
    for _ in 0..n {
        c.encrypt(&mut b);
    }
    let e = t.elapsed().as_nanos() as f64 / n as f64;
    let t = std::time::Instant::now();
    for _ in 0..n {
        c.decrypt(&mut b);
    }
    let d = t.elapsed().as_nanos() as f64 / n as f64;
    println!("xtea speed: encrypt {e:.0} ns/block, decrypt {d:.0} ns/block ({})", b[0]);
}
