//! Validation of the GIFT-128 reference model.
//! No third-party implementation of GIFT exists on this machine, so the anchors are
//! (b) the three official GIFT-128 test vectors (quoted in /repo/gift/tests/mod.rs; they are the
//!     vectors published with the designers' reference code), and
//! (c) decrypt(encrypt(x)) == x / encrypt(decrypt(x)) == x on the deterministic input set.
//! Structural checks of the permutation table, round constants and tables are unit tests in src/gift.rs.
use refmodels::RefCipher;
use refmodels::gift::Gift128;
use std::time::Instant;

fn hx(s: &str) -> Vec<u8> {
    let s: String = s.chars().filter(|c| !c.is_whitespace()).collect();
    (0..s.len() / 2).map(|i| u8::from_str_radix(&s[2 * i..2 * i + 2], 16).unwrap()).collect()
}

struct SplitMix64(u64);
impl SplitMix64 {
    fn next(&mut self) -> u64 {
        self.0 = self.0.wrapping_add(0x9E3779B97F4A7C15);
        let mut z = self.0;
        z = (z ^ (z >> 30)).wrapping_mul(0xBF58476D1CE4E5B9);
        z = (z ^ (z >> 27)).wrapping_mul(0x94D049BB133111EB);
        z ^ (z >> 31)
    }
    fn bytes(&mut self, n: usize) -> Vec<u8> {
        let mut v = Vec::with_capacity(n + 8);
        while v.len() < n {
            v.extend_from_slice(&self.next().to_le_bytes());
        }
        v.truncate(n);
        v
    }
}

/// all-zero, all-ones, walking one, walking zero, byte ramp, `nrand` pseudo-random values
fn input_set(len: usize, nrand: usize, seed: u64) -> Vec<Vec<u8>> {
    let mut v = vec![vec![0u8; len], vec![0xffu8; len]];
    for bit in 0..8 * len {
        let mut a = vec![0u8; len];
        a[bit / 8] |= 0x80 >> (bit % 8);
        let b: Vec<u8> = a.iter().map(|x| !x).collect();
        v.push(a);
        v.push(b);
    }
    v.push((0..len).map(|i| i as u8).collect());
    let mut rng = SplitMix64(seed);
    for _ in 0..nrand {
        v.push(rng.bytes(len));
    }
    v
}

#[test]
fn official_vectors() {
    let v = [
        ("00000000000000000000000000000000", "00000000000000000000000000000000", "cd0bd738388ad3f668b15a36ceb6ff92"),
        ("fedcba9876543210fedcba9876543210", "fedcba9876543210fedcba9876543210", "8422241a6dbf5a9346af468409ee0152"),
        ("d0f5c59a7700d3e799028fa9f90ad837", "e39c141fa57dba43f08a85b6a91f86c1", "13ede67cbdcc3dbf400a62d6977265ea"),
    ];
    for (k, p, c) in v {
        let g = Gift128::new(&hx(k));
        assert_eq!(g.block_size(), 16);
        let mut b = hx(p);
        g.encrypt(&mut b);
        assert_eq!(b, hx(c), "encrypt key {k}");
        g.decrypt(&mut b);
        assert_eq!(b, hx(p), "decrypt key {k}");
    }
}

#[test]
fn roundtrip_input_set() {
    let keys = input_set(16, 64, 0x6769_6674_6b65_7973);
    let blocks = input_set(16, 64, 0x6769_6674_626c_6b73);
    let mut n = 0usize;
    for (ki, k) in keys.iter().enumerate() {
        let g = Gift128::new(k);
        // full block set for a subset of keys, reduced block set for the others
        let step = if ki < 4 || ki % 16 == 0 { 1 } else { 7 };
        for p in blocks.iter().step_by(step) {
            let mut b = p.clone();
            g.encrypt(&mut b);
            assert_ne!(&b, p);
            g.decrypt(&mut b);
            assert_eq!(&b, p);
            g.decrypt(&mut b);
            g.encrypt(&mut b);
            assert_eq!(&b, p);
            n += 1;
        }
    }
    println!("gift128 roundtrip cases: {n}");
}

#[test]
#[should_panic]
fn bad_key_length() {
    let _ = Gift128::new(&[0u8; 15]);
}

#[test]
fn speed() {
    let g = Gift128::new(&hx("d0f5c59a7700d3e799028fa9f90ad837"));
    let mut b = [0u8; 16];
    let n = 200_000;
    let t = Instant::now();
    for _ in 0..n {
        g.encrypt(&mut b);
    }
    let e = t.elapsed().as_nanos() as f64 / n as f64;
    let t = Instant::now();
    for _ in 0..n {
        g.decrypt(&mut b);
    }
    let d = t.elapsed().as_nanos() as f64 / n as f64;
    assert_eq!(b, [0u8; 16]);
    let t = Instant::now();
    let mut acc = 0u8;
    for i in 0..20_000u32 {
        let mut k = [0u8; 16];
        k[..4].copy_from_slice(&i.to_le_bytes());
        let g = Gift128::new(&k);
        let mut b = [0u8; 16];
        g.encrypt(&mut b);
        acc ^= b[0];
    }
    let s = t.elapsed().as_nanos() as f64 / 20_000.0;
    println!("gift128: encrypt {e:.0} ns/block, decrypt {d:.0} ns/block, new+1 block {s:.0} ns (acc {acc})");
}
