//! Validation of the CAST-128 reference model: OpenSSL (legacy provider) for every key length
//! 5..=16, libgcrypt for 16-byte keys, RFC 2144 Appendix B.1 and B.2.
#![cfg(feature = "ffi")]
use refmodels::RefCipher;
use refmodels::cast5::Cast5;
use refmodels::ffi::{GCRY_CIPHER_CAST5, gcrypt_ecb, openssl_ecb};

// ---- deterministic input alphabet (duplicated in each tests/<module>.rs on purpose: self-contained)
#[allow(dead_code)]
mod inputs {
    pub struct SplitMix64(pub u64);
    impl SplitMix64 {
        pub fn next(&mut self) -> u64 {
            self.0 = self.0.wrapping_add(0x9E3779B97F4A7C15);
            let mut z = self.0;
            z = (z ^ (z >> 30)).wrapping_mul(0xBF58476D1CE4E5B9);
            z = (z ^ (z >> 27)).wrapping_mul(0x94D049BB133111EB);
            z ^ (z >> 31)
        }
        pub fn bytes(&mut self, n: usize) -> Vec<u8> {
            let mut v = Vec::with_capacity(n + 8);
            while v.len() < n {
                v.extend_from_slice(&self.next().to_le_bytes());
            }
            v.truncate(n);
            v
        }
    }
    /// all-zero, all-ones, byte ramp, `nrand` pseudo-random values
    pub fn core(n: usize, nrand: usize, seed: u64) -> Vec<Vec<u8>> {
        let mut v = vec![vec![0u8; n], vec![0xffu8; n], (0..n).map(|i| i as u8).collect::<Vec<u8>>()];
        let mut rng = SplitMix64(seed ^ (n as u64) << 32);
        for _ in 0..nrand {
            v.push(rng.bytes(n));
        }
        v
    }
    /// every single-bit value (walking one) and every single-zero-bit value
    pub fn walking(n: usize) -> Vec<Vec<u8>> {
        let mut v = Vec::new();
        for bit in 0..8 * n {
            let mut a = vec![0u8; n];
            a[bit / 8] |= 0x80 >> (bit % 8);
            let b: Vec<u8> = a.iter().map(|x| !x).collect();
            v.push(a);
            v.push(b);
        }
        v
    }
    /// full alphabet: core(64 random) + walking
    pub fn full(n: usize, seed: u64) -> Vec<Vec<u8>> {
        let mut v = core(n, 64, seed);
        v.extend(walking(n));
        v
    }
    pub fn concat(v: &[Vec<u8>]) -> Vec<u8> {
        v.iter().flat_map(|b| b.iter().copied()).collect()
    }
    pub fn hx(s: &str) -> Vec<u8> {
        let s: String = s.chars().filter(|c| !c.is_whitespace()).collect();
        (0..s.len() / 2).map(|i| u8::from_str_radix(&s[2 * i..2 * i + 2], 16).unwrap()).collect()
    }
}
use inputs::*;

/// Apply the model block by block over a concatenation of blocks.
#[allow(dead_code)]
fn model_ecb(c: &dyn RefCipher, encrypt: bool, data: &[u8]) -> Vec<u8> {
    let bs = c.block_size();
    assert_eq!(data.len() % bs, 0);
    let mut out = data.to_vec();
    for b in out.chunks_mut(bs) {
        if encrypt { c.encrypt(b) } else { c.decrypt(b) }
    }
    out
}

/// Key/block pairing used against the libraries: every key of the full key alphabet with a small
/// block set, and the core keys (zero, ones, ramp, 64 random) with the full block alphabet.
/// Returns (key, concatenated blocks) jobs.
#[allow(dead_code)]
fn jobs(klen: usize, bs: usize) -> Vec<(Vec<u8>, Vec<u8>)> {
    let small = concat(&core(bs, 8, 0xB10C));
    let fullb = concat(&full(bs, 0xB10C));
    let mut j = Vec::new();
    for k in core(klen, 64, 0x5EED) {
        j.push((k, fullb.clone()));
    }
    for k in walking(klen) {
        j.push((k, small.clone()));
    }
    j
}

/// Decoder for RustCrypto's `blobby` container (git-flavoured VLQ lengths, de-duplication table).
#[allow(dead_code)]
fn blobby(d: &[u8]) -> Vec<Vec<u8>> {
    fn vlq(d: &[u8], p: &mut usize) -> usize {
        let mut b = d[*p];
        *p += 1;
        let mut v = (b & 0x7f) as usize;
        while b & 0x80 != 0 {
            b = d[*p];
            *p += 1;
            v = ((v + 1) << 7) + (b & 0x7f) as usize;
        }
        v
    }
    let mut p = 0usize;
    let n = vlq(d, &mut p);
    let mut dedup = Vec::new();
    for _ in 0..n {
        let m = vlq(d, &mut p);
        dedup.push(d[p..p + m].to_vec());
        p += m;
    }
    let mut out = Vec::new();
    while p < d.len() {
        let n = vlq(d, &mut p);
        if n & 1 == 1 {
            out.push(dedup[n >> 1].clone());
        } else {
            out.push(d[p..p + (n >> 1)].to_vec());
            p += n >> 1;
        }
    }
    out
}

#[test]
fn cast5_vs_openssl_all_key_lengths() {
    let mut cases = 0usize;
    for klen in 5..=16usize {
        for (key, data) in jobs(klen, 8) {
            let m = Cast5::new(&key);
            let ct = model_ecb(&m, true, &data);
            let lib = openssl_ecb("CAST5-ECB", &key, None, true, &data).expect("openssl CAST5 enc");
            assert_eq!(ct, lib, "enc klen={klen} key={key:02x?}");
            // decryption direction on the same inputs (as ciphertexts)
            let pt = model_ecb(&m, false, &data);
            let lib = openssl_ecb("CAST5-ECB", &key, None, false, &data).expect("openssl CAST5 dec");
            assert_eq!(pt, lib, "dec klen={klen} key={key:02x?}");
            // (c) round trip
            assert_eq!(model_ecb(&m, false, &ct), data);
            assert_eq!(model_ecb(&m, true, &pt), data);
            cases += 2 * data.len() / 8;
        }
    }
    println!("cast5 vs openssl: {cases} block operations compared");
}

#[test]
fn cast5_vs_gcrypt_128() {
    let mut cases = 0usize;
    for (key, data) in jobs(16, 8) {
        let m = Cast5::new(&key);
        assert_eq!(model_ecb(&m, true, &data), gcrypt_ecb(GCRY_CIPHER_CAST5, &key, None, true, &data).unwrap());
        assert_eq!(model_ecb(&m, false, &data), gcrypt_ecb(GCRY_CIPHER_CAST5, &key, None, false, &data).unwrap());
        cases += 2 * data.len() / 8;
    }
    println!("cast5 vs gcrypt: {cases} block operations compared");
}

/// Short keys are zero-padded to 128 bits for the schedule; only the round count depends on length.
#[test]
fn cast5_short_key_padding() {
    for klen in 5..16usize {
        for key in core(klen, 8, 77) {
            let mut padded = key.clone();
            padded.resize(16, 0);
            let a = Cast5::new(&key);
            let b = Cast5::new(&padded);
            let mut x = *b"\x01\x23\x45\x67\x89\xab\xcd\xef";
            let mut y = x;
            a.encrypt(&mut x);
            b.encrypt(&mut y);
            if klen <= 10 {
                assert_ne!(x, y, "12 vs 16 rounds, klen {klen}");
            } else {
                assert_eq!(x, y, "klen {klen}");
            }
        }
    }
}

#[test]
fn cast5_rfc2144_b1() {
    let pt = hx("0123456789ABCDEF");
    for (k, c) in [
        ("0123456712345678234567893456789A", "238B4FE5847E44B2"),
        ("01234567123456782345", "EB6A711A2C02271B"),
        ("0123456712", "7AC816D16E9B302E"),
    ] {
        let m = Cast5::new(&hx(k));
        let mut b = pt.clone();
        m.encrypt(&mut b);
        assert_eq!(b, hx(c));
        m.decrypt(&mut b);
        assert_eq!(b, pt);
    }
}

/// RFC 2144 Appendix B.2 full maintenance test (one million iterations).
#[test]
fn cast5_rfc2144_b2_full_maintenance() {
    let mut a = hx("0123456712345678234567893456789A");
    let mut b = a.clone();
    for _ in 0..1_000_000 {
        let c = Cast5::new(&b);
        c.encrypt(&mut a[..8]);
        c.encrypt(&mut a[8..]);
        let c = Cast5::new(&a);
        c.encrypt(&mut b[..8]);
        c.encrypt(&mut b[8..]);
    }
    assert_eq!(a, hx("EEA9D0A249FD3BA6B3436FB89D6DCA92"));
    assert_eq!(b, hx("B2C95EB00C31AD7180AC05B8E83D696E"));
}

/// NESSIE Cast-128-128-64 verified vectors: literal samples, plus the whole
/// /repo/cast5/tests/data/cast5.blb file when present.
#[test]
fn cast5_nessie_vectors() {
    for (k, p, c) in [
        ("80000000000000000000000000000000", "0000000000000000", "ef854de5d7d1895b"),
        ("40000000000000000000000000000000", "0000000000000000", "3e50834a3afdd951"),
        ("00000000000000000000000000000000", "8000000000000000", "000d844afce35696"),
        ("40404040404040404040404040404040", "4040404040404040", "bf62d780f4a4340b"),
        ("6a6a6a6a6a6a6a6a6a6a6a6a6a6a6a6a", "6a6a6a6a6a6a6a6a", "479c7b1c099158f3"),
        ("fefefefefefefefefefefefefefefefe", "b9ecc336ff9f7903", "fefefefefefefefe"),
        ("2bd6459f82c5b300952c49104881ff48", "6347735b3c61b2f6", "ea024714ad5c4d84"),
    ] {
        let m = Cast5::new(&hx(k));
        let mut b = hx(p);
        m.encrypt(&mut b);
        assert_eq!(b, hx(c), "key {k}");
        m.decrypt(&mut b);
        assert_eq!(b, hx(p));
    }
    let path = "/repo/cast5/tests/data/cast5.blb";
    match std::fs::read(path) {
        Err(_) => println!("{path}: not present, skipped"),
        Ok(data) => {
            let blobs = blobby(&data);
            assert!(blobs.len() % 3 == 0 && blobs.len() >= 3 * 800);
            for t in blobs.chunks(3) {
                let m = Cast5::new(&t[0]);
                let mut b = t[1].clone();
                m.encrypt(&mut b);
                assert_eq!(b, t[2], "key {:02x?}", t[0]);
                m.decrypt(&mut b);
                assert_eq!(b, t[1]);
            }
            println!("cast5.blb: {} vectors ok", blobs.len() / 3);
        }
    }
}

#[test]
fn cast5_unsupported_key_lengths_panic() {
    for n in [0usize, 4, 17, 32] {
        assert!(std::panic::catch_unwind(|| Cast5::new(&vec![0u8; n])).is_err(), "len {n}");
    }
}

/// Timing report (informative; run with --release --nocapture).  Minimum over 5 repetitions.
#[test]
fn cast5_speed() {
    let m = Cast5::new(&hx("0123456712345678234567893456789A"));
    let mut b = [0u8; 8];
    let n = 20_000;
    let (mut e, mut d, mut s) = (f64::MAX, f64::MAX, f64::MAX);
    let mut acc = 0u8;
    for _ in 0..5 {
        let t = std::time::Instant::now();
        for _ in 0..n {
            m.encrypt(&mut b);
        }
        e = e.min(t.elapsed().as_nanos() as f64 / n as f64);
        let t = std::time::Instant::now();
        for _ in 0..n {
            m.decrypt(&mut b);
        }
        d = d.min(t.elapsed().as_nanos() as f64 / n as f64);
        let t = std::time::Instant::now();
        for i in 0..2_000u32 {
            let mut k = [0u8; 16];
            k[..4].copy_from_slice(&i.to_le_bytes());
            k[4] = b[0];
            acc ^= std::hint::black_box(Cast5::new(&k)).block_size() as u8;
        }
        s = s.min(t.elapsed().as_nanos() as f64 / 2_000.0);
    }
    println!("cast5: encrypt {e:.0} ns/block, decrypt {d:.0} ns/block, key set-up {s:.0} ns ({acc} {b:?})");
}
