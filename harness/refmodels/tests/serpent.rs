//! Validation of the Serpent reference model: nettle for every key length 16..=32, libgcrypt for
//! 16/24/32, explicit short-key padding, NESSIE vectors quoted from the verified test-vector files.
#![cfg(feature = "ffi")]
use refmodels::RefCipher;
use refmodels::ffi::{GCRY_CIPHER_SERPENT128, GCRY_CIPHER_SERPENT192, GCRY_CIPHER_SERPENT256, gcrypt_ecb, nettle_serpent};
use refmodels::serpent::Serpent;

// ---- deterministic input alphabet (duplicated in each tests/<module>.rs on purpose: self-contained)
#[allow(dead_code)]
mod inputs {
    pub struct SplitMix64(pub u64);
    impl SplitMix64 {
        pub fn next(&mut self) -> u64 {
            self.0 = self.0.wrapping_add(0x9E3779B97F4A7C15);
            let mut z = self.0;
            z = (z ^ (z >> 30)).wrapping_mul(0xBF58476D1CE4E5B9);
            z = (z ^ (z >> 27)).wrapping_mul(0x94D049BB133111EB);
            z ^ (z >> 31)
        }
        pub fn bytes(&mut self, n: usize) -> Vec<u8> {
            let mut v = Vec::with_capacity(n + 8);
            while v.len() < n {
                v.extend_from_slice(&self.next().to_le_bytes());
            }
            v.truncate(n);
            v
        }
    }
    /// all-zero, all-ones, byte ramp, `nrand` pseudo-random values
    pub fn core(n: usize, nrand: usize, seed: u64) -> Vec<Vec<u8>> {
        let mut v = vec![vec![0u8; n], vec![0xffu8; n], (0..n).map(|i| i as u8).collect::<Vec<u8>>()];
        let mut rng = SplitMix64(seed ^ (n as u64) << 32);
        for _ in 0..nrand {
            v.push(rng.bytes(n));
        }
        v
    }
    /// every single-bit value (walking one) and every single-zero-bit value
    pub fn walking(n: usize) -> Vec<Vec<u8>> {
        let mut v = Vec::new();
        for bit in 0..8 * n {
            let mut a = vec![0u8; n];
            a[bit / 8] |= 0x80 >> (bit % 8);
            let b: Vec<u8> = a.iter().map(|x| !x).collect();
            v.push(a);
            v.push(b);
        }
        v
    }
    /// full alphabet: core(64 random) + walking
    pub fn full(n: usize, seed: u64) -> Vec<Vec<u8>> {
        let mut v = core(n, 64, seed);
        v.extend(walking(n));
        v
    }
    pub fn concat(v: &[Vec<u8>]) -> Vec<u8> {
        v.iter().flat_map(|b| b.iter().copied()).collect()
    }
    pub fn hx(s: &str) -> Vec<u8> {
        let s: String = s.chars().filter(|c| !c.is_whitespace()).collect();
        (0..s.len() / 2).map(|i| u8::from_str_radix(&s[2 * i..2 * i + 2], 16).unwrap()).collect()
    }
}
use inputs::*;

/// Apply the model block by block over a concatenation of blocks.
#[allow(dead_code)]
fn model_ecb(c: &dyn RefCipher, encrypt: bool, data: &[u8]) -> Vec<u8> {
    let bs = c.block_size();
    assert_eq!(data.len() % bs, 0);
    let mut out = data.to_vec();
    for b in out.chunks_mut(bs) {
        if encrypt { c.encrypt(b) } else { c.decrypt(b) }
    }
    out
}

/// Key/block pairing used against the libraries: every key of the full key alphabet with a small
/// block set, and the core keys (zero, ones, ramp, 64 random) with the full block alphabet.
/// Returns (key, concatenated blocks) jobs.
#[allow(dead_code)]
fn jobs(klen: usize, bs: usize) -> Vec<(Vec<u8>, Vec<u8>)> {
    let small = concat(&core(bs, 8, 0xB10C));
    let fullb = concat(&full(bs, 0xB10C));
    let mut j = Vec::new();
    for k in core(klen, 64, 0x5EED) {
        j.push((k, fullb.clone()));
    }
    for k in walking(klen) {
        j.push((k, small.clone()));
    }
    j
}

/// Decoder for RustCrypto's `blobby` container (git-flavoured VLQ lengths, de-duplication table).
#[allow(dead_code)]
fn blobby(d: &[u8]) -> Vec<Vec<u8>> {
    fn vlq(d: &[u8], p: &mut usize) -> usize {
        let mut b = d[*p];
        *p += 1;
        let mut v = (b & 0x7f) as usize;
        while b & 0x80 != 0 {
            b = d[*p];
            *p += 1;
            v = ((v + 1) << 7) + (b & 0x7f) as usize;
        }
        v
    }
    let mut p = 0usize;
    let n = vlq(d, &mut p);
    let mut dedup = Vec::new();
    for _ in 0..n {
        let m = vlq(d, &mut p);
        dedup.push(d[p..p + m].to_vec());
        p += m;
    }
    let mut out = Vec::new();
    while p < d.len() {
        let n = vlq(d, &mut p);
        if n & 1 == 1 {
            out.push(dedup[n >> 1].clone());
        } else {
            out.push(d[p..p + (n >> 1)].to_vec());
            p += n >> 1;
        }
    }
    out
}

#[test]
fn serpent_sboxes_are_permutations() {
    for (i, s) in refmodels::serpent::sbox_tables().iter().enumerate() {
        let mut seen = [false; 16];
        for &v in s {
            assert!(!seen[v as usize], "S{i}");
            seen[v as usize] = true;
        }
    }
}

/// nettle implements the submission's padding for every byte length 16..=32.
fn vs_nettle(klens: std::ops::RangeInclusive<usize>) {
    let mut cases = 0usize;
    for klen in klens.clone() {
        for (key, data) in jobs(klen, 16) {
            let m = Serpent::new(&key);
            let ct = model_ecb(&m, true, &data);
            assert_eq!(ct, nettle_serpent(&key, true, &data), "enc klen={klen} key={key:02x?}");
            let pt = model_ecb(&m, false, &data);
            assert_eq!(pt, nettle_serpent(&key, false, &data), "dec klen={klen} key={key:02x?}");
            assert_eq!(model_ecb(&m, false, &ct), data);
            assert_eq!(model_ecb(&m, true, &pt), data);
            cases += 2 * data.len() / 16;
        }
    }
    println!("serpent vs nettle, key lengths {klens:?}: {cases} block operations compared");
}
// (split only so that the test harness runs the key lengths in parallel)
#[test]
fn serpent_vs_nettle_klen_16_19() {
    vs_nettle(16..=19);
}
#[test]
fn serpent_vs_nettle_klen_20_23() {
    vs_nettle(20..=23);
}
#[test]
fn serpent_vs_nettle_klen_24_27() {
    vs_nettle(24..=27);
}
#[test]
fn serpent_vs_nettle_klen_28_32() {
    vs_nettle(28..=32);
}

#[test]
fn serpent_vs_gcrypt() {
    let mut cases = 0usize;
    for (klen, algo) in [(16usize, GCRY_CIPHER_SERPENT128), (24, GCRY_CIPHER_SERPENT192), (32, GCRY_CIPHER_SERPENT256)] {
        for (key, data) in jobs(klen, 16) {
            let m = Serpent::new(&key);
            assert_eq!(model_ecb(&m, true, &data), gcrypt_ecb(algo, &key, None, true, &data).unwrap(), "enc klen={klen}");
            assert_eq!(model_ecb(&m, false, &data), gcrypt_ecb(algo, &key, None, false, &data).unwrap(), "dec klen={klen}");
            cases += 2 * data.len() / 16;
        }
    }
    println!("serpent vs gcrypt: {cases} block operations compared");
}

/// A short key k is the 256-bit key  k || 0x01 || 0x00 ...
#[test]
fn serpent_short_key_padding() {
    let blocks = concat(&core(16, 8, 0xB10C));
    for klen in 16..32usize {
        for key in full(klen, 0x5EED) {
            let mut padded = key.clone();
            padded.push(0x01);
            padded.resize(32, 0);
            let a = Serpent::new(&key);
            let b = Serpent::new(&padded);
            assert_eq!(model_ecb(&a, true, &blocks), model_ecb(&b, true, &blocks), "klen {klen}");
            assert_eq!(model_ecb(&a, false, &blocks), model_ecb(&b, false, &blocks), "klen {klen}");
            // and it is NOT the zero-padded key
            let mut zp = key.clone();
            zp.resize(32, 0);
            assert_ne!(model_ecb(&a, true, &blocks), model_ecb(&Serpent::new(&zp), true, &blocks));
        }
    }
}

/// NESSIE verified test vectors (Serpent-{128,192,256}-128), literal samples from sets 1, 2, 3, 4
/// and 8 in the little-endian convention of /repo/serpent/tests/data/*.blb.
#[test]
fn serpent_nessie_vectors() {
    let v: &[(&str, &str, &str)] = &[
        ("80000000000000000000000000000000", "00000000000000000000000000000000", "264e5481eff42a4606abda06c0bfda3d"),
        ("40000000000000000000000000000000", "00000000000000000000000000000000", "4a231b3bc727993407ac6ec8350e8524"),
        ("00000000000000000000000000000000", "80000000000000000000000000000000", "a3b35de7c358ddd82644678c64b8bcbb"),
        ("00000000000000000000000000000000", "00000000000000000000000000000000", "3620b17ae6a993d09618b8768266bae9"),
        ("2a2a2a2a2a2a2a2a2a2a2a2a2a2a2a2a", "2a2a2a2a2a2a2a2a2a2a2a2a2a2a2a2a", "15181869d61f4ef057037fac366e8cd1"),
        ("fefefefefefefefefefefefefefefefe", "fefefefefefefefefefefefefefefefe", "dcafafaf80e044df6582c735e63479a3"),
        ("2bd6459f82c5b300952c49104881ff48", "ea024714ad5c4d84ea024714ad5c4d84", "92d7f8ef2c36c53409f275902f06539f"),
        ("800000000000000000000000000000000000000000000000", "00000000000000000000000000000000", "9e274ead9b737bb21efcfca548602689"),
        ("000000000000000000000000000000008000000000000000", "00000000000000000000000000000000", "9f18df64a519fec0581c0c27f805f484"),
        ("000000000000000000000000000000000000000000000000", "00000000000000008000000000000000", "1ca839c433f49b9cac257c7cbe38c571"),
        ("000000000000000000000000000000000000000000000000", "00000000000000000000000000200000", "774d83990dcbaf6b9186df250dc721a9"),
        ("fefefefefefefefefefefefefefefefefefefefefefefefe", "fefefefefefefefefefefefefefefefe", "a59bd7823058443e5707a964f9c4480a"),
        ("2bd6459f82c5b300952c49104881ff482bd6459f82c5b300", "ea024714ad5c4d84ea024714ad5c4d84", "827b18c2678a239dfc5512842000e204"),
        ("8000000000000000000000000000000000000000000000000000000000000000", "00000000000000000000000000000000", "a223aa1288463c0e2be38ebd825616c0"),
        ("0000000000000000000000000000000080000000000000000000000000000000", "00000000000000000000000000000000", "c19171490b5595e8555c61b352935deb"),
        ("0000000000000000000000000000000000000000000000000000000000000000", "80000000000000000000000000000000", "8314675e8ad5c3ecd83d852bcf7f566e"),
        ("0000000000000000000000000000000000000000000000000000000000000000", "00000000002000000000000000000000", "a9e22b14d403c7f0fa9d95c064cba9d3"),
        ("fefefefefefefefefefefefefefefefefefefefefefefefefefefefefefefefe", "fefefefefefefefefefefefefefefefe", "cbb014220ea4b36a5b5554140afd721a"),
        ("2bd6459f82c5b300952c49104881ff482bd6459f82c5b300952c49104881ff48", "ea024714ad5c4d84ea024714ad5c4d84", "3e507730776b93fdea661235e1dd99f0"),
    ];
    for (k, p, c) in v {
        let m = Serpent::new(&hx(k));
        let mut b = hx(p);
        m.encrypt(&mut b);
        assert_eq!(b, hx(c), "key {k} pt {p}");
        m.decrypt(&mut b);
        assert_eq!(b, hx(p));
    }
}

/// All NESSIE vectors of /repo/serpent/tests/data/serpent{128,192,256}.blb (key, pt, ct triples in
/// blobby format), if those files are present; skipped (with a note) otherwise.
#[test]
fn serpent_nessie_blb_files() {
    for (name, klen) in [("serpent128", 16usize), ("serpent192", 24), ("serpent256", 32)] {
        let path = format!("/repo/serpent/tests/data/{name}.blb");
        let Ok(data) = std::fs::read(&path) else {
            println!("{path}: not present, skipped");
            continue;
        };
        let blobs = blobby(&data);
        assert_eq!(blobs.len() % 3, 0);
        assert!(blobs.len() >= 3 * 500, "{name}: {} blobs", blobs.len());
        for t in blobs.chunks(3) {
            assert_eq!(t[0].len(), klen);
            let m = Serpent::new(&t[0]);
            let mut b = t[1].clone();
            m.encrypt(&mut b);
            assert_eq!(b, t[2], "{name} key {:02x?}", t[0]);
            m.decrypt(&mut b);
            assert_eq!(b, t[1]);
        }
        println!("{name}.blb: {} vectors ok", blobs.len() / 3);
    }
}

#[test]
fn serpent_unsupported_key_lengths_panic() {
    for n in [0usize, 8, 15, 33, 64] {
        assert!(std::panic::catch_unwind(|| Serpent::new(&vec![0u8; n])).is_err(), "len {n}");
    }
}

/// Timing report (informative; run with --release --nocapture).  Minimum over 5 repetitions.
#[test]
fn serpent_speed() {
    let m = Serpent::new(&[7u8; 32]);
    let mut b = [0u8; 16];
    let n = 20_000;
    let (mut e, mut d, mut s) = (f64::MAX, f64::MAX, f64::MAX);
    let mut acc = 0u8;
    for _ in 0..5 {
        let t = std::time::Instant::now();
        for _ in 0..n {
            m.encrypt(&mut b);
        }
        e = e.min(t.elapsed().as_nanos() as f64 / n as f64);
        let t = std::time::Instant::now();
        for _ in 0..n {
            m.decrypt(&mut b);
        }
        d = d.min(t.elapsed().as_nanos() as f64 / n as f64);
        let t = std::time::Instant::now();
        for i in 0..2_000u32 {
            let mut k = [0u8; 32];
            k[..4].copy_from_slice(&i.to_le_bytes());
            k[4] = b[0];
            acc ^= std::hint::black_box(Serpent::new(&k)).block_size() as u8;
        }
        s = s.min(t.elapsed().as_nanos() as f64 / 2_000.0);
    }
    println!("serpent: encrypt {e:.0} ns/block, decrypt {d:.0} ns/block, key set-up {s:.0} ns ({acc} {b:?})");
}
