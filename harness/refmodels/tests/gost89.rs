//! Validation of the GOST 28147-89 / Magma reference model.
//!
//! Anchors:
//!  * RFC 8891 (GOST R 34.12-2015 Magma) full example for TC26_Z (t, g, key schedule and the
//!    round trace are in the unit tests of src/gost89.rs);
//!  * libgcrypt GCRY_CIPHER_GOST28147 in ECB mode with `GCRYCTL_SET_SBOX` = the parameter-set OID,
//!    for ALL six S-box sets (plus the extra CRYPTOPRO_3411), every key of the key set x every block of the block set, both
//!    directions;
//!  * inverse property on the same set.
//!
//! Byte conventions.  The model uses the Magma convention (big-endian words, block = a1 || a0,
//! key = K1..K8).  libgcrypt uses the original GOST 28147-89 convention (little-endian words,
//! key = X0..X7, block = N1 || N2).  With K_i = X_{i-1}, a0 = N1, a1 = N2 the fixed relation is
//!     key_gcrypt[4w + j] = key_magma[4w + 3 - j]   (reverse the bytes inside each key word),
//!     block_gcrypt[j]    = block_magma[7 - j]      (reverse all 8 bytes), for input and output.
//! `to_gcrypt_key` / `rev_block` implement exactly this and nothing else is tried.
#![cfg(feature = "ffi")]
use refmodels::RefCipher;
use refmodels::ffi::{GCRY_CIPHER_GOST28147, gcrypt_ecb};
use refmodels::gost89::*;

fn hx(s: &str) -> Vec<u8> {
    let s: String = s.chars().filter(|c| !c.is_whitespace()).collect();
    (0..s.len() / 2).map(|i| u8::from_str_radix(&s[2 * i..2 * i + 2], 16).unwrap()).collect()
}

struct SplitMix64(u64);
impl SplitMix64 {
    fn next(&mut self) -> u64 {
        self.0 = self.0.wrapping_add(0x9E37_79B9_7F4A_7C15);
        let mut z = self.0;
        z = (z ^ (z >> 30)).wrapping_mul(0xBF58_476D_1CE4_E5B9);
        z = (z ^ (z >> 27)).wrapping_mul(0x94D0_49BB_1331_11EB);
        z ^ (z >> 31)
    }
    fn bytes(&mut self, n: usize) -> Vec<u8> {
        let mut v = Vec::with_capacity(n + 8);
        while v.len() < n {
            v.extend_from_slice(&self.next().to_le_bytes());
        }
        v.truncate(n);
        v
    }
}

/// all-zero, all-ones, every walking one, every walking zero, byte ramp, `nrand` pseudo-random values
fn input_set(len: usize, nrand: usize, seed: u64) -> Vec<Vec<u8>> {
    let mut v = vec![vec![0u8; len], vec![0xffu8; len]];
    for bit in 0..len * 8 {
        let mut a = vec![0u8; len];
        a[bit / 8] |= 0x80 >> (bit % 8);
        let b: Vec<u8> = a.iter().map(|x| !x).collect();
        v.push(a);
        v.push(b);
    }
    v.push((0..len).map(|i| i as u8).collect());
    let mut rng = SplitMix64(seed);
    for _ in 0..nrand {
        v.push(rng.bytes(len));
    }
    v
}

/// Magma key -> GOST 28147-89 (libgcrypt) key: reverse bytes inside each 32-bit word.
fn to_gcrypt_key(k: &[u8]) -> Vec<u8> {
    assert_eq!(k.len(), 32);
    let mut o = vec![0u8; 32];
    for w in 0..8 {
        for j in 0..4 {
            o[4 * w + j] = k[4 * w + 3 - j];
        }
    }
    o
}

/// Magma block(s) <-> GOST 28147-89 (libgcrypt) block(s): reverse all 8 bytes of each block.
fn rev_blocks(d: &[u8]) -> Vec<u8> {
    assert_eq!(d.len() % 8, 0);
    let mut o = Vec::with_capacity(d.len());
    for b in d.chunks(8) {
        o.extend(b.iter().rev());
    }
    o
}

const SETS: [(&str, &SboxSet, &str); 7] = [
    ("TC26_Z", &TC26_Z, "1.2.643.7.1.2.5.1.1"),
    ("TEST_3411", &TEST_3411, "1.2.643.2.2.30.0"),
    ("CRYPTOPRO_A", &CRYPTOPRO_A, "1.2.643.2.2.31.1"),
    ("CRYPTOPRO_B", &CRYPTOPRO_B, "1.2.643.2.2.31.2"),
    ("CRYPTOPRO_C", &CRYPTOPRO_C, "1.2.643.2.2.31.3"),
    ("CRYPTOPRO_D", &CRYPTOPRO_D, "1.2.643.2.2.31.4"),
    ("CRYPTOPRO_3411", &CRYPTOPRO_3411, "1.2.643.2.2.30.1"),
];

/// FINDING.  The table that /repo/magma/src/sboxes.rs calls `CryptoProD` (copied here verbatim) is not
/// id-Gost28147-89-CryptoPro-D-ParamSet: libgcrypt with OID 1.2.643.2.2.31.4 disagrees with it, while
/// libgcrypt with OID 1.2.643.2.2.30.1 (id-GostR3411-94-CryptoProParamSet) agrees with it; the same
/// table is exported by nettle under the symbol `_nettle_gost28147_param_CryptoPro_3411`.
#[test]
fn repo_magma_cryptoprod_is_the_3411_cryptopro_set() {
    const REPO_MAGMA_CRYPTOPRO_D: SboxSet = [
        [10, 4, 5, 6, 8, 1, 3, 7, 13, 12, 14, 0, 9, 2, 11, 15],
        [5, 15, 4, 0, 2, 13, 11, 9, 1, 7, 6, 3, 12, 14, 10, 8],
        [7, 15, 12, 14, 9, 4, 1, 0, 3, 11, 5, 2, 6, 10, 8, 13],
        [4, 10, 7, 12, 0, 15, 2, 8, 14, 1, 6, 5, 13, 11, 9, 3],
        [7, 6, 4, 11, 9, 12, 2, 10, 1, 8, 0, 14, 15, 13, 3, 5],
        [7, 6, 2, 4, 13, 9, 15, 0, 10, 1, 5, 11, 8, 14, 12, 3],
        [13, 14, 4, 1, 7, 0, 5, 10, 3, 12, 8, 15, 6, 2, 9, 11],
        [1, 3, 10, 9, 5, 11, 4, 15, 8, 6, 7, 14, 13, 0, 2, 12],
    ];
    assert_eq!(REPO_MAGMA_CRYPTOPRO_D, CRYPTOPRO_3411);
    assert_ne!(REPO_MAGMA_CRYPTOPRO_D, CRYPTOPRO_D);
    let key: Vec<u8> = (0..32u8).collect();
    let pt = [0x10u8, 0x32, 0x54, 0x76, 0x98, 0xba, 0xdc, 0xfe];
    let mut m = pt;
    Gost89::new(&key, &REPO_MAGMA_CRYPTOPRO_D).encrypt(&mut m);
    let d = rev_blocks(&gcrypt_ecb(GCRY_CIPHER_GOST28147, &to_gcrypt_key(&key), Some("1.2.643.2.2.31.4"), true, &rev_blocks(&pt)).unwrap());
    let h = rev_blocks(&gcrypt_ecb(GCRY_CIPHER_GOST28147, &to_gcrypt_key(&key), Some("1.2.643.2.2.30.1"), true, &rev_blocks(&pt)).unwrap());
    assert_ne!(&m[..], &d[..]);
    assert_eq!(&m[..], &h[..]);
}

#[test]
fn rfc8891_example() {
    let key = hx("ffeeddccbbaa99887766554433221100f0f1f2f3f4f5f6f7f8f9fafbfcfdfeff");
    let pt = hx("fedcba9876543210");
    let ct = hx("4ee901e5c2d8ca3d");
    let c = Gost89::new(&key, &TC26_Z);
    assert_eq!(c.block_size(), 8);
    let mut b = pt.clone();
    c.encrypt(&mut b);
    assert_eq!(b, ct);
    c.decrypt(&mut b);
    assert_eq!(b, pt);
    // the same vector through libgcrypt with the documented permutation
    let g = gcrypt_ecb(GCRY_CIPHER_GOST28147, &to_gcrypt_key(&key), Some("1.2.643.7.1.2.5.1.1"), true, &rev_blocks(&pt)).unwrap();
    assert_eq!(rev_blocks(&g), ct);
    // ... and NOT without it (the permutation is not vacuous)
    let g = gcrypt_ecb(GCRY_CIPHER_GOST28147, &key, Some("1.2.643.7.1.2.5.1.1"), true, &pt).unwrap();
    assert_ne!(g, ct);
    let krev: Vec<u8> = key.iter().rev().cloned().collect();
    let g = gcrypt_ecb(GCRY_CIPHER_GOST28147, &krev, Some("1.2.643.7.1.2.5.1.1"), true, &rev_blocks(&pt)).unwrap();
    assert_ne!(rev_blocks(&g), ct);
}

#[test]
#[should_panic]
fn bad_key_length_panics() {
    let _ = Gost89::new(&[0u8; 31], &TC26_Z);
}

/// All OIDs are accepted by libgcrypt, an unknown OID is rejected, and the six parameter sets
/// are pairwise different ciphers (so a mix-up of OIDs would be detected by the comparison below).
#[test]
fn oids_accepted_and_sets_distinct() {
    let key: Vec<u8> = (0..32u8).collect();
    let mut outs = Vec::new();
    for (name, _, oid) in SETS {
        let r = gcrypt_ecb(GCRY_CIPHER_GOST28147, &key, Some(oid), true, &[0u8; 8]);
        assert!(r.is_ok(), "libgcrypt rejected OID {oid} ({name}): {r:?}");
        outs.push(r.unwrap());
    }
    for i in 0..outs.len() {
        for j in 0..i {
            assert_ne!(outs[i], outs[j], "{} vs {}", SETS[i].0, SETS[j].0);
        }
    }
    assert!(gcrypt_ecb(GCRY_CIPHER_GOST28147, &key, Some("1.2.643.2.2.31.99"), true, &[0u8; 8]).is_err());
}

/// Model == libgcrypt for every S-box set, every key x every block of the input set, both directions;
/// plus decrypt(encrypt(x)) == x.
#[test]
fn all_sets_against_libgcrypt() {
    let keys = input_set(32, 64, 0x676f7374_38390001);
    let blocks = input_set(8, 64, 0x676f7374_38390002);
    assert_eq!(keys.len(), 2 + 512 + 1 + 64);
    assert_eq!(blocks.len(), 2 + 128 + 1 + 64);
    let flat: Vec<u8> = blocks.iter().flatten().cloned().collect();
    let flat_g = rev_blocks(&flat);
    for (name, set, oid) in SETS {
        let mut n = 0usize;
        for k in &keys {
            let c = Gost89::new(k, set);
            let gk = to_gcrypt_key(k);
            let ge = rev_blocks(&gcrypt_ecb(GCRY_CIPHER_GOST28147, &gk, Some(oid), true, &flat_g).unwrap());
            let gd = rev_blocks(&gcrypt_ecb(GCRY_CIPHER_GOST28147, &gk, Some(oid), false, &flat_g).unwrap());
            for (i, b) in blocks.iter().enumerate() {
                let mut e = b.clone();
                c.encrypt(&mut e);
                assert_eq!(&e[..], &ge[8 * i..8 * i + 8], "{name} enc key {k:02x?} block {b:02x?}");
                let mut d = b.clone();
                c.decrypt(&mut d);
                assert_eq!(&d[..], &gd[8 * i..8 * i + 8], "{name} dec key {k:02x?} block {b:02x?}");
                c.decrypt(&mut e);
                assert_eq!(&e, b);
                c.encrypt(&mut d);
                assert_eq!(&d, b);
                n += 1;
            }
        }
        println!("gost89 {name} ({oid}): {n} (key, block) pairs x enc+dec identical to libgcrypt");
    }
}

/// A caller-supplied (non-standard) S-box set works too: identity rows give a different cipher
/// that still inverts.
#[test]
fn custom_sbox_set() {
    let mut id = [[0u8; 16]; 8];
    for r in id.iter_mut() {
        for (i, v) in r.iter_mut().enumerate() {
            *v = i as u8;
        }
    }
    let key: Vec<u8> = (0..32u8).collect();
    let a = Gost89::new(&key, &id);
    let z = Gost89::new(&key, &TC26_Z);
    let mut x = [1u8, 2, 3, 4, 5, 6, 7, 8];
    let mut y = x;
    a.encrypt(&mut x);
    z.encrypt(&mut y);
    assert_ne!(x, y);
    a.decrypt(&mut x);
    assert_eq!(x, [1u8, 2, 3, 4, 5, 6, 7, 8]);
}

#[test]
fn timing() {
    let c = Gost89::new(&[7u8; 32], &CRYPTOPRO_A);
    let mut b = [1u8; 8];
    let n = 100000;
    let t = std::time::Instant::now();
    for _ in 0..n {
        c.encrypt(&mut b);
    }
    let e = t.elapsed().as_nanos() as f64 / n as f64;
    let t = std::time::Instant::now();
    for _ in 0..n {
        c.decrypt(&mut b);
    }
    let d = t.elapsed().as_nanos() as f64 / n as f64;
    println!("gost89: encrypt {e:.0} ns/block, decrypt {d:.0} ns/block ({})", b[0]);
}
