use cipher::consts::*;
use cipher::{BlockCipherDecrypt, BlockCipherEncrypt, BlockSizeUser, KeyInit};
use cipher::typenum::Unsigned;

fn hex(b: &[u8]) -> String {
    b.iter().map(|x| format!("{x:02x}")).collect()
}
fn bytes(n: usize, v: u8) -> Vec<u8> {
    (0..n).map(|i| (i as u8).wrapping_mul(0x3D).wrapping_add(v).rotate_left((i % 7) as u32)).collect()
}

fn go<T: KeyInit + BlockCipherEncrypt + BlockCipherDecrypt>(name: &str, klens: &[usize]) {
    let bs = <T as BlockSizeUser>::BlockSize::USIZE;
    for &kl in klens {
        for kv in [0x11u8, 0xE6] {
            let key = bytes(kl, kv);
            let c = T::new_from_slice(&key).unwrap();
            for n in [1usize, 5] {
                let mut blocks: Vec<cipher::Block<T>> = (0..n).map(|j| cipher::Block::<T>::try_from(&bytes(bs, kv ^ (j as u8 * 29))[..]).unwrap()).collect();
                c.encrypt_blocks(&mut blocks);
                println!("{name} k{kl}/{kv:02x} enc n{n} {}", blocks.iter().map(|b| hex(b)).collect::<Vec<_>>().join(","));
                let mut blocks: Vec<cipher::Block<T>> = (0..n).map(|j| cipher::Block::<T>::try_from(&bytes(bs, kv ^ 0x55 ^ (j as u8 * 31))[..]).unwrap()).collect();
                c.decrypt_blocks(&mut blocks);
                println!("{name} k{kl}/{kv:02x} dec n{n} {}", blocks.iter().map(|b| hex(b)).collect::<Vec<_>>().join(","));
            }
        }
    }
}

fn main() {
    go::<aes::Aes128>("Aes128", &[16]);
    go::<aes::Aes192>("Aes192", &[24]);
    go::<aes::Aes256>("Aes256", &[32]);
    go::<aria::Aria128>("Aria128", &[16]);
    go::<aria::Aria192>("Aria192", &[24]);
    go::<aria::Aria256>("Aria256", &[32]);
    go::<belt_block::BeltBlock>("BeltBlock", &[32]);
    go::<blowfish::Blowfish>("Blowfish", &[4, 17, 56]);
    go::<blowfish::BlowfishLE>("BlowfishLE", &[4, 17, 56]);
    go::<camellia::Camellia128>("Camellia128", &[16]);
    go::<camellia::Camellia192>("Camellia192", &[24]);
    go::<camellia::Camellia256>("Camellia256", &[32]);
    go::<cast5::Cast5>("Cast5", &[5, 11, 16]);
    go::<cast6::Cast6>("Cast6", &[16, 20, 32]);
    go::<des::Des>("Des", &[8]);
    go::<des::TdesEde2>("TdesEde2", &[16]);
    go::<des::TdesEde3>("TdesEde3", &[24]);
    go::<des::TdesEee2>("TdesEee2", &[16]);
    go::<des::TdesEee3>("TdesEee3", &[24]);
    go::<gift_cipher::Gift128>("Gift128", &[16]);
    go::<idea::Idea>("Idea", &[16]);
    go::<kuznyechik::Kuznyechik>("Kuznyechik", &[32]);
    go::<magma::Magma>("Magma", &[32]);
    go::<magma::Gost89CryptoProA>("Gost89CryptoProA", &[32]);
    go::<rc2::Rc2>("Rc2", &[1, 33, 128]);
    go::<rc5::RC5<u8, U12, U4>>("RC5-8/12/4", &[4]);
    go::<rc5::RC5<u16, U16, U8>>("RC5-16/16/8", &[8]);
    go::<rc5::RC5<u32, U12, U17>>("RC5-32/12/17", &[17]);
    go::<rc5::RC5<u64, U24, U24>>("RC5-64/24/24", &[24]);
    go::<rc5::RC5<u128, U28, U32>>("RC5-128/28/32", &[32]);
    go::<serpent::Serpent>("Serpent", &[16, 19, 32]);
    go::<sm4::Sm4>("Sm4", &[16]);
    go::<speck_cipher::Speck32_64>("Speck32_64", &[8]);
    go::<speck_cipher::Speck48_72>("Speck48_72", &[9]);
    go::<speck_cipher::Speck48_96>("Speck48_96", &[12]);
    go::<speck_cipher::Speck64_96>("Speck64_96", &[12]);
    go::<speck_cipher::Speck64_128>("Speck64_128", &[16]);
    go::<speck_cipher::Speck96_96>("Speck96_96", &[12]);
    go::<speck_cipher::Speck96_144>("Speck96_144", &[18]);
    go::<speck_cipher::Speck128_128>("Speck128_128", &[16]);
    go::<speck_cipher::Speck128_192>("Speck128_192", &[24]);
    go::<speck_cipher::Speck128_256>("Speck128_256", &[32]);
    go::<threefish::Threefish256>("Threefish256", &[32]);
    go::<threefish::Threefish512>("Threefish512", &[64]);
    go::<threefish::Threefish1024>("Threefish1024", &[128]);
    go::<twofish::Twofish>("Twofish", &[16, 24, 32]);
    go::<xtea::Xtea>("Xtea", &[16]);
    // non-trait entry points
    let mut d = bytes(53, 3);
    belt_block::belt_wblock_enc(&mut d, &[1, 2, 3, 4, 5, 6, 7, 0x89ABCDEF]).unwrap();
    println!("belt_wblock_enc 53 {}", hex(&d));
    let mut b = aes::Block::try_from(&bytes(16, 9)[..]).unwrap();
    aes::hazmat::cipher_round(&mut b, &aes::Block::try_from(&bytes(16, 77)[..]).unwrap());
    println!("hazmat::cipher_round {}", hex(&b));
    let mut st = blowfish::Blowfish::bc_init_state();
    st.salted_expand_key(&bytes(5, 1), &bytes(9, 2));
    println!("salted_expand_key {:08x?}", st.bc_encrypt([1, 2]));
    let t = threefish::Threefish256::new_with_tweak(&bytes(32, 5).try_into().unwrap(), &bytes(16, 6).try_into().unwrap());
    let mut w = [1u64, 2, 3, 4];
    t.encrypt_block_u64(&mut w);
    println!("threefish256 tweak u64 {:016x?}", w);
    println!("rc2 eff {:02x?}", {
        let c = rc2::Rc2::new_with_eff_key_len(&bytes(7, 8), 41);
        let mut b = cipher::Block::<rc2::Rc2>::default();
        c.encrypt_block(&mut b);
        b
    });
}
