pub use vcore::{alphabet, report};
pub mod props;
pub mod subjects;
pub mod refmap;
pub mod special;
