pub mod alphabet;
pub mod rc5grid;
pub mod subjects;
