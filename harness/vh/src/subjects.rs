//! Registry of every public cipher type (DESIGN §2.1).  Subjects are driven through the public API only.
pub use vcore::subjects::*;
use cipher::KeyInit;

macro_rules! full {
    ($v:ident, $t:ty, $name:expr, $krate:expr, $lens:expr, $names:expr) => {
        $v.push(Box::new(Gen::<$t> {
            meta: Meta { name: $name, krate: $krate, lens: || $lens, names: $names },
            e: &EncYes,
            d: &DecYes,
            c: &CloneYes,
            g: &DbgYes,
            caps: CAPS_FULL,
            v: None,
            name_override: None,
            conv: None,
        }));
    };
}
macro_rules! full_noclone {
    ($v:ident, $t:ty, $name:expr, $krate:expr, $lens:expr, $names:expr) => {
        $v.push(Box::new(Gen::<$t> {
            meta: Meta { name: $name, krate: $krate, lens: || $lens, names: $names },
            e: &EncYes,
            d: &DecYes,
            c: &CloneNo,
            g: &DbgYes,
            caps: Caps { enc: true, dec: true, clone: false },
            v: None,
            name_override: None,
            conv: None,
        }));
    };
}

macro_rules! full_nodebug {
    ($v:ident, $t:ty, $name:expr, $krate:expr, $lens:expr, $names:expr) => {
        $v.push(Box::new(Gen::<$t> {
            meta: Meta { name: $name, krate: $krate, lens: || $lens, names: $names },
            e: &EncYes,
            d: &DecYes,
            c: &CloneYes,
            g: &DbgNo,
            caps: CAPS_FULL,
            v: None,
            name_override: None,
            conv: None,
        }));
    };
}

macro_rules! triple {
    ($v:ident, $krate:expr, $full:ty, $enc:ty, $dec:ty, $nfull:expr, $nenc:expr, $ndec:expr, $len:expr, $sfx:expr) => {
        $v.push(Box::new(Gen::<$full> {
            meta: Meta { name: concat!($nfull, $sfx), krate: $krate, lens: || vec![$len], names: &[$nfull] },
            e: &EncYes,
            d: &DecYes,
            c: &CloneYes,
            g: &DbgYes,
            caps: CAPS_FULL,
            v: None,
            name_override: None,
            conv: Some((
                concat!($nenc, $sfx),
                |k| <$full>::from(<$enc>::new(&key_of::<$enc>(k))),
                |k| {
                    let e = <$enc>::new(&key_of::<$enc>(k));
                    let r = <$full>::from(&e);
                    drop(e);
                    r
                },
            )),
        }));
        $v.push(Box::new(Gen::<$enc> {
            meta: Meta { name: concat!($nenc, $sfx), krate: $krate, lens: || vec![$len], names: &[$nenc] },
            e: &EncYes,
            d: &DecNo,
            c: &CloneYes,
            g: &DbgYes,
            caps: Caps { enc: true, dec: false, clone: true },
            v: Some(&ConvFns::<$enc> {
                full_ref: |e| Box::new(Wrap::<$full> { t: <$full>::from(e), e: &EncYes, d: &DecYes, c: &CloneYes, g: &DbgYes, v: None }),
                dec_ref: |e| Box::new(Wrap::<$dec> { t: <$dec>::from(e), e: &EncNo, d: &DecYes, c: &CloneYes, g: &DbgYes, v: None }),
                full_val: |e| Box::new(Wrap::<$full> { t: <$full>::from(e), e: &EncYes, d: &DecYes, c: &CloneYes, g: &DbgYes, v: None }),
                dec_val: |e| Box::new(Wrap::<$dec> { t: <$dec>::from(e), e: &EncNo, d: &DecYes, c: &CloneYes, g: &DbgYes, v: None }),
            }),
            name_override: None,
            conv: None,
        }));
        $v.push(Box::new(Gen::<$dec> {
            meta: Meta { name: concat!($ndec, $sfx), krate: $krate, lens: || vec![$len], names: &[$ndec] },
            e: &EncNo,
            d: &DecYes,
            c: &CloneYes,
            g: &DbgYes,
            caps: Caps { enc: false, dec: true, clone: true },
            v: None,
            name_override: None,
            conv: Some((
                concat!($nenc, $sfx),
                |k| <$dec>::from(<$enc>::new(&key_of::<$enc>(k))),
                |k| {
                    let e = <$enc>::new(&key_of::<$enc>(k));
                    let r = <$dec>::from(&e);
                    drop(e);
                    r
                },
            )),
        }));
    };
}

// ---------------------------------------------------------------------------------------------
// harness-defined GOST S-box sets (C07: "any user-supplied set of eight 4-bit substitution tables")

pub mod user_sboxes {
    use magma::Sbox;
    pub type Small = [[u8; 16]; 8];

    const fn identity() -> Small {
        let mut s = [[0u8; 16]; 8];
        let mut i = 0;
        while i < 8 {
            let mut j = 0;
            while j < 16 {
                s[i][j] = j as u8;
                j += 1;
            }
            i += 1;
        }
        s
    }
    const fn reversal() -> Small {
        let mut s = [[0u8; 16]; 8];
        let mut i = 0;
        while i < 8 {
            let mut j = 0;
            while j < 16 {
                s[i][j] = 15 - j as u8;
                j += 1;
            }
            i += 1;
        }
        s
    }
    /// row i adds (2i+1) mod 16: every row a different permutation
    const fn row_rot() -> Small {
        let mut s = [[0u8; 16]; 8];
        let mut i = 0;
        while i < 8 {
            let mut j = 0;
            while j < 16 {
                s[i][j] = ((j + 2 * i + 1) % 16) as u8;
                j += 1;
            }
            i += 1;
        }
        s
    }
    /// row i multiplies by an odd constant and adds i (dense permutations, all rows different)
    const fn affine() -> Small {
        let mults = [3usize, 5, 7, 9, 11, 13, 15, 1];
        let mut s = [[0u8; 16]; 8];
        let mut i = 0;
        while i < 8 {
            let mut j = 0;
            while j < 16 {
                s[i][j] = ((j * mults[i] + 3 * i + 2) % 16) as u8;
                j += 1;
            }
            i += 1;
        }
        s
    }
    /// Tc26 with row pairs swapped (2i <-> 2i+1)
    const fn tc26_swapped() -> Small {
        let t = <magma::Magma as HasSbox>::SB;
        let mut s = [[0u8; 16]; 8];
        let mut i = 0;
        while i < 8 {
            s[i] = t[i ^ 1];
            i += 1;
        }
        s
    }
    /// Tc26 rows in reverse order
    const fn tc26_reversed() -> Small {
        let t = <magma::Magma as HasSbox>::SB;
        let mut s = [[0u8; 16]; 8];
        let mut i = 0;
        while i < 8 {
            s[i] = t[7 - i];
            i += 1;
        }
        s
    }
    /// only row r is non-identity (r = 0 and r = 7): makes row/nibble/shift mix-ups visible
    const fn single_row(r: usize) -> Small {
        let mut s = identity();
        let mut j = 0;
        while j < 16 {
            s[r][j] = ((j * 7 + 5) % 16) as u8;
            j += 1;
        }
        s
    }

    pub trait HasSbox {
        const SB: Small;
    }
    impl HasSbox for magma::Magma {
        // frozen copy of the Tc26 set as published in GOST R 34.12-2015 (id-tc26-gost-28147-param-Z)
        const SB: Small = [
            [12, 4, 6, 2, 10, 5, 11, 9, 14, 8, 13, 7, 0, 3, 15, 1],
            [6, 8, 2, 3, 9, 10, 5, 12, 1, 14, 4, 7, 11, 13, 0, 15],
            [11, 3, 5, 8, 2, 15, 10, 13, 14, 1, 7, 4, 12, 9, 6, 0],
            [12, 8, 2, 1, 13, 4, 15, 6, 7, 0, 10, 5, 3, 14, 9, 11],
            [7, 15, 5, 10, 8, 1, 6, 13, 0, 9, 3, 14, 11, 4, 2, 12],
            [5, 13, 15, 6, 9, 2, 12, 10, 11, 7, 8, 1, 4, 3, 14, 0],
            [8, 14, 2, 5, 6, 9, 1, 12, 15, 4, 11, 0, 13, 10, 3, 7],
            [1, 7, 14, 13, 0, 5, 8, 3, 4, 15, 10, 6, 9, 12, 11, 2],
        ];
    }

    macro_rules! user_sbox {
        ($id:ident, $name:expr, $tab:expr) => {
            pub enum $id {}
            impl Sbox for $id {
                const NAME: &'static str = $name;
                const SBOX: Small = $tab;
            }
        };
    }
    user_sbox!(UIdentity, "UIdentity", identity());
    user_sbox!(UReversal, "UReversal", reversal());
    user_sbox!(URowRot, "URowRot", row_rot());
    user_sbox!(UAffine, "UAffine", affine());
    user_sbox!(UTc26Swapped, "UTc26Swapped", tc26_swapped());
    user_sbox!(UTc26Reversed, "UTc26Reversed", tc26_reversed());
    user_sbox!(USingleRow0, "USingleRow0", single_row(0));
    user_sbox!(USingleRow7, "USingleRow7", single_row(7));

    pub fn table(name: &str) -> Option<Small> {
        Some(match name {
            "UIdentity" => identity(),
            "UReversal" => reversal(),
            "URowRot" => row_rot(),
            "UAffine" => affine(),
            "UTc26Swapped" => tc26_swapped(),
            "UTc26Reversed" => tc26_reversed(),
            "USingleRow0" => single_row(0),
            "USingleRow7" => single_row(7),
            _ => return None,
        })
    }
}

// ---------------------------------------------------------------------------------------------
// the registry

pub fn range(a: usize, b: usize) -> Vec<usize> {
    (a..=b).collect()
}

/// Subjects whose code depends on the build configuration (cfg flags / CPU detection).
pub fn sensitive_subjects() -> Vec<Box<dyn Subject>> {
    let mut v: Vec<Box<dyn Subject>> = Vec::new();
    shadow_subjects(&mut v);
    triple!(v, "aes", aes::Aes128, aes::Aes128Enc, aes::Aes128Dec, "Aes128", "Aes128Enc", "Aes128Dec", 16, "");
    triple!(v, "aes", aes::Aes192, aes::Aes192Enc, aes::Aes192Dec, "Aes192", "Aes192Enc", "Aes192Dec", 24, "");
    triple!(v, "aes", aes::Aes256, aes::Aes256Enc, aes::Aes256Dec, "Aes256", "Aes256Enc", "Aes256Dec", 32, "");
    triple!(
        v,
        "kuznyechik",
        kuznyechik::Kuznyechik,
        kuznyechik::KuznyechikEnc,
        kuznyechik::KuznyechikDec,
        "Kuznyechik",
        "KuznyechikEnc",
        "KuznyechikDec",
        32,
        ""
    );
    full!(v, serpent::Serpent, "Serpent", "serpent", range(16, 32), &["Serpent"]);
    v
}

/// Shadow builds of code that is not native to this host (DESIGN §2.2): ARMv8 AES over the intrinsic model,
/// 32-bit fixslice AES, NEON Kuznyechik over the intrinsic model.  Subject names carry an `@variant` suffix.
fn shadow_subjects(v: &mut Vec<Box<dyn Subject>>) {
    #[cfg(not(aes_force_soft))]
    {
        triple!(v, "aes", aes_armv8::Aes128, aes_armv8::Aes128Enc, aes_armv8::Aes128Dec, "Aes128", "Aes128Enc", "Aes128Dec", 16, "@armv8");
        triple!(v, "aes", aes_armv8::Aes192, aes_armv8::Aes192Enc, aes_armv8::Aes192Dec, "Aes192", "Aes192Enc", "Aes192Dec", 24, "@armv8");
        triple!(v, "aes", aes_armv8::Aes256, aes_armv8::Aes256Enc, aes_armv8::Aes256Dec, "Aes256", "Aes256Enc", "Aes256Dec", 32, "@armv8");
    }
    triple!(v, "aes", aes_fs32::Aes128, aes_fs32::Aes128Enc, aes_fs32::Aes128Dec, "Aes128", "Aes128Enc", "Aes128Dec", 16, "@fs32");
    triple!(v, "aes", aes_fs32::Aes192, aes_fs32::Aes192Enc, aes_fs32::Aes192Dec, "Aes192", "Aes192Enc", "Aes192Dec", 24, "@fs32");
    triple!(v, "aes", aes_fs32::Aes256, aes_fs32::Aes256Enc, aes_fs32::Aes256Dec, "Aes256", "Aes256Enc", "Aes256Dec", 32, "@fs32");
    #[cfg(not(any(kuznyechik_backend = "soft", kuznyechik_backend = "compact_soft")))]
    {
        triple!(v, "kuznyechik", kuz_neon::Kuznyechik, kuz_neon::KuznyechikEnc, kuz_neon::KuznyechikDec, "Kuznyechik", "KuznyechikEnc", "KuznyechikDec", 32, "@neon");
    }
}

#[cfg(not(feature = "lite"))]
pub fn other_subjects() -> Vec<Box<dyn Subject>> {
    let mut v: Vec<Box<dyn Subject>> = Vec::new();
    full!(v, aria::Aria128, "Aria128", "aria", vec![16], &["Aria128"]);
    full!(v, aria::Aria192, "Aria192", "aria", vec![24], &["Aria192"]);
    full!(v, aria::Aria256, "Aria256", "aria", vec![32], &["Aria256"]);
    full_nodebug!(v, belt_block::BeltBlock, "BeltBlock", "belt-block", vec![32], &["BeltBlock"]);
    full!(v, blowfish::Blowfish, "Blowfish", "blowfish", range(4, 56), &["Blowfish", "Blowfish<BE>"]);
    full!(v, blowfish::BlowfishLE, "BlowfishLE", "blowfish", range(4, 56), &["BlowfishLE", "Blowfish<LE>"]);
    full!(v, camellia::Camellia128, "Camellia128", "camellia", vec![16], &["Camellia128"]);
    full!(v, camellia::Camellia192, "Camellia192", "camellia", vec![24], &["Camellia192"]);
    full!(v, camellia::Camellia256, "Camellia256", "camellia", vec![32], &["Camellia256"]);
    full!(v, cast5::Cast5, "Cast5", "cast5", range(5, 16), &["Cast5"]);
    full!(v, cast6::Cast6, "Cast6", "cast6", vec![16, 20, 24, 28, 32], &["Cast6"]);
    full!(v, des::Des, "Des", "des", vec![8], &["Des"]);
    full!(v, des::TdesEde2, "TdesEde2", "des", vec![16], &["TdesEde2"]);
    full!(v, des::TdesEde3, "TdesEde3", "des", vec![24], &["TdesEde3"]);
    full!(v, des::TdesEee2, "TdesEee2", "des", vec![16], &["TdesEee2"]);
    full!(v, des::TdesEee3, "TdesEee3", "des", vec![24], &["TdesEee3"]);
    full!(v, gift_cipher::Gift128, "Gift128", "gift-cipher", vec![16], &["Gift128"]);
    full!(v, idea::Idea, "Idea", "idea", vec![16], &["Idea"]);
    full!(v, magma::Magma, "Magma", "magma", vec![32], &["Magma", "Gost89<Tc26>"]);
    full!(v, magma::Gost89Test, "Gost89Test", "magma", vec![32], &["Gost89Test", "Gost89<TestSbox>"]);
    full!(v, magma::Gost89CryptoProA, "Gost89CryptoProA", "magma", vec![32], &["Gost89CryptoProA", "Gost89<CryptoProA>"]);
    full!(v, magma::Gost89CryptoProB, "Gost89CryptoProB", "magma", vec![32], &["Gost89CryptoProB", "Gost89<CryptoProB>"]);
    full!(v, magma::Gost89CryptoProC, "Gost89CryptoProC", "magma", vec![32], &["Gost89CryptoProC", "Gost89<CryptoProC>"]);
    full!(v, magma::Gost89CryptoProD, "Gost89CryptoProD", "magma", vec![32], &["Gost89CryptoProD", "Gost89<CryptoProD>"]);
    {
        use user_sboxes::*;
        full!(v, magma::Gost89<UIdentity>, "Gost89<UIdentity>", "magma", vec![32], &["Gost89<UIdentity>"]);
        full!(v, magma::Gost89<UReversal>, "Gost89<UReversal>", "magma", vec![32], &["Gost89<UReversal>"]);
        full!(v, magma::Gost89<URowRot>, "Gost89<URowRot>", "magma", vec![32], &["Gost89<URowRot>"]);
        full!(v, magma::Gost89<UAffine>, "Gost89<UAffine>", "magma", vec![32], &["Gost89<UAffine>"]);
        full!(v, magma::Gost89<UTc26Swapped>, "Gost89<UTc26Swapped>", "magma", vec![32], &["Gost89<UTc26Swapped>"]);
        full!(v, magma::Gost89<UTc26Reversed>, "Gost89<UTc26Reversed>", "magma", vec![32], &["Gost89<UTc26Reversed>"]);
        full!(v, magma::Gost89<USingleRow0>, "Gost89<USingleRow0>", "magma", vec![32], &["Gost89<USingleRow0>"]);
        full!(v, magma::Gost89<USingleRow7>, "Gost89<USingleRow7>", "magma", vec![32], &["Gost89<USingleRow7>"]);
    }
    full!(v, rc2::Rc2, "Rc2", "rc2", range(1, 128), &["Rc2"]);
    full!(v, sm4::Sm4, "Sm4", "sm4", vec![16], &["Sm4"]);
    full!(v, speck_cipher::Speck32_64, "Speck32_64", "speck-cipher", vec![8], &["Speck32_64"]);
    full!(v, speck_cipher::Speck48_72, "Speck48_72", "speck-cipher", vec![9], &["Speck48_72"]);
    full!(v, speck_cipher::Speck48_96, "Speck48_96", "speck-cipher", vec![12], &["Speck48_96"]);
    full!(v, speck_cipher::Speck64_96, "Speck64_96", "speck-cipher", vec![12], &["Speck64_96"]);
    full!(v, speck_cipher::Speck64_128, "Speck64_128", "speck-cipher", vec![16], &["Speck64_128"]);
    full!(v, speck_cipher::Speck96_96, "Speck96_96", "speck-cipher", vec![12], &["Speck96_96"]);
    full!(v, speck_cipher::Speck96_144, "Speck96_144", "speck-cipher", vec![18], &["Speck96_144"]);
    full!(v, speck_cipher::Speck128_128, "Speck128_128", "speck-cipher", vec![16], &["Speck128_128"]);
    full!(v, speck_cipher::Speck128_192, "Speck128_192", "speck-cipher", vec![24], &["Speck128_192"]);
    full!(v, speck_cipher::Speck128_256, "Speck128_256", "speck-cipher", vec![32], &["Speck128_256"]);
    full!(v, threefish::Threefish256, "Threefish256", "threefish", vec![32], &["Threefish256"]);
    full!(v, threefish::Threefish512, "Threefish512", "threefish", vec![64], &["Threefish512"]);
    full!(v, threefish::Threefish1024, "Threefish1024", "threefish", vec![128], &["Threefish1024"]);
    full!(v, twofish::Twofish, "Twofish", "twofish", vec![16, 24, 32], &["Twofish"]);
    full_noclone!(v, xtea::Xtea, "Xtea", "xtea", vec![16], &["Xtea"]);
    v
}
#[cfg(feature = "lite")]
pub fn other_subjects() -> Vec<Box<dyn Subject>> {
    Vec::new()
}

pub fn base_subjects() -> Vec<Box<dyn Subject>> {
    let mut v = sensitive_subjects();
    v.extend(other_subjects());
    v
}

pub fn all_subjects() -> Vec<Box<dyn Subject>> {
    #[allow(unused_mut)]
    let mut v = base_subjects();
    #[cfg(not(feature = "lite"))]
    v.extend(subj_rc5::rc5_subjects());
    v
}

pub fn find(name: &str) -> Option<Box<dyn Subject>> {
    all_subjects().into_iter().find(|s| s.name() == name)
}
