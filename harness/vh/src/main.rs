use std::time::Instant;
use vh::alphabet::Tier;
use vh::props::{self, Ctx};
use vh::report::{Report, quiet_panics};

fn arg(args: &[String], name: &str) -> Option<String> {
    args.iter().position(|a| a == name).and_then(|i| args.get(i + 1).cloned())
}

fn main() {
    let args: Vec<String> = std::env::args().collect();
    if args.len() < 2 {
        eprintln!("usage: xplore run <PROP> --tier quick|thorough --config NAME --out FILE [--only SUBSTR]\n       xplore replay <FILE>\n       xplore list");
        std::process::exit(2);
    }
    // detection override is installed before the first use of any cipher
    match std::env::var("VERIF_DETECT").as_deref() {
        Ok("off") => cpufeatures::__seam::set_override(Some(false)),
        _ => {}
    }
    match args[1].as_str() {
        "list" => {
            for s in vh::subjects::all_subjects() {
                println!("{} {} bs={} keysize={} lens={:?} size_of={} alg={:?}", s.krate(), s.name(), s.bs(), s.key_size(), s.key_lens(), s.size_of(), s.alg_name());
            }
        }
        "run" => {
            quiet_panics();
            let prop = args[2].clone();
            let tier = match arg(&args, "--tier").as_deref() {
                Some("thorough") => Tier::Thorough,
                _ => Tier::Quick,
            };
            let config = arg(&args, "--config").unwrap_or_else(|| "N0".into());
            let ctx = Ctx { tier, config: config.clone(), only: arg(&args, "--only"), crates: arg(&args, "--crates").map(|c| c.split(',').map(|x| x.to_string()).collect()) };
            let t0 = Instant::now();
            let mut rep = Report::new();
            if let Err(e) = props::run(&prop, &ctx, &mut rep) {
                eprintln!("xplore: {e}");
                std::process::exit(2);
            }
            let js = rep.to_json(&prop, &config, tier, t0.elapsed().as_secs_f64());
            let text = serde_json::to_string_pretty(&js).unwrap();
            match arg(&args, "--out") {
                Some(f) => std::fs::write(f, text).unwrap(),
                None => println!("{text}"),
            }
        }
        "chunk" => {
            // xplore chunk <NAME> --tier T : full observations of one dump chunk
            quiet_panics();
            let tier = match arg(&args, "--tier").as_deref() {
                Some("thorough") => Tier::Thorough,
                _ => Tier::Quick,
            };
            let ctx = Ctx { tier, config: String::new(), only: None, crates: None };
            println!("{}", serde_json::to_string(&props::dump::chunk_detail(&args[2], &ctx)).unwrap());
        }
        "replay" => {
            let v: serde_json::Value = serde_json::from_str(&std::fs::read_to_string(&args[2]).unwrap()).unwrap();
            let prop = v["property"].as_str().unwrap();
            let mut failed = 0;
            for round in 0..2 {
                match props::replay(prop, &v["case"]) {
                    Ok(()) => println!("replay {round}: property holds on this case"),
                    Err(m) => {
                        failed += 1;
                        println!("replay {round}: VIOLATED: {m}")
                    }
                }
            }
            std::process::exit(if failed == 2 { 1 } else if failed == 0 { 0 } else { 3 });
        }
        _ => std::process::exit(2),
    }
}
