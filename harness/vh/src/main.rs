fn main(){}
