//! Which reference model judges which subject (DESIGN §2.4).
use refmodels::RefCipher;

pub fn gost_table(name: &str) -> Option<refmodels::gost89::SboxSet> {
    use refmodels::gost89 as g;
    Some(match name {
        "Magma" => g::TC26_Z,
        "Gost89Test" => g::TEST_3411,
        "Gost89CryptoProA" => g::CRYPTOPRO_A,
        "Gost89CryptoProB" => g::CRYPTOPRO_B,
        "Gost89CryptoProC" => g::CRYPTOPRO_C,
        // the table /repo bundles under the name CryptoProD is id-GostR3411-94-CryptoProParamSet (see DESIGN §5)
        "Gost89CryptoProD" => g::CRYPTOPRO_3411,
        _ => {
            let inner = name.strip_prefix("Gost89<")?.strip_suffix('>')?;
            #[cfg(not(feature = "lite"))]
            {
                crate::subjects::user_sboxes::table(inner)?
            }
            #[cfg(feature = "lite")]
            {
                let _ = inner;
                return None;
            }
        }
    })
}

/// Reference cipher for `subject` keyed with `key` (None: no model for this subject).
pub fn reference(subject: &str, key: &[u8]) -> Option<Box<dyn RefCipher>> {
    use refmodels::*;
    let base = subject.split('@').next().unwrap(); // shadow subjects are "Aes128@armv8"
    Some(match base {
        "Aes128" | "Aes128Enc" | "Aes128Dec" | "Aes192" | "Aes192Enc" | "Aes192Dec" | "Aes256" | "Aes256Enc" | "Aes256Dec" => {
            Box::new(aes::Aes::new(key))
        }
        "Aria128" | "Aria192" | "Aria256" => Box::new(aria::Aria::new(key)),
        "Camellia128" | "Camellia192" | "Camellia256" => Box::new(camellia::Camellia::new(key)),
        "Sm4" => Box::new(sm4::Sm4::new(key)),
        "Des" => Box::new(des::Des::new(key)),
        "TdesEde2" | "TdesEde3" => Box::new(des::Tdes::new(key, des::TdesMode::Ede)),
        "TdesEee2" | "TdesEee3" => Box::new(des::Tdes::new(key, des::TdesMode::Eee)),
        "Blowfish" => Box::new(blowfish::Blowfish::new(key, false)),
        "BlowfishLE" => Box::new(blowfish::Blowfish::new(key, true)),
        "Cast5" => Box::new(cast5::Cast5::new(key)),
        "Cast6" => Box::new(cast6::Cast6::new(key)),
        "Idea" => Box::new(idea::Idea::new(key)),
        "Rc2" => Box::new(rc2::Rc2::new(key, 8 * key.len())),
        "Xtea" => Box::new(xtea::Xtea::new(key)),
        "Kuznyechik" | "KuznyechikEnc" | "KuznyechikDec" => Box::new(kuznyechik::Kuznyechik::new(key)),
        "BeltBlock" => Box::new(belt::BeltBlock::new(key)),
        "Serpent" => Box::new(serpent::Serpent::new(key)),
        "Twofish" => Box::new(twofish::Twofish::new(key)),
        "Gift128" => Box::new(gift::Gift128::new(key)),
        "Speck32_64" => Box::new(speck::Speck::new(32, 64, key)),
        "Speck48_72" => Box::new(speck::Speck::new(48, 72, key)),
        "Speck48_96" => Box::new(speck::Speck::new(48, 96, key)),
        "Speck64_96" => Box::new(speck::Speck::new(64, 96, key)),
        "Speck64_128" => Box::new(speck::Speck::new(64, 128, key)),
        "Speck96_96" => Box::new(speck::Speck::new(96, 96, key)),
        "Speck96_144" => Box::new(speck::Speck::new(96, 144, key)),
        "Speck128_128" => Box::new(speck::Speck::new(128, 128, key)),
        "Speck128_192" => Box::new(speck::Speck::new(128, 192, key)),
        "Speck128_256" => Box::new(speck::Speck::new(128, 256, key)),
        "Threefish256" | "Threefish512" | "Threefish1024" => Box::new(threefish::Threefish::new(key, &[0u8; 16])),
        n if n.starts_with("RC5<") => {
            let (w, r, b) = parse_rc5(n)?;
            if key.len() != b as usize {
                return None;
            }
            Box::new(rc5::Rc5::new(w, r, key))
        }
        n => {
            let t = gost_table(n)?;
            Box::new(gost89::Gost89::new(key, &t))
        }
    })
}

/// (w bits, rounds, key bytes) parsed from a grid subject name.
pub fn parse_rc5(name: &str) -> Option<(u32, u32, u32)> {
    let inner = name.strip_prefix("RC5<")?.strip_suffix('>')?;
    let mut it = inner.split(',');
    let w = match it.next()? {
        "u8" => 8,
        "u16" => 16,
        "u32" => 32,
        "u64" => 64,
        "u128" => 128,
        _ => return None,
    };
    Some((w, it.next()?.parse().ok()?, it.next()?.parse().ok()?))
}
