//! Cases for the entry points that are not behind the generic `cipher` traits:
//! Rc2::new_with_eff_key_len, belt_wblock_{enc,dec}, belt_block_raw, Threefish tweak / u64 API,
//! AES hazmat round functions.  Each case can be executed on the implementation (`observe`) and on the
//! reference model (`model`); both return the observation bytes.
use crate::alphabet::{self as al, Tier};
use refmodels::RefCipher;
use serde::{Deserialize, Serialize};

#[derive(Clone, Debug, Serialize, Deserialize, PartialEq, Eq)]
pub enum Case {
    /// Rc2::new_with_eff_key_len(key, eff) then E and D of three blocks
    Rc2Eff { len: usize, eff: usize, kv: u8 },
    /// belt_wblock_enc and belt_wblock_dec on `len` bytes (also < 32: error + untouched)
    Wblock { len: usize, dv: u8, kv: u8 },
    /// belt_block_raw(x, key)
    BeltRaw { key: Vec<u8>, block: Vec<u8> },
    /// ThreefishN::new_with_tweak(key, tweak): E, D (bytes) and encrypt/decrypt_block_u64, new_with_tweak_u64
    Threefish { nw: usize, key: Vec<u8>, tweak: Vec<u8>, block: Vec<u8> },
    /// `be` selects the implementation: 0 = the native aes crate, 1 = ARMv8 shadow, 2 = fixslice32 shadow.
    /// hazmat: f in {cipher_round, equiv_inv_cipher_round, mix_columns, inv_mix_columns} on one block
    Hazmat { f: u8, block: Vec<u8>, rk: Vec<u8>, #[serde(default)] be: u8 },
    /// hazmat *_par on eight (block, key) pairs: f in {0 cipher_round_par, 1 equiv_inv_cipher_round_par}
    HazmatPar { f: u8, blocks: Vec<u8>, rks: Vec<u8>, #[serde(default)] be: u8, /// byte offset of the two Block8 arguments inside an aligned buffer (Block8 has alignment 1)
        #[serde(default)] off: u8 },
}

pub fn rc2_key(len: usize, kv: u8) -> Vec<u8> {
    match kv {
        0 => al::distinct_bytes(len, 3),
        1 => vec![0xFF; len],
        v => al::dense(len, 70, v as u64),
    }
}
fn rc2_blocks() -> [[u8; 8]; 3] {
    [[0; 8], [0xFF; 8], al::dense(8, 71, 0).try_into().unwrap()]
}
pub fn wblock_data(len: usize, dv: u8) -> Vec<u8> {
    match dv {
        0 => vec![0; len],
        1 => vec![0xFF; len],
        2 => (0..len).map(|i| i as u8).collect(),
        v => al::dense(len, 72, v as u64),
    }
}
pub fn wblock_key(kv: u8) -> Vec<u8> {
    al::t_set(32, 1)[kv as usize % al::t_set(32, 1).len()].clone()
}
fn le_words<const N: usize>(b: &[u8]) -> [u32; N] {
    let mut w = [0u32; N];
    for (i, c) in b.chunks_exact(4).enumerate() {
        w[i] = u32::from_le_bytes(c.try_into().unwrap());
    }
    w
}

/// Execute on the implementation.
pub fn observe(c: &Case) -> Vec<u8> {
    use cipher::{BlockCipherDecrypt, BlockCipherEncrypt};
    match c {
        Case::Rc2Eff { len, eff, kv } => {
            let k = rc2_key(*len, *kv);
            let ci = rc2::Rc2::new_with_eff_key_len(&k, *eff);
            let mut out = Vec::new();
            for b in rc2_blocks() {
                let mut x = cipher::Block::<rc2::Rc2>::from(b);
                ci.encrypt_block(&mut x);
                out.extend_from_slice(&x);
                let mut y = cipher::Block::<rc2::Rc2>::from(b);
                ci.decrypt_block(&mut y);
                out.extend_from_slice(&y);
            }
            out
        }
        Case::Wblock { len, dv, kv } => {
            let key: [u32; 8] = le_words(&wblock_key(*kv));
            let d = wblock_data(*len, *dv);
            let mut out = Vec::new();
            let mut e = d.clone();
            out.push(belt_block::belt_wblock_enc(&mut e, &key).is_ok() as u8);
            out.extend_from_slice(&e);
            let mut x = d.clone();
            out.push(belt_block::belt_wblock_dec(&mut x, &key).is_ok() as u8);
            out.extend_from_slice(&x);
            out
        }
        Case::BeltRaw { key, block } => {
            let y = belt_block::belt_block_raw(le_words::<4>(block), &le_words::<8>(key));
            y.iter().flat_map(|w| w.to_le_bytes()).collect()
        }
        Case::Threefish { nw, key, tweak, block } => {
            macro_rules! go {
                ($t:ty, $n:expr) => {{
                    let ci = <$t>::new_with_tweak(key[..].try_into().unwrap(), tweak[..].try_into().unwrap());
                    let mut kw = [0u64; $n];
                    for (i, c) in key.chunks_exact(8).enumerate() {
                        kw[i] = u64::from_le_bytes(c.try_into().unwrap());
                    }
                    let tw = [u64::from_le_bytes(tweak[..8].try_into().unwrap()), u64::from_le_bytes(tweak[8..].try_into().unwrap())];
                    let c2 = <$t>::new_with_tweak_u64(&kw, &tw);
                    let mut out = Vec::new();
                    let mut x = cipher::Block::<$t>::try_from(&block[..]).unwrap();
                    ci.encrypt_block(&mut x);
                    out.extend_from_slice(&x);
                    let mut y = cipher::Block::<$t>::try_from(&block[..]).unwrap();
                    ci.decrypt_block(&mut y);
                    out.extend_from_slice(&y);
                    let mut w = [0u64; $n];
                    for (i, c) in block.chunks_exact(8).enumerate() {
                        w[i] = u64::from_le_bytes(c.try_into().unwrap());
                    }
                    let mut we = w;
                    c2.encrypt_block_u64(&mut we);
                    out.extend(we.iter().flat_map(|v| v.to_le_bytes()));
                    let mut wd = w;
                    c2.decrypt_block_u64(&mut wd);
                    out.extend(wd.iter().flat_map(|v| v.to_le_bytes()));
                    out
                }};
            }
            match nw {
                4 => go!(threefish::Threefish256, 4),
                8 => go!(threefish::Threefish512, 8),
                _ => go!(threefish::Threefish1024, 16),
            }
        }
        #[cfg(feature = "fh")]
        Case::Hazmat { f, block, rk, be } => {
            macro_rules! go {
                ($m:ident) => {{
                    let mut b = $m::Block::try_from(&block[..]).unwrap();
                    let k = $m::Block::try_from(&rk[..]).unwrap();
                    match f {
                        0 => $m::hazmat::cipher_round(&mut b, &k),
                        1 => $m::hazmat::equiv_inv_cipher_round(&mut b, &k),
                        2 => $m::hazmat::mix_columns(&mut b),
                        _ => $m::hazmat::inv_mix_columns(&mut b),
                    }
                    b.to_vec()
                }};
            }
            match be {
                0 => go!(aes),
                #[cfg(not(aes_force_soft))]
                1 => go!(aes_armv8),
                #[cfg(aes_force_soft)]
                1 => model(c),
                _ => go!(aes_fs32),
            }
        }
        #[cfg(feature = "fh")]
        Case::HazmatPar { f, blocks, rks, be, off } => {
            macro_rules! go {
                ($m:ident) => {{
                    // the two 128-byte arguments live at byte offset `off` inside 16-aligned buffers
                    #[repr(align(16))]
                    struct Buf([u8; 160]);
                    let mut bb = Buf([0xA5; 160]);
                    let mut kb = Buf([0x5A; 160]);
                    let o = (*off as usize) % 16;
                    bb.0[o..o + 128].copy_from_slice(&blocks[..128]);
                    kb.0[o..o + 128].copy_from_slice(&rks[..128]);
                    let bs: &mut $m::hazmat::Block8 = unsafe { &mut *(bb.0.as_mut_ptr().add(o) as *mut $m::hazmat::Block8) };
                    let ks: &$m::hazmat::Block8 = unsafe { &*(kb.0.as_ptr().add(o) as *const $m::hazmat::Block8) };
                    match f {
                        0 => $m::hazmat::cipher_round_par(bs, ks),
                        _ => $m::hazmat::equiv_inv_cipher_round_par(bs, ks),
                    }
                    let mut out: Vec<u8> = bs.iter().flat_map(|b| b.to_vec()).collect();
                    // bytes around the argument and the key argument itself must be untouched
                    let intact = bb.0[..o].iter().all(|&x| x == 0xA5) && bb.0[o + 128..].iter().all(|&x| x == 0xA5) && kb.0[o..o + 128] == rks[..128];
                    out.push(intact as u8);
                    out
                }};
            }
            match be {
                0 => go!(aes),
                #[cfg(not(aes_force_soft))]
                1 => go!(aes_armv8),
                #[cfg(aes_force_soft)]
                1 => model(c),
                _ => go!(aes_fs32),
            }
        }
        #[cfg(not(feature = "fh"))]
        Case::Hazmat { .. } | Case::HazmatPar { .. } => Vec::new(),
    }
}

/// Execute on the reference model.
pub fn model(c: &Case) -> Vec<u8> {
    use refmodels as rm;
    match c {
        Case::Rc2Eff { len, eff, kv } => {
            let k = rc2_key(*len, *kv);
            let r = rm::rc2::Rc2::new(&k, *eff);
            let mut out = Vec::new();
            for b in rc2_blocks() {
                let mut x = b;
                r.encrypt(&mut x);
                out.extend_from_slice(&x);
                let mut y = b;
                r.decrypt(&mut y);
                out.extend_from_slice(&y);
            }
            out
        }
        Case::Wblock { len, dv, kv } => {
            let key = wblock_key(*kv);
            let d = wblock_data(*len, *dv);
            let mut out = Vec::new();
            let mut e = d.clone();
            out.push(rm::belt::wblock_enc(&mut e, &key).is_ok() as u8);
            out.extend_from_slice(&e);
            let mut x = d.clone();
            out.push(rm::belt::wblock_dec(&mut x, &key).is_ok() as u8);
            out.extend_from_slice(&x);
            out
        }
        Case::BeltRaw { key, block } => {
            let r = rm::belt::BeltBlock::new(key);
            let mut b = block.clone();
            r.encrypt(&mut b);
            b
        }
        Case::Threefish { key, tweak, block, .. } => {
            let r = rm::threefish::Threefish::new(key, tweak[..].try_into().unwrap());
            let mut e = block.clone();
            r.encrypt(&mut e);
            let mut d = block.clone();
            r.decrypt(&mut d);
            let mut out = e.clone();
            out.extend_from_slice(&d);
            out.extend_from_slice(&e);
            out.extend_from_slice(&d);
            out
        }
        Case::Hazmat { f, block, rk, .. } => {
            let mut b: [u8; 16] = block[..].try_into().unwrap();
            let k: [u8; 16] = rk[..].try_into().unwrap();
            match f {
                0 => rm::aes::cipher_round(&mut b, &k),
                1 => rm::aes::equiv_inv_cipher_round(&mut b, &k),
                2 => rm::aes::mix_columns(&mut b),
                _ => rm::aes::inv_mix_columns(&mut b),
            }
            b.to_vec()
        }
        Case::HazmatPar { f, blocks, rks, .. } => {
            let mut out = Vec::new();
            for i in 0..8 {
                let mut b: [u8; 16] = blocks[16 * i..16 * i + 16].try_into().unwrap();
                let k: [u8; 16] = rks[16 * i..16 * i + 16].try_into().unwrap();
                match f {
                    0 => rm::aes::cipher_round(&mut b, &k),
                    _ => rm::aes::equiv_inv_cipher_round(&mut b, &k),
                }
                out.extend_from_slice(&b);
            }
            out.push(1); // surroundings intact
            out
        }
    }
}

/// Name of the chunk (for cross-configuration dumps) a case belongs to.
pub fn chunk_of(c: &Case) -> String {
    match c {
        Case::Rc2Eff { len, .. } => format!("rc2-eff/len{len}"),
        Case::Wblock { len, .. } => format!("belt_wblock/len{}", len.min(&1100) / 16),
        Case::BeltRaw { .. } => "belt_block_raw".into(),
        Case::Threefish { nw, .. } => format!("threefish-tweak/{nw}"),
        Case::Hazmat { f, be, .. } => format!("hazmat{}/{f}", ["", "@armv8", "@fs32"][*be as usize]),
        Case::HazmatPar { f, be, .. } => format!("hazmat-par{}/{f}", ["", "@armv8", "@fs32"][*be as usize]),
    }
}

pub fn rc2_grid(tier: Tier) -> Vec<Case> {
    let mut v = Vec::new();
    for len in 1..=128usize {
        for eff in 1..=1024usize {
            let nk = if tier == Tier::Quick { 1 } else { 2 };
            for kv in 0..nk {
                v.push(Case::Rc2Eff { len, eff, kv });
            }
        }
    }
    v
}

pub fn wblock_cases(tier: Tier) -> Vec<Case> {
    let mut lens: Vec<usize> = (0..=if tier == Tier::Quick { 160 } else { 1024 }).collect();
    lens.push(4096);
    lens.push(65537); // beyond 16-bit lengths / round counters
    if tier == Tier::Thorough {
        lens.extend([4095, 65536, 131073]);
    }
    // every residue mod 16 around the places where the round counter 2n or the block count n crosses a byte boundary
    // (n = 128: counter 256; n = 256) and around 1024 / 2048 bytes: lengths base-1 ..= base+16
    for base in [1024usize, 2032, 2048, 4080] {
        lens.extend(base - 1..=base + 16);
    }
    lens.sort();
    lens.dedup();
    let mut v = Vec::new();
    for len in lens {
        let long = len > 8192;
        let dvs: Vec<u8> = if long { if tier == Tier::Quick { vec![3] } else { vec![2, 3, 5] } } else { (0..11).collect() };
        let kvs: Vec<u8> = if len < 32 { vec![0, 1] } else if long { if tier == Tier::Quick { vec![3] } else { vec![3, 4] } } else { (0..al::t_set(32, 1).len() as u8).collect() };
        for &dv in &dvs {
            for &kv in &kvs {
                v.push(Case::Wblock { len, dv, kv });
            }
        }
    }
    v
}

pub fn belt_raw_cases(tier: Tier) -> Vec<Case> {
    let st = al::star(32, 16, tier, al::Plan::Medium);
    st.pairs.iter().map(|&(k, b)| Case::BeltRaw { key: st.keys[k as usize].clone(), block: st.blocks[b as usize].clone() }).collect()
}

pub fn threefish_cases(tier: Tier) -> Vec<Case> {
    let mut v = Vec::new();
    for nw in [4usize, 8, 16] {
        // arms (key set, tweak set, block set); quick: T x M x T; thorough: S x S x T  ∪  T x M x S
        let arms: Vec<(Vec<Vec<u8>>, Vec<Vec<u8>>, Vec<Vec<u8>>)> = if tier == Tier::Quick {
            vec![(al::t_set(nw * 8, 1), al::m_set(16, 3), al::t_set(nw * 8, 2))]
        } else {
            vec![
                (al::s_set(nw * 8, 1), al::s_set(16, 3), al::t_set(nw * 8, 2)),
                (al::t_set(nw * 8, 1), al::m_set(16, 3), al::s_set(nw * 8, 2)),
            ]
        };
        let mut seen = std::collections::HashSet::new();
        for (keys, tweaks, blocks) in &arms {
            for k in keys {
                for t in tweaks {
                    for b in blocks {
                        if seen.insert((k.clone(), t.clone(), b.clone())) {
                            v.push(Case::Threefish { nw, key: k.clone(), tweak: t.clone(), block: b.clone() });
                        }
                    }
                }
            }
        }
    }
    v
}

pub fn hazmat_cases(tier: Tier) -> Vec<Case> {
    let mut v = Vec::new();
    for be in 0..3u8 {
    let st = al::star(16, 16, tier, al::Plan::Full);
    for &(k, b) in &st.pairs {
        for f in 0..2u8 {
            v.push(Case::Hazmat { f, block: st.blocks[b as usize].clone(), rk: st.keys[k as usize].clone(), be });
        }
    }
    for b in al::f_set(16, 2, tier) {
        for f in 2..4u8 {
            v.push(Case::Hazmat { f, block: b.clone(), rk: vec![0; 16], be });
        }
    }
    // parallel forms: all blocks and keys different; and tuples that differ in lane j only
    let nt = if tier == Tier::Quick { 64 } else { 1024 };
    for t in 0..nt as u64 {
        for f in 0..2u8 {
            v.push(Case::HazmatPar { f, blocks: al::dense(128, 80, t), rks: al::dense(128, 81, t), be, off: (t % 16) as u8 });
        }
    }
    for j in 0..8usize {
        for t in 0..8u64 {
            let base_b = al::dense(16, 82, t);
            let base_k = al::dense(16, 83, t);
            let mut blocks: Vec<u8> = (0..8).flat_map(|_| base_b.clone()).collect();
            let mut rks: Vec<u8> = (0..8).flat_map(|_| base_k.clone()).collect();
            blocks[16 * j..16 * j + 16].copy_from_slice(&al::dense(16, 84, t));
            rks[16 * j..16 * j + 16].copy_from_slice(&al::dense(16, 85, t));
            for f in 0..2u8 {
                v.push(Case::HazmatPar { f, blocks: blocks.clone(), rks: rks.clone(), be, off: ((j as u64 * 5 + t) % 16) as u8 });
            }
        }
    }
    }
    v
}
