//! C15, "only reads": after a warm-up, encrypt/decrypt/clone/convert calls must not write to the instance's own
//! storage nor to any static storage of the process.  Together with `&self` receivers this is what makes sharing
//! an instance between threads race-free by construction; the one legitimate shared mutable location (the CPU
//! detection cache) is settled by the warm-up here and explored separately under loom.
//!
//! Deterministic and exhaustive over (type, operation): the writable segments of the executable (.data/.bss, found
//! through /proc/self/maps) and the bytes of the live instance are compared before and after a batch of operations
//! performed with *different* data than the warm-up, so a scratch buffer hoisted to a `static mut`, a cached batch or
//! an interior-mutable field shows up as a changed byte.
use super::Ctx;
use crate::alphabet::{self as al, hex};
use crate::report::{Report, Violation, guarded};
use crate::subjects::{Dir, Subject, Target, all_subjects};
use serde_json::{Value, json};

/// (start, end) of the writable mappings that belong to the executable image (its .data/.bss).
fn exe_writable_segments() -> Vec<(usize, usize)> {
    let exe = std::fs::read_link("/proc/self/exe").ok().map(|p| p.to_string_lossy().to_string()).unwrap_or_default();
    let maps = std::fs::read_to_string("/proc/self/maps").unwrap_or_default();
    let mut segs = Vec::new();
    let mut last_was_exe = false;
    for line in maps.lines() {
        let mut it = line.split_whitespace();
        let range = it.next().unwrap_or("");
        let perms = it.next().unwrap_or("");
        let path = line.split_whitespace().nth(5).unwrap_or("");
        let (a, b) = range.split_once('-').unwrap_or(("0", "0"));
        let (a, b) = (usize::from_str_radix(a, 16).unwrap_or(0), usize::from_str_radix(b, 16).unwrap_or(0));
        let is_exe = path == exe;
        // the anonymous rw mapping directly after the image's last segment is its .bss
        let is_bss = path.is_empty() && last_was_exe && segs.last().map(|s: &(usize, usize)| s.1 == a).unwrap_or(false);
        if perms.starts_with("rw") && (is_exe || is_bss) {
            segs.push((a, b));
        }
        last_was_exe = is_exe || is_bss;
    }
    segs
}

unsafe extern "C" {
    fn fork() -> i32;
    fn waitpid(pid: i32, status: *mut i32, options: i32) -> i32;
    fn mprotect(addr: *mut core::ffi::c_void, len: usize, prot: i32) -> i32;
    fn _exit(code: i32) -> !;
}

/// Run `f` in a forked child with the executable's writable data mapped READ-ONLY: any store to static storage –
/// even a transient one that is undone afterwards – kills the child with SIGSEGV.
/// Ok(true): no write; Ok(false): the child was killed by a signal; Err: could not be set up (skipped).
fn run_write_protected(segs: &[(usize, usize)], f: impl FnOnce()) -> Result<bool, String> {
    unsafe {
        let pid = fork();
        if pid < 0 {
            return Err("fork failed".into());
        }
        if pid == 0 {
            for &(a, b) in segs {
                if mprotect(a as *mut _, b - a, 1 /* PROT_READ */) != 0 {
                    _exit(77);
                }
            }
            f();
            _exit(0);
        }
        let mut status = 0i32;
        if waitpid(pid, &mut status, 0) < 0 {
            return Err("waitpid failed".into());
        }
        let exited = status & 0x7f == 0;
        let code = (status >> 8) & 0xff;
        if exited && code == 0 {
            Ok(true)
        } else if exited && code == 77 {
            Err("mprotect refused".into())
        } else {
            Ok(false)
        }
    }
}

fn snapshot(segs: &[(usize, usize)]) -> Vec<u8> {
    let mut v = Vec::new();
    for &(a, b) in segs {
        let s = unsafe { std::slice::from_raw_parts(a as *const u8, b - a) };
        v.extend_from_slice(s);
    }
    v
}

fn ops(inst: &dyn crate::subjects::Inst, caps: crate::subjects::Caps, bs: usize, stream: u64) {
    let mut one = al::dense(bs, stream, 0);
    let mut batch: Vec<u8> = (0..23).flat_map(|j| al::dense(bs, stream, 1 + j)).collect();
    if caps.enc {
        inst.block(Dir::Enc, &mut one);
        inst.blocks(Dir::Enc, &mut batch);
    }
    if caps.dec {
        inst.block(Dir::Dec, &mut one);
        inst.blocks(Dir::Dec, &mut batch);
    }
    if let Some(c) = inst.try_clone() {
        if caps.enc {
            c.block(Dir::Enc, &mut one);
        }
        if caps.dec {
            c.block(Dir::Dec, &mut one);
        }
    }
    for t in [Target::Full, Target::Dec] {
        if let Some(c) = inst.convert_ref(t) {
            c.block(Dir::Dec, &mut one);
        }
    }
    let _ = inst.debug();
    std::hint::black_box(&one);
}

pub fn check_subject(s: &dyn Subject) -> Result<usize, (String, String)> {
    let segs = exe_writable_segments();
    if segs.is_empty() {
        return Err(("writable segments of the executable found in /proc/self/maps".into(), "none (machinery)".into()));
    }
    let klen = s.key_lens()[0];
    let caps = s.caps();
    let bs = s.bs();
    guarded(|| {
        // warm-up: settles lazily initialised state (detection caches) with key/data stream A
        let warm = s.from_slice(&al::dense(klen, 130, 0)).map_err(|_| ("constructs".to_string(), "InvalidLength".to_string()))?;
        ops(warm.as_ref(), caps, bs, 131);
        drop(warm);
        // measured section with a different key and different data (stream B)
        let inst = s.from_slice(&al::dense(klen, 132, 0)).map_err(|_| ("constructs".to_string(), "InvalidLength".to_string()))?;
        let n = s.size_of();
        // the Box<dyn Inst> points at Wrap<T> whose first field is T (repr(Rust) may reorder; compare the whole allocation)
        let p = inst.as_ref() as *const dyn crate::subjects::Inst as *const u8;
        let total = std::mem::size_of_val(inst.as_ref());
        let before_inst: Vec<u8> = unsafe { std::slice::from_raw_parts(p, total) }.to_vec();
        let before = snapshot(&segs);
        ops(inst.as_ref(), caps, bs, 133);
        let after = snapshot(&segs);
        let after_inst: Vec<u8> = unsafe { std::slice::from_raw_parts(p, total) }.to_vec();
        if before_inst != after_inst {
            let i = (0..total).find(|&i| before_inst[i] != after_inst[i]).unwrap();
            return Err((format!("the {n}-byte instance is not written by &self calls"), format!("instance byte {i} changed from {:#04x} to {:#04x} during encrypt/decrypt/clone calls", before_inst[i], after_inst[i])));
        }
        if before != after {
            let i = (0..before.len()).find(|&i| before[i] != after[i]).unwrap();
            let mut off = i;
            let mut addr = 0;
            for &(a, b) in &segs {
                if off < b - a {
                    addr = a + off;
                    break;
                }
                off -= b - a;
            }
            let cnt = (0..before.len()).filter(|&i| before[i] != after[i]).count();
            return Err(("no static storage is written by encrypt/decrypt/clone calls".into(), format!("{cnt} byte(s) of the executable's writable data changed, first at address {addr:#x}: {} -> {}", hex(&before[i..(i + 8).min(before.len())]), hex(&after[i..(i + 8).min(after.len())]))));
        }
        // transient writes: the same operations with static storage mapped read-only (in a forked child)
        match run_write_protected(&segs, || ops(inst.as_ref(), caps, bs, 134)) {
            Ok(true) | Err(_) => {}
            Ok(false) => {
                return Err(("no static storage is written by encrypt/decrypt/clone calls (stores fault when .data/.bss are mapped read-only)".into(),
                            "the operations were killed by a signal when the executable's writable data was mapped read-only: a call on &self stores to static storage".into()));
            }
        }
        Ok(before.len() + total)
    })
    .unwrap_or_else(|p| Err(("no panic".into(), format!("panic: {p}"))))
}

pub fn replay(case: &Value) -> Result<(), String> {
    let subjects = all_subjects();
    let s = subjects.iter().find(|x| x.name() == case["subject"].as_str().unwrap()).ok_or("subject")?;
    check_subject(s.as_ref()).map(|_| ()).map_err(|(e, o)| format!("expected {e}, observed {o}"))
}

/// Single-threaded on purpose: other threads of the explorer would write harness statics.
pub fn run(ctx: &Ctx, rep: &mut Report) {
    let subjects = all_subjects();
    for s in &subjects {
        if !ctx.wants_s(s.as_ref()) || !super::constructible(s.as_ref()) {
            continue;
        }
        rep.evaluations += 1;
        rep.calls += 12;
        match check_subject(s.as_ref()) {
            Ok(bytes) => {
                rep.distinct_count += 1;
                rep.count("purity_bytes_compared", bytes as u64);
                rep.count("purity_subjects", 1);
            }
            Err((e, o)) => {
                if o.contains("machinery") {
                    rep.notes.push("purity: /proc/self/maps unavailable".into());
                    continue;
                }
                if check_subject(s.as_ref()).is_err() {
                    rep.violate(Violation { property: "C15".into(), subject: s.name(), what: "writes-shared-state".into(), case: json!({"kind":"purity","subject":s.name()}), expected: e, observed: o, note: "a call on &self wrote to the instance or to static storage".into(), index: 0 });
                }
            }
        }
    }
    rep.sample(json!({"check":"warm-up, snapshot of the executable's .data/.bss and of the instance, 6+ operations with other data, snapshot: must be identical","subjects":rep.counters.get("purity_subjects")}));
}
