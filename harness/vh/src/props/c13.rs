//! C13 – weak-key screening flags exactly the degenerate keys.
use super::Ctx;
use crate::alphabet::{self as al, Tier, hex, unhex};
use crate::report::{Report, Violation, guarded, par_for};
use crate::subjects::{Dir, Subject, all_subjects};
use refmodels::des::{NIST_WEAK_KEYS, is_weak as des_is_weak};
use serde_json::{Value, json};

const P: &str = "C13";

/// The statement's predicate: is `key` weak for `subject`?
pub fn model_weak(subject: &str, key: &[u8]) -> bool {
    let eq_mod_parity = |a: &[u8], b: &[u8]| a.iter().zip(b).all(|(x, y)| x & 0xFE == y & 0xFE);
    let part = |i: usize| -> [u8; 8] { key[8 * i..8 * i + 8].try_into().unwrap() };
    match subject {
        s if s.starts_with("Aes") => key[..key.len() / 2].iter().all(|&b| b == 0),
        "Des" => des_is_weak(&part(0)),
        "TdesEde2" | "TdesEee2" => des_is_weak(&part(0)) || des_is_weak(&part(1)) || eq_mod_parity(&part(0), &part(1)),
        "TdesEde3" | "TdesEee3" => {
            des_is_weak(&part(0)) || des_is_weak(&part(1)) || des_is_weak(&part(2))
                || eq_mod_parity(&part(0), &part(1)) || eq_mod_parity(&part(0), &part(2)) || eq_mod_parity(&part(1), &part(2))
        }
        _ => false,
    }
}

/// weak_key_test agrees with the predicate; new_checked fails iff it does, else equals new.
pub fn check_key(s: &dyn Subject, key: &[u8], probe: &[Vec<u8>]) -> Result<bool, (String, String)> {
    let name = s.name();
    let exp = model_weak(name.split('@').next().unwrap(), key);
    let r = guarded(|| -> Result<bool, (String, String)> {
        let got = s.weak(key);
        if got != exp {
            let f = |w: bool| if w { "weak_key_test = Err(WeakKeyError)".to_string() } else { "weak_key_test = Ok(())".to_string() };
            return Err((f(exp), f(got)));
        }
        match s.new_checked(key) {
            Err(()) => {
                if !exp {
                    return Err(("new_checked = Ok".into(), "new_checked = Err(WeakKeyError)".into()));
                }
            }
            Ok(c) => {
                if exp {
                    return Err(("new_checked = Err(WeakKeyError)".into(), "new_checked = Ok".into()));
                }
                let n = s.new_fixed(key);
                let caps = s.caps();
                for b in probe {
                    for dir in [Dir::Enc, Dir::Dec] {
                        if (dir == Dir::Enc && !caps.enc) || (dir == Dir::Dec && !caps.dec) {
                            continue;
                        }
                        let (mut x, mut y) = (b.clone(), b.clone());
                        c.block(dir, &mut x);
                        n.block(dir, &mut y);
                        if x != y {
                            return Err((format!("new: {}", hex(&y)), format!("new_checked: {}", hex(&x))));
                        }
                    }
                }
            }
        }
        Ok(exp)
    });
    r.unwrap_or_else(|p| Err(("no panic".into(), format!("panic: {p}"))))
}

pub fn replay(case: &Value) -> Result<(), String> {
    let subjects = all_subjects();
    let name = case["subject"].as_str().unwrap();
    let s = subjects.iter().find(|x| x.name() == name).ok_or("unknown subject")?;
    let key = unhex(case["key"].as_str().unwrap());
    check_key(s.as_ref(), &key, &al::t_set(s.bs(), 2)).map(|_| ()).map_err(|(e, o)| format!("expected {e}, observed {o}"))
}

fn aes_keys(n: usize, tier: Tier) -> Vec<Vec<u8>> {
    let h = n / 2;
    let mut keys = Vec::new();
    let lowers_s = al::s_set(n - h, 6);
    let lowers_m = if tier == Tier::Quick { al::s_set(n - h, 6) } else { al::m_set(n - h, 6) };
    let cat = |u: &[u8], l: &[u8]| {
        let mut k = u.to_vec();
        k.extend_from_slice(l);
        k
    };
    // upper half zero x lower half M  (must fail)
    for l in &lowers_m {
        keys.push(cat(&vec![0; h], l));
    }
    // every single bit of the upper half, and every value of every upper byte, x lower S (must pass)
    let lowers_few: Vec<Vec<u8>> = if tier == Tier::Quick { al::t_set(n - h, 6) } else { lowers_s.clone() };
    for u in al::w1(h) {
        for l in &lowers_few {
            keys.push(cat(&u, l));
        }
    }
    for p in 0..h {
        for v in 1..=255u8 {
            let mut u = vec![0u8; h];
            u[p] = v;
            for l in lowers_few.iter().take(3) {
                keys.push(cat(&u, l));
            }
        }
    }
    // the byte just below the boundary set, upper zero: still weak
    for v in 1..=255u8 {
        let mut k = vec![0u8; n];
        k[h] = v;
        keys.push(k);
    }
    keys.extend(al::m_set(n, 7));
    // word-structured keys: every assignment of the 32-bit words of the key to {0, A} (one dense word A), so that any
    // XOR / equality shortcut between words of the upper half cancels for some key (mutation-campaign survivor:
    // `t1 | t2` written as `t1 ^ t2` in the AES-192 test is only wrong when word 0 == word 2 != 0 and word 1 == 0)
    let nw = n / 4;
    for a in [al::dense(4, 9, 0), vec![0xFF; 4], vec![0, 0, 0, 1]] {
        for pat in 0u32..(1 << nw) {
            let mut k = vec![0u8; n];
            for w in 0..nw {
                if pat >> w & 1 == 1 {
                    k[4 * w..4 * w + 4].copy_from_slice(&a);
                }
            }
            keys.push(k);
        }
    }
    keys
}

fn des_parts(tier: Tier) -> Vec<[u8; 8]> {
    // parts for the triple-DES bundles: listed keys, generic keys, a generic key with flipped parity bits
    let mut v: Vec<[u8; 8]> = Vec::new();
    let listed: Vec<usize> = if tier == Tier::Quick { vec![0, 3, 4, 15, 16, 63] } else { (0..64).collect() };
    for i in listed {
        v.push(NIST_WEAK_KEYS[i]);
    }
    let mut flipped = NIST_WEAK_KEYS[5];
    for b in flipped.iter_mut() {
        *b ^= 1;
    }
    v.push(flipped); // listed key with all parity bits flipped: still the same DES key
    let g1: [u8; 8] = al::dense(8, 8, 0).try_into().unwrap();
    let g2: [u8; 8] = al::dense(8, 8, 1).try_into().unwrap();
    let mut g1p = g1;
    g1p[0] ^= 1;
    g1p[5] ^= 1;
    let mut g1q = g1;
    for b in g1q.iter_mut() {
        *b ^= 1;
    }
    let mut g1d = g1;
    g1d[3] ^= 0x10; // differs in a real key bit
    v.extend([g1, g2, g1p, g1q, g1d]);
    v
}

fn des_keys(tier: Tier) -> Vec<Vec<u8>> {
    let mut keys: Vec<Vec<u8>> = Vec::new();
    // each listed key x all 256 parity patterns (must fail)
    for k in NIST_WEAK_KEYS.iter() {
        for pat in 0..256u32 {
            let mut x = *k;
            for i in 0..8 {
                x[i] = (x[i] & 0xFE) | ((pat >> i) & 1) as u8;
            }
            keys.push(x.to_vec());
        }
    }
    // each listed key with each non-parity bit flipped
    for k in NIST_WEAK_KEYS.iter() {
        for bit in 0..64 {
            if bit % 8 == 7 {
                continue; // 0x80 >> 7 is the parity bit
            }
            let mut x = *k;
            x[bit / 8] ^= 0x80 >> (bit % 8);
            keys.push(x.to_vec());
        }
    }
    keys.extend(al::f_set(8, 1, tier));
    keys
}

pub fn run(ctx: &Ctx, rep: &mut Report) {
    let subjects = all_subjects();
    let mut work: Vec<(usize, Vec<Vec<u8>>)> = Vec::new();
    for (si, s) in subjects.iter().enumerate() {
        if !ctx.wants_s(s.as_ref()) || !super::constructible(s.as_ref()) {
            continue;
        }
        let name = s.name();
        let ks = s.key_size();
        let keys: Vec<Vec<u8>> = if name.starts_with("Aes") {
            aes_keys(ks, ctx.tier)
        } else if name == "Des" {
            des_keys(ctx.tier)
        } else if name.starts_with("Tdes") {
            let parts = des_parts(ctx.tier);
            let np = ks / 8;
            let mut v = Vec::new();
            if np == 2 {
                for a in &parts {
                    for b in &parts {
                        v.push([a.as_slice(), b.as_slice()].concat());
                    }
                }
            } else {
                let parts3: Vec<[u8; 8]> = if ctx.tier == Tier::Quick { parts.clone() } else { parts.iter().step_by(3).cloned().chain(parts[parts.len() - 6..].iter().cloned()).collect() };
                for a in &parts3 {
                    for b in &parts3 {
                        for c in &parts3 {
                            v.push([a.as_slice(), b.as_slice(), c.as_slice()].concat());
                        }
                    }
                }
            }
            v.extend(al::m_set(ks, 1));
            v
        } else if name.starts_with("RC5<") || ctx.tier == Tier::Quick {
            al::s_set(ks, 1)
        } else {
            al::m_set(ks, 1)
        };
        // chunk the keys so that big sets spread over threads
        for ch in keys.chunks(2048) {
            work.push((si, ch.to_vec()));
        }
    }
    let subjects_ref = &subjects;
    par_for(work.len(), rep, |wi, r| {
        let (si, keys) = &work[wi];
        let s = subjects_ref[*si].as_ref();
        let name = s.name();
        let probe = al::t_set(s.bs(), 2);
        for (ki, key) in keys.iter().enumerate() {
            r.evaluations += 1;
            r.calls += 3 + 4 * probe.len() as u64;
            r.ref_compared += 1;
            match check_key(s, key, &probe) {
                Ok(weak) => {
                    // non-trivial: the predicate's positive cases and their one-bit neighbours are all in the sets;
                    // count positives plus every AES/DES-family case (where the predicate can be true)
                    if weak || name.starts_with("Aes") || name.contains("es") {
                        r.distinct.insert(al::mix64(al::fnv64(name.as_bytes()), al::fnv64(key)));
                    }
                    if weak {
                        r.count("weak_keys_confirmed", 1);
                    }
                }
                Err((e, o)) => {
                    let case = json!({"kind":"weak","subject":name,"key":hex(key)});
                    let what = if name == "Des" || name.starts_with("Tdes") {
                        // classify for the known-findings matcher: is the disagreement explained by parity bits alone?
                        "weak-predicate"
                    } else {
                        "weak-predicate"
                    };
                    r.violate(Violation { property: P.into(), subject: name.clone(), what: what.into(), case, expected: e, observed: o, note: "weak-key screening disagrees with the statement's predicate".into(), index: (wi * 4096 + ki) as u64 });
                }
            }
            if wi == 0 && ki < 2 {
                r.sample(json!({"subject":name,"key":hex(key),"model_says_weak":model_weak(&name, key),"check":"weak_key_test == predicate; new_checked fails iff weak, else == new on probe blocks"}));
            }
        }
    });
}
