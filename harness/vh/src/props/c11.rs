//! C11 – key-length contract: exact accepted lengths, clean rejection, same cipher.
use super::Ctx;
use crate::alphabet::{self as al, Tier, hex, unhex};
use crate::report::{Report, Violation, guarded, par_for};
use crate::subjects::{Dir, Inst, Subject, all_subjects};
use serde_json::{Value, json};

const P: &str = "C11";

fn viol(subject: &str, what: &str, case: Value, e: String, o: String, note: &str, index: u64) -> Violation {
    Violation { property: P.into(), subject: subject.into(), what: what.into(), case, expected: e, observed: o, note: note.into(), index }
}

fn key_bytes(len: usize, variant: usize) -> Vec<u8> {
    match variant {
        0 => vec![0; len],
        _ => al::dense(len, 50, variant as u64),
    }
}

/// `new_from_slice(key)` must be Ok exactly when len is in the statement's set; never panic.
fn check_len(s: &dyn Subject, len: usize, variant: usize) -> Result<(), (String, String)> {
    let accepted = s.key_lens().contains(&len);
    let key = key_bytes(len, variant);
    match guarded(|| s.from_slice(&key).is_ok()) {
        Ok(ok) if ok == accepted => Ok(()),
        Ok(ok) => Err((if accepted { "Ok(cipher)".into() } else { "Err(InvalidLength)".into() }, if ok { "Ok(cipher)".into() } else { "Err(InvalidLength)".into() })),
        Err(p) => Err((if accepted { "Ok(cipher)".into() } else { "Err(InvalidLength)".into() }, format!("panic: {p}"))),
    }
}

/// Two instances compute the same function on the probe blocks.
fn same_cipher(a: &dyn Inst, b: &dyn Inst, caps: crate::subjects::Caps, bs: usize, blocks: &[Vec<u8>]) -> Result<(), (String, String)> {
    let _ = bs;
    for blk in blocks {
        for dir in [Dir::Enc, Dir::Dec] {
            if (dir == Dir::Enc && !caps.enc) || (dir == Dir::Dec && !caps.dec) {
                continue;
            }
            let mut x = blk.clone();
            let mut y = blk.clone();
            a.block(dir, &mut x);
            b.block(dir, &mut y);
            if x != y {
                return Err((format!("{:?}({}) = {}", dir, hex(blk), hex(&x)), format!("{:?}({}) = {}", dir, hex(blk), hex(&y))));
            }
        }
    }
    Ok(())
}

/// The explicitly padded full-length form of a short key, per the statement.
fn padded_form(name: &str, key: &[u8]) -> Option<Vec<u8>> {
    match name {
        "Cast5" if key.len() > 10 && key.len() < 16 => {
            let mut k = key.to_vec();
            k.resize(16, 0);
            Some(k)
        }
        "Cast6" if key.len() < 32 => {
            let mut k = key.to_vec();
            k.resize(32, 0);
            Some(k)
        }
        "Serpent" if key.len() < 32 => {
            let mut k = key.to_vec();
            k.push(0x01);
            k.resize(32, 0);
            Some(k)
        }
        _ => None,
    }
}

fn check_equiv(s: &dyn Subject, kind: &str, key: &[u8], blocks: &[Vec<u8>]) -> Result<(), (String, String)> {
    let caps = s.caps();
    let r = guarded(|| -> Result<(), (String, String)> {
        let a = s.from_slice(key).map_err(|_| ("constructs".to_string(), "InvalidLength".to_string()))?;
        let b: Box<dyn Inst> = match kind {
            "new-vs-slice" => s.new_fixed(key),
            "padded" => {
                let p = padded_form(&s.name(), key).ok_or(("padded form".to_string(), "n/a".to_string()))?;
                s.from_slice(&p).map_err(|_| ("padded key constructs".to_string(), "InvalidLength".to_string()))?
            }
            _ => return Err(("kind".into(), "unknown".into())),
        };
        same_cipher(a.as_ref(), b.as_ref(), caps, s.bs(), blocks)
    });
    r.unwrap_or_else(|p| Err(("no panic".into(), format!("panic: {p}"))))
}

#[cfg(not(feature = "lite"))]
fn rc2_equiv(key: &[u8], blocks: &[Vec<u8>]) -> Result<(), (String, String)> {
    use cipher::{BlockCipherDecrypt, BlockCipherEncrypt, KeyInit};
    guarded(|| {
        let a = rc2::Rc2::new_from_slice(key).map_err(|_| ("constructs".to_string(), "InvalidLength".to_string()))?;
        let b = rc2::Rc2::new_with_eff_key_len(key, 8 * key.len());
        for blk in blocks {
            let mut x = cipher::Block::<rc2::Rc2>::try_from(&blk[..]).unwrap();
            let mut y = x;
            a.encrypt_block(&mut x);
            b.encrypt_block(&mut y);
            if x != y {
                return Err((hex(&x), hex(&y)));
            }
            a.decrypt_block(&mut x);
            b.decrypt_block(&mut y);
            let mut x2 = cipher::Block::<rc2::Rc2>::try_from(&blk[..]).unwrap();
            let mut y2 = x2;
            a.decrypt_block(&mut x2);
            b.decrypt_block(&mut y2);
            if x2 != y2 {
                return Err((hex(&x2), hex(&y2)));
            }
        }
        Ok(())
    })
    .unwrap_or_else(|p| Err(("no panic".into(), format!("panic: {p}"))))
}

#[cfg(not(feature = "lite"))]
fn threefish_equiv(name: &str, key: &[u8], blocks: &[Vec<u8>]) -> Result<(), (String, String)> {
    use cipher::{BlockCipherDecrypt, BlockCipherEncrypt, KeyInit};
    macro_rules! go {
        ($t:ty, $nw:expr) => {{
            let a = <$t>::new_from_slice(key).map_err(|_| ("constructs".to_string(), "InvalidLength".to_string()))?;
            let b = <$t>::new_with_tweak(key.try_into().unwrap(), &[0u8; 16]);
            let mut kw = [0u64; $nw];
            for (i, c) in key.chunks_exact(8).enumerate() {
                kw[i] = u64::from_le_bytes(c.try_into().unwrap());
            }
            let c = <$t>::new_with_tweak_u64(&kw, &[0u64; 2]);
            for blk in blocks {
                let x0 = cipher::Block::<$t>::try_from(&blk[..]).unwrap();
                let (mut x, mut y, mut z) = (x0.clone(), x0.clone(), x0.clone());
                a.encrypt_block(&mut x);
                b.encrypt_block(&mut y);
                c.encrypt_block(&mut z);
                if x != y || x != z {
                    return Err((format!("new: {}", hex(&x)), format!("new_with_tweak(0): {} new_with_tweak_u64(0): {}", hex(&y), hex(&z))));
                }
                let (mut x, mut y, mut z) = (x0.clone(), x0.clone(), x0.clone());
                a.decrypt_block(&mut x);
                b.decrypt_block(&mut y);
                c.decrypt_block(&mut z);
                if x != y || x != z {
                    return Err((format!("new: {}", hex(&x)), format!("new_with_tweak(0): {} new_with_tweak_u64(0): {}", hex(&y), hex(&z))));
                }
            }
            Ok(())
        }};
    }
    guarded(|| match name {
        "Threefish256" => go!(threefish::Threefish256, 4),
        "Threefish512" => go!(threefish::Threefish512, 8),
        _ => go!(threefish::Threefish1024, 16),
    })
    .unwrap_or_else(|p| Err(("no panic".into(), format!("panic: {p}"))))
}

pub fn replay(case: &Value) -> Result<(), String> {
    let subjects = all_subjects();
    let name = case["subject"].as_str().unwrap();
    let s = subjects.iter().find(|x| x.name() == name).ok_or("unknown subject")?;
    let f = |r: Result<(), (String, String)>| r.map_err(|(e, o)| format!("expected {e}, observed {o}"));
    match case["kind"].as_str().unwrap_or("") {
        "length" => f(check_len(s.as_ref(), case["len"].as_u64().unwrap() as usize, case["variant"].as_u64().unwrap() as usize)),
        "equiv" => {
            let key = unhex(case["key"].as_str().unwrap());
            let blocks = al::s_set(s.bs(), 2);
            match case["equiv"].as_str().unwrap() {
                #[cfg(not(feature = "lite"))]
                "rc2-eff" => f(rc2_equiv(&key, &blocks)),
                #[cfg(not(feature = "lite"))]
                "threefish-zero-tweak" => f(threefish_equiv(name, &key, &blocks)),
                k => f(check_equiv(s.as_ref(), k, &key, &blocks)),
            }
        }
        k => Err(format!("unknown case kind {k}")),
    }
}

pub fn run(ctx: &Ctx, rep: &mut Report) {
    let subjects = all_subjects();
    let wanted: Vec<usize> = (0..subjects.len()).filter(|&i| ctx.wants_s(subjects[i].as_ref())).collect();
    let subjects_ref = &subjects;
    let mut lens: Vec<usize> = (0..=300).collect();
    lens.extend([1024usize, 4096]);
    let lens = &lens;
    par_for(wanted.len(), rep, |wi, r| {
        let s = subjects_ref[wanted[wi]].as_ref();
        let name = s.name();
        // 1. length contract
        for &len in lens.iter() {
            for variant in 0..2 {
                r.evaluations += 1;
                r.calls += 1;
                if s.key_lens().contains(&len) || len <= 300 && s.key_lens().iter().any(|&l| l + 1 == len || l == len + 1) {
                    r.distinct_count += 1; // accepted lengths and their immediate neighbours are the non-trivial ones
                }
                if let Err((e, o)) = check_len(s, len, variant) {
                    let what = if o.starts_with("panic") { "construct-panic" } else { "length-contract" };
                    let case = json!({"kind":"length","subject":name,"len":len,"variant":variant});
                    r.violate(viol(&name, what, case, e, o, "new_from_slice length contract", len as u64));
                }
            }
        }
        if wi == 0 {
            r.sample(json!({"subject":name,"check":"new_from_slice(key of length L) is Ok iff L in statement set, never panics","lengths":"0..=300, 1024, 4096","statement_set":s.key_lens()}));
        }
        if !super::constructible(s) {
            return;
        }
        // 2. constructor equivalences
        let blocks = if ctx.tier == Tier::Quick { al::t_set(s.bs(), 2) } else { al::s_set(s.bs(), 2) };
        let ks = s.key_size();
        if s.key_lens().contains(&ks) {
            let keys = if ctx.tier == Tier::Quick || name.starts_with("RC5<") { al::s_set(ks, 1) } else { al::m_set(ks, 1) };
            for (ki, key) in keys.iter().enumerate() {
                r.evaluations += 1;
                r.calls += 2 + 2 * blocks.len() as u64;
                r.distinct_count += 1;
                if let Err((e, o)) = check_equiv(s, "new-vs-slice", key, &blocks) {
                    let case = json!({"kind":"equiv","equiv":"new-vs-slice","subject":name,"key":hex(key)});
                    r.violate(viol(&name, "new-vs-slice", case, e, o, "KeyInit::new and new_from_slice differ", ki as u64));
                }
            }
        }
        for len in s.key_lens() {
            if padded_form(&name, &vec![0u8; len]).is_none() {
                continue;
            }
            let mut keys = if ctx.tier == Tier::Quick { al::t_set(len, 1) } else { al::m_set(len, 1) };
            keys.push(al::distinct_bytes(len, 1));
            for (ki, key) in keys.iter().enumerate() {
                r.evaluations += 1;
                r.calls += 2 + 2 * blocks.len() as u64;
                r.distinct_count += 1;
                if let Err((e, o)) = check_equiv(s, "padded", key, &blocks) {
                    let case = json!({"kind":"equiv","equiv":"padded","subject":name,"key":hex(key)});
                    r.violate(viol(&name, "padded", case, e, o, "short key and its explicitly padded form differ", ki as u64));
                }
                if ki == 0 && len % 4 == 1 {
                    r.sample(json!({"subject":name,"key":hex(key),"padded":hex(&padded_form(&name, key).unwrap()),"check":"short key == explicitly padded full-length key on probe blocks"}));
                }
            }
        }
        #[cfg(not(feature = "lite"))]
        {
            if name == "Rc2" {
                for len in 1..=128usize {
                    let mut keys = al::t_set(len, 1);
                    keys.push(al::distinct_bytes(len, 2));
                    for (ki, key) in keys.iter().enumerate() {
                        r.evaluations += 1;
                        r.calls += 2 + 4 * blocks.len() as u64;
                        r.distinct_count += 1;
                        if let Err((e, o)) = rc2_equiv(key, &blocks) {
                            let case = json!({"kind":"equiv","equiv":"rc2-eff","subject":name,"key":hex(key)});
                            r.violate(viol(&name, "rc2-eff", case, e, o, "Rc2 from slice vs new_with_eff_key_len(8*len)", (len * 100 + ki) as u64));
                        }
                    }
                }
            }
            if name.starts_with("Threefish") {
                let keys = if ctx.tier == Tier::Quick { al::s_set(ks, 1) } else { al::m_set(ks, 1) };
                for (ki, key) in keys.iter().enumerate() {
                    r.evaluations += 1;
                    r.calls += 3 + 6 * blocks.len() as u64;
                    r.distinct_count += 1;
                    if let Err((e, o)) = threefish_equiv(&name, key, &blocks) {
                        let case = json!({"kind":"equiv","equiv":"threefish-zero-tweak","subject":name,"key":hex(key)});
                        r.violate(viol(&name, "threefish-zero-tweak", case, e, o, "KeyInit::new vs zero tweak constructors", ki as u64));
                    }
                }
            }
        }
    });
}
