//! Runner for the special-API cases of `crate::special`: implementation vs reference model.
use crate::alphabet::hex;
use crate::report::{Report, Violation, guarded, par_for};
use crate::special::{Case, model, observe};
use serde_json::{Value, json};

pub fn check(c: &Case) -> Result<bool, (String, String)> {
    let exp = model(c);
    match guarded(|| observe(c)) {
        Ok(got) => {
            if got == exp {
                Ok(true)
            } else {
                // first differing byte, for the report
                let i = got.iter().zip(&exp).position(|(a, b)| a != b).unwrap_or(got.len().min(exp.len()));
                let lo = i.saturating_sub(8);
                Err((format!("len {} ..{}..", exp.len(), hex(&exp[lo..(lo + 40).min(exp.len())])), format!("len {} ..{}.. (first difference at byte {i})", got.len(), hex(&got[lo..(lo + 40).min(got.len())]))))
            }
        }
        Err(p) => Err(("no panic".into(), format!("panic: {p}"))),
    }
}

pub fn replay(case: &Value) -> Result<(), String> {
    let c: Case = serde_json::from_value(case["special"].clone()).map_err(|e| e.to_string())?;
    check(&c).map(|_| ()).map_err(|(e, o)| format!("expected {e}, observed {o}"))
}

pub fn subject_of(c: &Case) -> &'static str {
    match c {
        Case::Rc2Eff { .. } => "Rc2::new_with_eff_key_len",
        Case::Wblock { .. } => "belt_wblock",
        Case::BeltRaw { .. } => "belt_block_raw",
        Case::Threefish { nw: 4, .. } => "Threefish256::new_with_tweak",
        Case::Threefish { nw: 8, .. } => "Threefish512::new_with_tweak",
        Case::Threefish { .. } => "Threefish1024::new_with_tweak",
        Case::Hazmat { f: 0, be: 1, .. } => "hazmat::cipher_round@armv8",
        Case::Hazmat { f: 0, be: 2, .. } => "hazmat::cipher_round@fs32",
        Case::Hazmat { f: 0, .. } => "hazmat::cipher_round",
        Case::Hazmat { f: 1, .. } => "hazmat::equiv_inv_cipher_round",
        Case::Hazmat { f: 2, .. } => "hazmat::mix_columns",
        Case::Hazmat { .. } => "hazmat::inv_mix_columns",
        Case::HazmatPar { f: 0, .. } => "hazmat::cipher_round_par",
        Case::HazmatPar { .. } => "hazmat::equiv_inv_cipher_round_par",
    }
}

pub fn run_special(pid: &'static str, cases: Vec<Case>, rep: &mut Report) {
    const CH: usize = 256;
    let nchunks = cases.len().div_ceil(CH);
    let cases = &cases;
    par_for(nchunks, rep, |ci, r| {
        for (j, c) in cases[ci * CH..((ci + 1) * CH).min(cases.len())].iter().enumerate() {
            r.evaluations += 1;
            r.calls += 2;
            r.ref_compared += 1;
            match check(c) {
                Ok(_) => r.distinct_count += 1,
                Err(_) => {
                    if let (Err((e, o)), Err(_)) = (check(c), check(c)) {
                        let what = if o.starts_with("panic") { "panic" } else { "conformance" };
                        r.violate(Violation { property: pid.into(), subject: subject_of(c).into(), what: what.into(), case: json!({"kind":"special","special":c}), expected: e, observed: o, note: "special entry point disagrees with the reference model".into(), index: (ci * CH + j) as u64 });
                    } else {
                        r.count("nondeterministic", 1);
                    }
                }
            }
            if ci == 0 && j == 0 {
                r.sample(json!({"trace": subject_of(c), "case": c, "model_output": hex(&model(c)[..model(c).len().min(48)])}));
            }
        }
    });
}
