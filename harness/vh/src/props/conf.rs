//! Generic conformance engine: implementation vs reference model on the star alphabets
//! (used by C02, C05–C10).  Every trace `construct(key) -> encrypt/decrypt(block)` is executed on the
//! implementation and on the reference model and the outputs are compared.
use super::{Ctx, constructible, star_items};
use crate::alphabet::{self as al, hex, unhex};
use crate::refmap::reference;
use crate::report::{Report, Violation, guarded, par_for};
use crate::subjects::{Dir, Subject, all_subjects};
use serde_json::{Value, json};

pub fn viol(p: &str, subject: &str, what: &str, case: Value, expected: String, observed: String, note: &str, index: u64) -> Violation {
    Violation { property: p.into(), subject: subject.into(), what: what.into(), case, expected, observed, note: note.into(), index }
}

/// One trace on implementation and model. Ok(nontrivial) or Err((expected, observed)).
pub fn check_one(s: &dyn Subject, key: &[u8], block: &[u8], dir: Dir) -> Result<bool, (String, String)> {
    let name = s.name();
    let r = guarded(|| {
        let rf = reference(&name, key).ok_or(("reference exists".to_string(), "no reference model".to_string()))?;
        let inst = s.from_slice(key).map_err(|_| ("constructs".to_string(), "InvalidLength".to_string()))?;
        let mut got = block.to_vec();
        inst.block(dir, &mut got);
        let mut exp = block.to_vec();
        match dir {
            Dir::Enc => rf.encrypt(&mut exp),
            Dir::Dec => rf.decrypt(&mut exp),
        }
        if got != exp { Err((hex(&exp), hex(&got))) } else { Ok(got != block) }
    });
    match r {
        Ok(x) => x,
        Err(p) => Err(("no panic".into(), format!("panic: {p}"))),
    }
}

pub fn check_batch(s: &dyn Subject, key: &[u8], n: usize, dir: Dir) -> Result<(), (String, String)> {
    let name = s.name();
    let bs = s.bs();
    let r = guarded(|| {
        let rf = reference(&name, key).ok_or(("reference exists".to_string(), "no reference model".to_string()))?;
        let inst = s.from_slice(key).map_err(|_| ("constructs".to_string(), "InvalidLength".to_string()))?;
        let orig: Vec<u8> = (0..n).flat_map(|j| al::dense(bs, 78, j as u64)).collect();
        let mut exp = orig.clone();
        for c in exp.chunks_exact_mut(bs) {
            match dir {
                Dir::Enc => rf.encrypt(c),
                Dir::Dec => rf.decrypt(c),
            }
        }
        // the same batch through the in-place, buffer-to-buffer and separate in/out call shapes
        let mut got = orig.clone();
        inst.blocks(dir, &mut got);
        for shape in [crate::subjects::Shape::BlocksB2b, crate::subjects::Shape::BlocksInoutSep, crate::subjects::Shape::BlockB2b] {
            if got != exp {
                break;
            }
            let mut out = vec![0xEEu8; n * bs];
            unsafe { inst.call(dir, shape, orig.as_ptr(), out.as_mut_ptr(), n) };
            got = out;
        }
        if got != exp {
            let j = (0..n).find(|&j| got[j * bs..(j + 1) * bs] != exp[j * bs..(j + 1) * bs]).unwrap();
            Err((format!("block {j}: {}", hex(&exp[j * bs..(j + 1) * bs])), format!("block {j}: {}", hex(&got[j * bs..(j + 1) * bs]))))
        } else {
            Ok(())
        }
    });
    match r {
        Ok(x) => x,
        Err(p) => Err(("no panic".into(), format!("panic: {p}"))),
    }
}

pub fn replay(case: &Value) -> Result<(), String> {
    let subjects = all_subjects();
    let name = case["subject"].as_str().unwrap();
    let s = subjects.iter().find(|x| x.name() == name).ok_or("unknown subject")?;
    let key = unhex(case["key"].as_str().unwrap());
    let dir = if case["dir"].as_str() == Some("dec") { Dir::Dec } else { Dir::Enc };
    match case["kind"].as_str().unwrap_or("") {
        "conf" => check_one(s.as_ref(), &key, &unhex(case["block"].as_str().unwrap()), dir).map(|_| ()).map_err(|(e, o)| format!("expected {e}, observed {o}")),
        "conf-batch" => check_batch(s.as_ref(), &key, case["n"].as_u64().unwrap() as usize, dir).map_err(|(e, o)| format!("expected {e}, observed {o}")),
        k => Err(format!("unknown case kind {k}")),
    }
}

pub fn dname(d: Dir) -> &'static str {
    if d == Dir::Enc { "enc" } else { "dec" }
}

pub fn run_conf(pid: &'static str, crates: &[&str], ctx: &Ctx, rep: &mut Report) {
    let subjects = all_subjects();
    let ok: Vec<bool> = subjects.iter().map(|s| constructible(s.as_ref())).collect();
    let items = star_items(&subjects, ctx, |s| {
        let i = subjects.iter().position(|x| x.name() == s.name()).unwrap();
        crates.contains(&s.krate()) && ok[i]
    });
    let subjects_ref = &subjects;
    par_for(items.len(), rep, |ii, r| {
        let it = &items[ii];
        let s = subjects_ref[it.subj].as_ref();
        let key = &it.star.keys[it.key as usize];
        let name = s.name();
        let caps = s.caps();
        let built = guarded(|| (s.from_slice(key), reference(&name, key)));
        r.calls += 1;
        let (inst, rf) = match built {
            Ok((Ok(i), Some(rf))) => (i, rf),
            Ok((_, None)) => {
                r.notes.push(format!("no reference model for {name}"));
                r.count("no_reference", 1);
                return;
            }
            other => {
                let case = json!({"kind":"conf","subject":name,"key":hex(key),"block":hex(&it.star.blocks[0]),"dir":"enc"});
                r.violate(viol(pid, &name, "construct", case, "constructs".into(), format!("{:?}", other.err()), "accepted key did not construct", it.base));
                return;
            }
        };
        let bs = s.bs();
        let mut got = vec![0u8; bs];
        let mut exp = vec![0u8; bs];
        for (pi, &(_, b)) in it.star.pairs[it.range.clone()].iter().enumerate() {
            let block = &it.star.blocks[b as usize];
            for dir in [Dir::Enc, Dir::Dec] {
                if (dir == Dir::Enc && !caps.enc) || (dir == Dir::Dec && !caps.dec) {
                    continue;
                }
                r.evaluations += 1;
                r.calls += 1;
                r.ref_compared += 1;
                got.copy_from_slice(block);
                exp.copy_from_slice(block);
                let res = guarded(|| {
                    inst.block(dir, &mut got);
                });
                match dir {
                    Dir::Enc => rf.encrypt(&mut exp),
                    Dir::Dec => rf.decrypt(&mut exp),
                }
                let good = res.is_ok() && got == exp;
                if exp.as_slice() != block.as_slice() {
                    r.distinct_count += 1;
                }
                if ii == 0 && pi < 1 {
                    r.sample(json!({"trace":["new_from_slice(key)", format!("{}_block(block)", dname(dir))],"subject":name,"key":hex(key),"block":hex(block),"model_output":hex(&exp),"impl_output":hex(&got)}));
                }
                if !good {
                    let a = check_one(s, key, block, dir);
                    let b2 = check_one(s, key, block, dir);
                    if let (Err((e, o)), Err(_)) = (&a, &b2) {
                        let case = json!({"kind":"conf","subject":name,"key":hex(key),"block":hex(block),"dir":dname(dir)});
                        r.violate(viol(pid, &name, "conformance", case, e.clone(), o.clone(), "implementation disagrees with the reference model", it.base + pi as u64));
                    } else {
                        r.count("nondeterministic", 1);
                        r.notes.push(format!("non-deterministic mismatch for {name}"));
                    }
                }
            }
        }
        // per key: batches straddling every parallel width
        for n in [3usize, 43] {
            for dir in [Dir::Enc, Dir::Dec] {
                if (dir == Dir::Enc && !caps.enc) || (dir == Dir::Dec && !caps.dec) {
                    continue;
                }
                r.evaluations += 1;
                r.calls += 2;
                r.ref_compared += 1;
                r.distinct_count += 1;
                if let Err((e, o)) = check_batch(s, key, n, dir) {
                    let case = json!({"kind":"conf-batch","subject":name,"key":hex(key),"n":n,"dir":dname(dir)});
                    r.violate(viol(pid, &name, "conformance-batch", case, e, o, "multi-block call disagrees with the reference model", it.base));
                }
            }
        }
    });
}
