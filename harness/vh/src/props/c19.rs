//! C19 – Debug and AlgorithmName output is key-independent and names the algorithm.
use super::Ctx;
use crate::alphabet::{self as al, Tier, hex, unhex};
use crate::report::{Report, Violation, guarded, par_for};
use crate::subjects::{Subject, all_subjects};
use serde_json::{Value, json};
use std::collections::BTreeMap;

const P: &str = "C19";

fn leading_ident(text: &str) -> String {
    let end = text.find(|c: char| c == ' ' || c == '{').unwrap_or(text.len());
    text[..end].trim().to_string()
}

/// Debug text for `key`; Ok(None) if the type has no Debug impl.
fn debug_of(s: &dyn Subject, key: &[u8]) -> Result<Option<String>, String> {
    guarded(|| s.from_slice(key).ok().and_then(|i| i.debug())).map_err(|p| format!("panic: {p}"))
}

fn check_debug(s: &dyn Subject, key0: &[u8], key: &[u8]) -> Result<(), (String, String, &'static str)> {
    let a = debug_of(s, key0).map_err(|p| ("no panic".to_string(), p, "debug-panic"))?;
    let b = debug_of(s, key).map_err(|p| ("no panic".to_string(), p, "debug-panic"))?;
    let (a, b) = match (a, b) {
        (Some(a), Some(b)) => (a, b),
        _ => return Ok(()),
    };
    if a != b {
        return Err((a, b, "debug-key-dependent"));
    }
    // every rendering (plain, {:#?}, {:x?}, {:#X?}, padded) must name the type; the padded one may have leading spaces
    for part in b.split('\u{1}') {
        let id = leading_ident(part.trim_start()).to_ascii_lowercase();
        let names = s.type_names();
        if !names.iter().any(|n| n.to_ascii_lowercase() == id) {
            return Err((format!("text starting with one of {:?}", names), part.to_string(), "debug-wrong-name"));
        }
    }
    let id = leading_ident(b.split('\u{1}').next().unwrap()).to_ascii_lowercase();
    let names = s.type_names();
    if !names.iter().any(|n| n.to_ascii_lowercase() == id) {
        return Err((format!("text starting with one of {:?}", names), b, "debug-wrong-name"));
    }
    Ok(())
}

/// Algorithm identity: Enc/Dec/combined of one algorithm may share a name.
fn identity(name: &str) -> String {
    // shadow builds (`Base@variant`) are the same algorithm as `Base`
    let name = crate::subjects::base_name(name);
    let n = name.strip_suffix("Enc").or_else(|| name.strip_suffix("Dec")).unwrap_or(name);
    n.to_string()
}

fn tokens(s: &str) -> Vec<String> {
    s.split(|c: char| !c.is_ascii_alphanumeric()).filter(|t| !t.is_empty()).map(|t| t.to_string()).collect()
}

fn check_rc5_name(subject: &str, alg: &str) -> Result<(), (String, String)> {
    let (w, r, b) = crate::refmap::parse_rc5(subject).unwrap();
    let mut toks = tokens(alg);
    let mut take = |want: &[String]| -> bool {
        if let Some(i) = toks.iter().position(|t| want.contains(t)) {
            toks.remove(i);
            true
        } else {
            false
        }
    };
    let okw = take(&[format!("u{w}"), format!("{w}")]);
    let okr = take(&[format!("{r}")]);
    let okb = take(&[format!("{b}")]);
    if okw && okr && okb {
        Ok(())
    } else {
        Err((format!("a name containing word size {w}, rounds {r} and key length {b}"), alg.to_string()))
    }
}

fn norm(s: &str) -> String {
    s.chars().filter(|c| c.is_ascii_alphanumeric()).map(|c| c.to_ascii_lowercase()).collect()
}

fn digit_runs(s: &str) -> Vec<String> {
    let mut v = Vec::new();
    let mut cur = String::new();
    for c in s.chars() {
        if c.is_ascii_digit() {
            cur.push(c);
        } else if !cur.is_empty() {
            v.push(std::mem::take(&mut cur));
        }
    }
    if !cur.is_empty() {
        v.push(cur);
    }
    v
}

/// The parameters that are part of the type's public name (key size, block size, variant number: the digit runs of
/// e.g. `Aes192`, `Speck96_144`, `TdesEde3`) must all appear in the algorithm name.
fn check_params_in_name(subject: &str, alg: &str) -> Result<(), (String, String)> {
    let base = crate::subjects::base_name(subject);
    let mut have = digit_runs(alg);
    for want in digit_runs(base) {
        match have.iter().position(|h| *h == want) {
            Some(i) => {
                have.remove(i);
            }
            None => return Err((format!("an algorithm name containing the parameter {want} of {base}"), alg.to_string())),
        }
    }
    Ok(())
}

pub fn replay(case: &Value) -> Result<(), String> {
    let subjects = all_subjects();
    let name = case["subject"].as_str().unwrap();
    let s = subjects.iter().find(|x| x.name() == name).ok_or("unknown subject")?;
    match case["kind"].as_str().unwrap_or("") {
        "debug" => check_debug(s.as_ref(), &unhex(case["key0"].as_str().unwrap()), &unhex(case["key"].as_str().unwrap())).map_err(|(e, o, w)| format!("{w}: expected {e}, observed {o}")),
        "algname-rc5" => check_rc5_name(name, &s.alg_name()).map_err(|(e, o)| format!("expected {e}, observed {o}")),
        "algname-params" => check_params_in_name(name, &s.alg_name()).map_err(|(e, o)| format!("expected {e}, observed {o}")),
        "algname-other-type" => {
            let other = case["other"].as_str().unwrap();
            let o = subjects.iter().find(|x| x.name() == other).ok_or("unknown subject")?;
            if o.type_names().iter().any(|n| norm(n) == norm(&s.alg_name())) && !s.type_names().iter().any(|n| norm(n) == norm(&s.alg_name())) {
                Err(format!("{name} writes the algorithm name {:?}, which is the name of {other}", s.alg_name()))
            } else {
                Ok(())
            }
        }
        "algname-collision" => {
            let other = case["other"].as_str().unwrap();
            let o = subjects.iter().find(|x| x.name() == other).ok_or("unknown subject")?;
            if s.alg_name() == o.alg_name() { Err(format!("{} and {} both write the algorithm name {:?}", name, other, s.alg_name())) } else { Ok(()) }
        }
        k => Err(format!("unknown case kind {k}")),
    }
}

pub fn run(ctx: &Ctx, rep: &mut Report) {
    let subjects = all_subjects();
    let wanted: Vec<usize> = (0..subjects.len()).filter(|&i| ctx.wants_s(subjects[i].as_ref()) && super::constructible(subjects[i].as_ref())).collect();
    let subjects_ref = &subjects;
    par_for(wanted.len(), rep, |wi, r| {
        let s = subjects_ref[wanted[wi]].as_ref();
        let name = s.name();
        let lens = s.key_lens();
        let mut pick: Vec<usize> = vec![lens[0], lens[lens.len() / 2], lens[lens.len() - 1]];
        pick.dedup();
        let key0 = vec![0u8; lens[0]];
        let mut first_text: Option<String> = None;
        for len in pick {
            let keys = if ctx.tier == Tier::Quick || name.starts_with("RC5<") { al::s_set(len, 1) } else { al::m_set(len, 1) };
            for (ki, key) in keys.iter().enumerate() {
                r.evaluations += 1;
                r.calls += 2;
                match check_debug(s, &key0, key) {
                    Ok(()) => {
                        if ki > 0 {
                            r.distinct_count += 1;
                        }
                    }
                    Err((e, o, what)) => {
                        let case = json!({"kind":"debug","subject":name,"key0":hex(&key0),"key":hex(key)});
                        r.violate(Violation { property: P.into(), subject: name.clone(), what: what.into(), case, expected: e, observed: o, note: "Debug output".into(), index: ki as u64 });
                    }
                }
                if first_text.is_none() {
                    first_text = debug_of(s, key).ok().flatten();
                }
            }
        }
        if wi < 3 {
            r.sample(json!({"subject":name,"debug_text":first_text,"accepted_names":s.type_names(),"alg_name":s.alg_name(),"check":"Debug text equal for all keys and starts with the type's own name"}));
        }
        if !name.starts_with("RC5<") {
            r.evaluations += 1;
            r.distinct_count += 1;
            if let Err((e, o)) = check_params_in_name(&name, &s.alg_name()) {
                let case = json!({"kind":"algname-params","subject":name});
                r.violate(Violation { property: P.into(), subject: name.clone(), what: "algname-params".into(), case, expected: e, observed: o, note: "AlgorithmName must identify the parameters that are part of the type".into(), index: 0 });
            }
        }
        if name.starts_with("RC5<") {
            r.evaluations += 1;
            r.distinct_count += 1;
            if let Err((e, o)) = check_rc5_name(&name, &s.alg_name()) {
                let case = json!({"kind":"algname-rc5","subject":name});
                r.violate(Violation { property: P.into(), subject: name.clone(), what: "algname-params".into(), case, expected: e, observed: o, note: "AlgorithmName must identify word size, rounds and key length".into(), index: 0 });
            }
        }
    });
    // an algorithm name may not be the public name of a *different* algorithm / variant (e.g. TdesEde3 calling itself TdesEee3)
    for &i in &wanted {
        let a = subjects[i].as_ref();
        let an = norm(&a.alg_name());
        if a.type_names().iter().any(|n| norm(n) == an) {
            continue;
        }
        for &j in &wanted {
            let b = subjects[j].as_ref();
            if identity(&a.name()) != identity(&b.name()) && b.type_names().iter().any(|n| norm(n) == an) {
                rep.violate(Violation { property: P.into(), subject: a.name(), what: "algname-other-type".into(), case: json!({"kind":"algname-other-type","subject":a.name(),"other":b.name()}),
                    expected: "an algorithm name that identifies this type".into(), observed: format!("{} writes {:?}, the name of {}", a.name(), a.alg_name(), b.name()), note: "AlgorithmName names another algorithm".into(), index: 0 });
                break;
            }
        }
    }
    // pairwise distinctness of algorithm names between different algorithms / variants / key sizes
    let mut by_name: BTreeMap<String, Vec<String>> = BTreeMap::new();
    for &i in &wanted {
        let s = subjects[i].as_ref();
        by_name.entry(s.alg_name()).or_default().push(s.name());
    }
    let n = wanted.len() as u64;
    rep.evaluations += n * (n.saturating_sub(1)) / 2;
    rep.distinct_count += n * (n.saturating_sub(1)) / 2;
    for (alg, subs) in &by_name {
        let mut ids: Vec<String> = subs.iter().map(|x| identity(x)).collect();
        ids.sort();
        ids.dedup();
        if ids.len() > 1 {
            // report each colliding subject once, against the first of a different identity
            for sname in subs {
                if let Some(other) = subs.iter().find(|o| identity(o) != identity(sname)) {
                    let case = json!({"kind":"algname-collision","subject":sname,"other":other});
                    rep.violate(Violation { property: P.into(), subject: sname.clone(), what: "algname-collision".into(), case, expected: "distinct algorithm names for different algorithms / parameters".into(), observed: format!("{sname} and {other} both write {alg:?}"), note: "AlgorithmName does not identify the concrete algorithm".into(), index: 0 });
                }
            }
        }
    }
}
