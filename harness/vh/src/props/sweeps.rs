//! Full-domain conformance sweeps (implementation vs reference model over a complete finite domain):
//!  * IDEA: all 2^32 (block word, key word) operand pairs of the first-round multiplication (thorough; 64 key words x
//!    all 2^16 block words in the quick tier), all 2^16 values of the key words that feed mul_inv / add_inv;
//!  * RC5 with 8-bit words: all 2^16 blocks; RC5 with 16-bit words and Speck32/64: all 2^32 blocks (thorough).
#![cfg(not(feature = "lite"))]
use super::Ctx;
use crate::alphabet::{self as al, Tier, hex, unhex};
use crate::refmap::reference;
use crate::report::{Report, Violation, guarded, par_for};
use crate::subjects::{Dir, Subject, all_subjects};
use serde_json::{Value, json};

/// Compare E and D of every block in [lo, hi) (block = little-endian counter in the first bytes, `fill` elsewhere).
fn sweep_range(s: &dyn Subject, key: &[u8], lo: u64, hi: u64, counter_bytes: usize, fill: &[u8], be: bool) -> Result<u64, (u64, String, String)> {
    let bs = s.bs();
    let name = s.name();
    let inst = s.from_slice(key).map_err(|_| (lo, "constructs".to_string(), "InvalidLength".to_string()))?;
    let rf = reference(&name, key).ok_or((lo, "reference".to_string(), "none".to_string()))?;
    let mut nontrivial = 0;
    const CH: usize = 1024;
    let mut buf = vec![0u8; CH * bs];
    let mut exp = vec![0u8; bs];
    let mut v = lo;
    while v < hi {
        let n = ((hi - v) as usize).min(CH);
        let mk = |x: u64, out: &mut [u8]| {
            out.copy_from_slice(&fill[..bs]);
            let b = x.to_le_bytes();
            for i in 0..counter_bytes {
                out[i] = if be { b[counter_bytes - 1 - i] } else { b[i] };
            }
        };
        for dir in [Dir::Enc, Dir::Dec] {
            for j in 0..n {
                mk(v + j as u64, &mut buf[j * bs..(j + 1) * bs]);
            }
            inst.blocks(dir, &mut buf[..n * bs]);
            for j in 0..n {
                mk(v + j as u64, &mut exp);
                let inp = exp.clone();
                match dir {
                    Dir::Enc => rf.encrypt(&mut exp),
                    Dir::Dec => rf.decrypt(&mut exp),
                }
                if buf[j * bs..(j + 1) * bs] != exp[..] {
                    return Err((v + j as u64, format!("{dir:?}({}) = {}", hex(&inp), hex(&exp)), format!("{}", hex(&buf[j * bs..(j + 1) * bs]))));
                }
                if exp != inp {
                    nontrivial += 1;
                }
            }
        }
        v += n as u64;
    }
    Ok(nontrivial)
}

struct Job {
    subject: String,
    key: Vec<u8>,
    lo: u64,
    hi: u64,
    counter_bytes: usize,
    fill: Vec<u8>,
    be: bool,
}

fn run_jobs(pid: &'static str, jobs: Vec<Job>, subjects: &[Box<dyn Subject>], rep: &mut Report) {
    let jobs = &jobs;
    par_for(jobs.len(), rep, |i, r| {
        let j = &jobs[i];
        let s = subjects.iter().find(|x| x.name() == j.subject).unwrap();
        r.evaluations += 2 * (j.hi - j.lo);
        r.ref_compared += 2 * (j.hi - j.lo);
        r.calls += 1 + 2 * (j.hi - j.lo).div_ceil(1024);
        let case = json!({"kind":"domain-sweep","subject":j.subject,"key":hex(&j.key),"lo":j.lo,"hi":j.hi,"counter_bytes":j.counter_bytes,"fill":hex(&j.fill),"be":j.be});
        match guarded(|| sweep_range(s.as_ref(), &j.key, j.lo, j.hi, j.counter_bytes, &j.fill, j.be)) {
            Ok(Ok(nt)) => {
                r.distinct_count += nt;
                r.count("full_domain_cases", 2 * (j.hi - j.lo));
            }
            Ok(Err((x, e, o))) => {
                let mut c = case.clone();
                c["lo"] = json!(x);
                c["hi"] = json!(x + 1);
                r.violate(Violation { property: pid.into(), subject: j.subject.clone(), what: "conformance".into(), case: c, expected: e, observed: o, note: "full-domain sweep: implementation disagrees with the reference model".into(), index: i as u64 });
            }
            Err(p) => r.violate(Violation { property: pid.into(), subject: j.subject.clone(), what: "panic".into(), case, expected: "no panic".into(), observed: p, note: "full-domain sweep".into(), index: i as u64 }),
        }
        if i == 0 {
            r.sample(json!({"subject":j.subject,"key":hex(&j.key),"domain":format!("blocks with counter in [{:#x},{:#x})", j.lo, j.hi),"check":"E and D equal the reference model on every element of the domain"}));
        }
    });
}

pub fn replay(case: &Value) -> Result<(), String> {
    let subjects = all_subjects();
    let s = subjects.iter().find(|x| x.name() == case["subject"].as_str().unwrap()).ok_or("subject")?;
    sweep_range(
        s.as_ref(),
        &unhex(case["key"].as_str().unwrap()),
        case["lo"].as_u64().unwrap(),
        case["hi"].as_u64().unwrap(),
        case["counter_bytes"].as_u64().unwrap() as usize,
        &unhex(case["fill"].as_str().unwrap()),
        case["be"].as_bool().unwrap_or(false),
    )
    .map(|_| ())
    .map_err(|(x, e, o)| format!("element {x:#x}: expected {e}, observed {o}"))
}

/// IDEA: the first-round multiplication mul(x1, K1) sees block word x1 (big-endian bytes 0..2) and key word K1
/// (big-endian key bytes 0..2): sweeping both covers all operand pairs of `mul` through the public API (the rest of
/// the cipher is a bijection, so a wrong product always changes the ciphertext).  Key words 0..7 also feed
/// mul_inv / add_inv in the decryption key schedule.
pub fn run_c09(ctx: &Ctx, rep: &mut Report) {
    if !ctx.wants_k("idea", "Idea") {
        return;
    }
    let subjects = all_subjects();
    let mut jobs = Vec::new();
    let kwords: Vec<u32> = if ctx.tier == Tier::Quick {
        let mut v: Vec<u32> = vec![0, 1, 2, 3, 0x7FFF, 0x8000, 0x8001, 0xFFFE, 0xFFFF, 0x0100, 0x00FF, 0xFF00];
        let mut s = 0x1234u64;
        while v.len() < 64 {
            v.push((al::splitmix64(&mut s) & 0xFFFF) as u32);
        }
        v
    } else {
        (0..=0xFFFF).collect()
    };
    for &k in &kwords {
        for variant in 0..2 {
            let mut key = if variant == 0 { vec![0u8; 16] } else { al::dense(16, 120, 0) };
            key[0] = (k >> 8) as u8;
            key[1] = k as u8;
            let fill = if variant == 0 { vec![0u8; 8] } else { al::dense(8, 121, 0) };
            if ctx.tier == Tier::Quick && variant == 1 && k > 3 && k < 0xFFFE {
                continue;
            }
            jobs.push(Job { subject: "Idea".into(), key, lo: 0, hi: 1 << 16, counter_bytes: 2, fill, be: true });
        }
    }
    // every value of every key word (mul_inv / add_inv in the inverted key schedule), 4 blocks each
    for word in 0..8usize {
        for k in (0..=0xFFFFu32).step_by(if ctx.tier == Tier::Quick && word > 1 { 17 } else { 1 }) {
            let mut key = al::dense(16, 122, word as u64);
            key[2 * word] = (k >> 8) as u8;
            key[2 * word + 1] = k as u8;
            jobs.push(Job { subject: "Idea".into(), key, lo: 0, hi: 4, counter_bytes: 2, fill: al::dense(8, 123, 0), be: true });
        }
    }
    run_jobs("C09", jobs, &subjects, rep);
}

pub fn run_c10(ctx: &Ctx, rep: &mut Report) {
    let subjects = all_subjects();
    let mut jobs = Vec::new();
    for s in &subjects {
        let n = s.name();
        if !ctx.wants_s(s.as_ref()) {
            continue;
        }
        let klen = s.key_lens()[0];
        let mut keys = al::t_set(klen, 1);
        keys.extend(al::d(klen, 124, 6));
        keys.dedup();
        if n.starts_with("RC5<u8,") {
            let nk = if ctx.tier == Tier::Quick { 4 } else { keys.len() };
            for k in keys.iter().take(nk) {
                jobs.push(Job { subject: n.clone(), key: k.clone(), lo: 0, hi: 1 << 16, counter_bytes: 2, fill: vec![0; 2], be: false });
            }
        } else if ctx.tier == Tier::Thorough && (n == "RC5<u16,16,8>" || n == "RC5<u16,12,16>" || n == "Speck32_64") {
            let k = al::dense(klen, 125, 0);
            for sl in 0..256u64 {
                jobs.push(Job { subject: n.clone(), key: k.clone(), lo: sl << 24, hi: (sl + 1) << 24, counter_bytes: 4, fill: vec![0; 4], be: false });
            }
        }
    }
    run_jobs("C10", jobs, &subjects, rep);
}
