//! C16 – dropping a cipher erases every key-dependent byte (zeroize feature).
use super::Ctx;
use crate::alphabet::{self as al, Tier, hex, unhex};
use crate::report::{Report, Violation, guarded, par_for};
use crate::subjects::{Route, Subject, all_subjects};
use serde_json::{Value, json};

const P: &str = "C16";
const CANARIES: [u8; 3] = [0xC3, 0x3C, 0x69];

pub const ROUTES: [Route; 8] = [
    Route::New,
    Route::FromSlice,
    Route::Clone,
    Route::CloneOfClone,
    Route::CloneDropOrig,
    Route::FromEncVal,
    Route::FromEncRef,
    Route::CloneOfConverted,
];

/// Storage positions that are stable for a key (same bytes under three canaries) – None where unstable.
fn stable_image(s: &dyn Subject, key: &[u8], route: Route) -> Option<(Vec<Option<u8>>, Vec<Vec<u8>>)> {
    let mut befores = Vec::new();
    let mut afters = Vec::new();
    for &c in &CANARIES {
        let p = s.zprobe(key, route, c)?;
        befores.push(p.before);
        afters.push(p.after);
    }
    let n = befores[0].len();
    let img = (0..n).map(|i| if befores.iter().all(|b| b[i] == befores[0][i]) { Some(befores[0][i]) } else { None }).collect();
    Some((img, afters))
}

/// Returns Ok(number of key-dependent positions) or Err(description).
pub fn check_keys(s: &dyn Subject, route: Route, keys: &[Vec<u8>]) -> Result<Option<(usize, usize)>, (String, String)> {
    let dead = std::cell::Cell::new(0usize);
    let live_pos: std::cell::RefCell<std::collections::HashMap<usize, bool>> = Default::default();
    let r = guarded(|| -> Result<Option<(usize, usize)>, (String, String)> {
        let mut images = Vec::new();
        for k in keys {
            match stable_image(s, k, route) {
                Some(x) => images.push(x),
                None => return Ok(None), // route not available for this subject
            }
        }
        let n = images[0].0.len();
        // key-dependent: stable in every build and different between at least two keys
        let mut dependent = vec![false; n];
        for i in 0..n {
            let vals: Vec<Option<u8>> = images.iter().map(|(img, _)| img[i]).collect();
            if vals.iter().all(|v| v.is_some()) && vals.iter().any(|v| *v != vals[0]) {
                dependent[i] = true;
            }
        }
        let ndep = dependent.iter().filter(|&&d| d).count();
        for (ki, (_, afters)) in images.iter().enumerate() {
            for a in afters {
                let bad: Vec<usize> = (0..n).filter(|&i| dependent[i] && a[i] != 0).collect();
                // a surviving byte only counts if it is live storage: flipping it changes the instance's behaviour.
                // Dead storage (padding, the inactive arm of the autodetect union, stack residue copied along by a move)
                // is not key material the instance holds.
                // A position is live if flipping it changes the behaviour of an instance built the same way from ANY key of
                // the set (not only this one): CAST5 ignores masking[12..16] / rotate[12..16] under a key of at most 80
                // bits, but the key schedule fills them and they are fields of the cipher, not residue (seed C16r4-1).
                let live: Vec<usize> = bad
                    .iter()
                    .copied()
                    .filter(|&i| {
                        // per position, memoised: the answer does not depend on the key under test
                        *live_pos.borrow_mut().entry(i).or_insert_with(|| keys.iter().any(|k2| s.live_byte(k2, route, i).unwrap_or(true)))
                    })
                    .collect();
                if !live.is_empty() {
                    return Err((
                        format!("all {ndep} key-dependent bytes of the {n}-byte instance read 0 after drop"),
                        format!("{} live key-dependent byte(s) survive the drop, first at offset {} (value {:#04x}) for key #{ki} = {}", live.len(), live[0], a[live[0]], hex(&keys[ki])),
                    ));
                }
                if !bad.is_empty() {
                    dead.set(dead.get() + bad.len());
                }
            }
        }
        Ok(Some((ndep, dead.get())))
    });
    r.unwrap_or_else(|p| Err(("no panic".into(), format!("panic: {p}"))))
}

fn keys_for(len: usize) -> Vec<Vec<u8>> {
    let mut v = vec![al::z(len), al::o(len)];
    let w = al::w1(len);
    if !w.is_empty() {
        v.push(w[0].clone());
        v.push(w[w.len() / 2].clone());
        v.push(w[w.len() - 1].clone());
    }
    v.extend(al::d(len, 60, 3));
    v.push(al::ramp(len));
    v
}

pub fn replay(case: &Value) -> Result<(), String> {
    let subjects = all_subjects();
    let name = case["subject"].as_str().unwrap();
    let s = subjects.iter().find(|x| x.name() == name).ok_or("unknown subject")?;
    let route: Route = serde_json::from_value(case["route"].clone()).map_err(|e| e.to_string())?;
    let keys: Vec<Vec<u8>> = case["keys"].as_array().unwrap().iter().map(|k| unhex(k.as_str().unwrap())).collect();
    check_keys(s.as_ref(), route, &keys).map(|_| ()).map_err(|(e, o)| format!("expected {e}, observed {o}"))
}

pub fn run(ctx: &Ctx, rep: &mut Report) {
    if !cfg!(feature = "fz") {
        rep.notes.push("zeroize feature off in this build: C16 not applicable to this configuration".into());
        return;
    }
    let subjects = all_subjects();
    let mut work: Vec<(usize, Route, Vec<Vec<u8>>)> = Vec::new();
    for (si, s) in subjects.iter().enumerate() {
        if !ctx.wants_s(s.as_ref()) || !super::constructible(s.as_ref()) {
            continue;
        }
        let lens = s.key_lens();
        for route in ROUTES {
            // fixed-size routes use KeySize; slice routes mix several lengths so that length-derived fields count
            let keys: Vec<Vec<u8>> = match route {
                Route::New | Route::FromEncVal | Route::FromEncRef | Route::CloneOfConverted => keys_for(s.key_size()),
                _ => {
                    let mut pick = vec![lens[0], lens[lens.len() / 2], lens[lens.len() - 1]];
                    pick.dedup();
                    if ctx.tier == Tier::Thorough && lens.len() > 3 {
                        pick = lens.clone();
                    }
                    pick.iter().flat_map(|&l| keys_for(l)).collect()
                }
            };
            if route == Route::New && !lens.contains(&s.key_size()) {
                continue;
            }
            work.push((si, route, keys));
        }
    }
    let subjects_ref = &subjects;
    par_for(work.len(), rep, |wi, r| {
        let (si, route, keys) = &work[wi];
        let s = subjects_ref[*si].as_ref();
        let name = s.name();
        match check_keys(s, *route, keys) {
            Ok(None) => {}
            Ok(Some((ndep, dead))) => {
                r.count("dead_storage_bytes_ignored", dead as u64);
                r.evaluations += (keys.len() * CANARIES.len()) as u64;
                r.calls += (keys.len() * CANARIES.len() * 2) as u64;
                if ndep > 0 {
                    r.distinct_count += keys.len() as u64;
                } else {
                    r.notes.push(format!("{name} via {route:?}: no key-dependent stable byte found (size_of = {})", s.size_of()));
                    r.count("no_key_dependent_bytes", 1);
                }
                r.count("key_dependent_bytes_checked", ndep as u64);
                if r.samples.len() < 2 {
                    r.sample(json!({"subject":name,"route":route,"keys":keys.len(),"size_of":s.size_of(),"key_dependent_bytes":ndep,
                        "check":"every stable, key-dependent storage byte reads 0 after ptr::drop_in_place"}));
                }
            }
            Err((e, o)) => {
                r.evaluations += (keys.len() * CANARIES.len()) as u64;
                let again = check_keys(s, *route, keys);
                if again.is_err() {
                    let case = json!({"kind":"zeroize","subject":name,"route":route,"keys":keys.iter().map(|k| hex(k)).collect::<Vec<_>>()});
                    r.violate(Violation { property: P.into(), subject: name.clone(), what: "not-erased".into(), case, expected: e, observed: o, note: "key-dependent bytes survive drop".into(), index: wi as u64 });
                } else {
                    r.count("nondeterministic", 1);
                }
            }
        }
    });
}
