//! C14 – bcrypt (eksblowfish) key-setup primitives follow Provos–Mazières.
//! E2: stateright BFS over call histories on one Blowfish state; after every step the WHOLE state of the
//! implementation is compared with the reference state (raw storage words when the layout is the plain
//! 1042-word one, and always through 1024+ bc_encrypt probes that touch every S-box entry in round one).
#![cfg(feature = "fb")]
use super::Ctx;
use crate::alphabet::{self as al, Tier, hex};
use crate::report::{Report, Violation, guarded};
use blowfish::Blowfish;
use refmodels::blowfish::State;
use serde_json::{Value, json};
use stateright::{Checker, Model, Property};
use std::sync::atomic::{AtomicU64, Ordering};

pub struct Menu {
    pub keys: Vec<Vec<u8>>,
    pub salts: Vec<Vec<u8>>,
    pub words: Vec<[u32; 2]>,
}

pub fn menu() -> Menu {
    let klens = [1usize, 2, 3, 4, 5, 8, 17, 56, 72, 73, 100];
    let keys = klens.iter().enumerate().map(|(i, &l)| if i == 0 { vec![0u8; l] } else { al::distinct_bytes(l, i as u8) }).collect();
    let slens = [1usize, 3, 4, 15, 16, 17, 32, 72, 73, 100];
    let mut salts: Vec<Vec<u8>> = slens.iter().enumerate().map(|(i, &l)| al::dense(l, 100, i as u64)).collect();
    salts.push(vec![0u8; 16]); // all-zero salt
    salts.push(vec![0u8; 5]);
    Menu { keys, salts, words: vec![[0, 0], [!0, !0], [0x0123_4567, 0x89AB_CDEF]] }
}

/// action encoding: 0 init | 1+k expand(key k) | 32 + s*4 + kk salted(salt s, key kk in {0,4,7}) | 200+w encrypt(words w)
const SALT_KEYS: [usize; 4] = [0, 4, 7, 10];
pub fn describe(m: &Menu, a: u8) -> String {
    match a {
        0 => "state = bc_init_state()".into(),
        1..=31 => format!("bc_expand_key(key[{}B] = {})", m.keys[(a - 1) as usize].len(), hex(&m.keys[(a - 1) as usize])),
        32..=199 => {
            let s = ((a - 32) / 4) as usize;
            let k = SALT_KEYS[((a - 32) % 4) as usize];
            format!("salted_expand_key(salt[{}B] = {}, key[{}B] = {})", m.salts[s].len(), hex(&m.salts[s]), m.keys[k].len(), hex(&m.keys[k]))
        }
        _ => format!("bc_encrypt({:08x?})", m.words[(a - 200) as usize]),
    }
}

fn probes() -> Vec<[u32; 2]> {
    let mut v = Vec::with_capacity(1030);
    for pos in 0..4 {
        for val in 0..256u32 {
            v.push([val << (8 * pos), 0x5555_5555]);
        }
    }
    v.extend([[0, 0], [!0, !0], [0xDEAD_BEEF, 0x0BAD_F00D]]);
    v
}

/// Compare implementation and reference state completely.
fn same_state(imp: &Blowfish, rf: &State) -> Result<(), String> {
    // (a) raw storage, if it is exactly the 1042 state words (either field order)
    if std::mem::size_of::<Blowfish>() == 4 * 1042 {
        let raw: &[u32; 1042] = unsafe { &*(imp as *const Blowfish as *const [u32; 1042]) };
        let mut sp: Vec<u32> = rf.s.iter().flatten().copied().collect();
        sp.extend_from_slice(&rf.p);
        let mut ps: Vec<u32> = rf.p.to_vec();
        ps.extend(rf.s.iter().flatten());
        if raw[..] != sp[..] && raw[..] != ps[..] {
            let ord = if raw[..18] == rf.p[..] || raw[1024..] != rf.p[..] && raw[..18].iter().zip(&rf.p).filter(|(a, b)| a == b).count() > 9 { &ps } else { &sp };
            let i = (0..1042).find(|&i| raw[i] != ord[i]).unwrap();
            return Err(format!("state word {i} of 1042 is {:08x}, reference has {:08x}", raw[i], ord[i]));
        }
    }
    // (b) behavioural: probes touching every S-box entry in the first round, and every P word
    for lr in probes() {
        let a = imp.bc_encrypt(lr);
        let b = rf.encrypt_words(lr);
        if a != b {
            return Err(format!("bc_encrypt({lr:08x?}) = {a:08x?}, reference state gives {b:08x?}"));
        }
    }
    Ok(())
}

pub struct BcModel {
    pub menu: Menu,
    pub depth: usize,
    pub calls: AtomicU64,
    pub compared: AtomicU64,
}

impl BcModel {
    pub fn execute(&self, hist: &[u8]) -> Result<(), String> {
        let mut imp = Blowfish::bc_init_state();
        let mut rf = State::init();
        let m = &self.menu;
        same_state(&imp, &rf).map_err(|e| format!("initial state: {e}"))?;
        for (step, &a) in hist.iter().enumerate() {
            self.calls.fetch_add(1, Ordering::Relaxed);
            match a {
                0 => {
                    imp = Blowfish::bc_init_state();
                    rf = State::init();
                }
                1..=31 => {
                    let k = &m.keys[(a - 1) as usize];
                    imp.bc_expand_key(k);
                    rf.expand_key(k);
                }
                32..=199 => {
                    let s = &m.salts[((a - 32) / 4) as usize];
                    let k = &m.keys[SALT_KEYS[((a - 32) % 4) as usize]];
                    imp.salted_expand_key(s, k);
                    rf.salted_expand_key(s, k);
                }
                _ => {
                    let w = m.words[(a - 200) as usize];
                    let x = imp.bc_encrypt(w);
                    let y = rf.encrypt_words(w);
                    if x != y {
                        return Err(format!("step {step}: bc_encrypt({w:08x?}) = {x:08x?}, reference {y:08x?}"));
                    }
                }
            }
            self.compared.fetch_add(1, Ordering::Relaxed);
            same_state(&imp, &rf).map_err(|e| format!("after step {step} ({}): {e}", describe(m, a)))?;
        }
        Ok(())
    }
}

impl Model for BcModel {
    type State = Vec<u8>;
    type Action = u8;
    fn init_states(&self) -> Vec<Self::State> {
        vec![Vec::new()]
    }
    fn actions(&self, state: &Self::State, actions: &mut Vec<Self::Action>) {
        if state.len() >= self.depth {
            return;
        }
        if !state.is_empty() {
            actions.push(0);
        }
        for k in 0..self.menu.keys.len() as u8 {
            actions.push(1 + k);
        }
        for s in 0..self.menu.salts.len() as u8 {
            for kk in 0..SALT_KEYS.len() as u8 {
                actions.push(32 + s * 4 + kk);
            }
        }
        for w in 0..self.menu.words.len() as u8 {
            actions.push(200 + w);
        }
    }
    fn next_state(&self, last: &Self::State, a: Self::Action) -> Option<Self::State> {
        let mut n = last.clone();
        n.push(a);
        Some(n)
    }
    fn format_action(&self, a: &Self::Action) -> String {
        describe(&self.menu, *a)
    }
    fn properties(&self) -> Vec<Property<Self>> {
        vec![Property::always("state equals the eksblowfish reference after every step", |m: &BcModel, s: &Vec<u8>| {
            // only the last step is new; but histories are re-executed in full on fresh objects
            matches!(guarded(|| m.execute(s)), Ok(Ok(())))
        })]
    }
}

/// bc_expand_key(k) on the initial state == salted_expand_key(0^m, k) == Blowfish::new_from_slice(k)
fn equivalences(rep: &mut Report) {
    use cipher::{BlockCipherEncrypt, KeyInit};
    let m = menu();
    for k in &m.keys {
        let mut a = Blowfish::bc_init_state();
        a.bc_expand_key(k);
        let mut rf = State::init();
        rf.expand_key(k);
        rep.evaluations += 1;
        rep.distinct_count += 1;
        rep.ref_compared += 1;
        if let Err(e) = same_state(&a, &rf) {
            rep.violate(viol(json!({"kind":"bc-equiv","which":"expand","key":hex(k)}), "reference ExpandKey(state, 0, key)".into(), e));
        }
        for zl in [1usize, 4, 16] {
            let mut b = Blowfish::bc_init_state();
            b.salted_expand_key(&vec![0u8; zl], k);
            rep.evaluations += 1;
            rep.distinct_count += 1;
            if let Err(e) = same_state(&b, &rf) {
                rep.violate(viol(json!({"kind":"bc-equiv","which":"zero-salt","salt_len":zl,"key":hex(k)}), "salted expansion with an all-zero salt equals the plain expansion".into(), e));
            }
        }
        if (4..=56).contains(&k.len()) {
            let c: Blowfish = Blowfish::new_from_slice(k).unwrap();
            rep.evaluations += 1;
            rep.distinct_count += 1;
            for lr in probes() {
                let mut blk = cipher::Block::<Blowfish>::default();
                blk[..4].copy_from_slice(&lr[0].to_be_bytes());
                blk[4..].copy_from_slice(&lr[1].to_be_bytes());
                c.encrypt_block(&mut blk);
                let w = a.bc_encrypt(lr);
                if blk[..4] != w[0].to_be_bytes() || blk[4..] != w[1].to_be_bytes() {
                    rep.violate(viol(json!({"kind":"bc-equiv","which":"keyinit","key":hex(k)}), "bc_expand_key on the initial state equals ordinary Blowfish keying".into(), format!("probe {lr:08x?} differs")));
                    break;
                }
            }
        }
    }
}


/// One salted / plain expansion for a (salt, key) pair, from the initial state (`pre` = 0), from the state after a prior
/// plain expansion (1) or after a prior salted expansion (2); state compared with the reference.
fn sweep_case(salt: &[u8], key: &[u8], pre: u8) -> Result<(), String> {
    let mut imp = Blowfish::bc_init_state();
    let mut rf = State::init();
    let pk = al::distinct_bytes(9, 3);
    let ps = al::dense(16, 102, 1);
    match pre {
        1 => {
            imp.bc_expand_key(&pk);
            rf.expand_key(&pk);
        }
        2 => {
            imp.salted_expand_key(&ps, &pk);
            rf.salted_expand_key(&ps, &pk);
        }
        _ => {}
    }
    if salt.is_empty() {
        imp.bc_expand_key(key);
        rf.expand_key(key);
    } else {
        imp.salted_expand_key(salt, key);
        rf.salted_expand_key(salt, key);
    }
    same_state(&imp, &rf)
}

/// Every salt length 1..=80 and every key length 1..=80 (the word stream wraps at every residue and period: a salt of
/// 12 bytes has a 3-word period, seed C14r4-1), dense and ramp contents, from initial and non-initial states.
fn length_sweeps(rep: &mut Report) {
    let keys = [al::distinct_bytes(1, 1), al::distinct_bytes(8, 2), al::distinct_bytes(17, 3)];
    let mut cases: Vec<(Vec<u8>, Vec<u8>, u8)> = Vec::new();
    for l in 1..=80usize {
        for salt in [al::dense(l, 101, l as u64), al::ramp(l)] {
            for k in &keys {
                for pre in 0..3u8 {
                    cases.push((salt.clone(), k.clone(), pre));
                }
            }
        }
        for key in [al::dense(l, 103, l as u64), al::ramp(l)] {
            for pre in 0..3u8 {
                cases.push((Vec::new(), key.clone(), pre)); // plain expansion
                cases.push((al::dense(16, 104, 0), key.clone(), pre));
                cases.push((al::dense(l, 105, l as u64), key.clone(), pre)); // salt and key of the same length
            }
        }
    }
    for (salt, key, pre) in cases {
        rep.evaluations += 1;
        rep.distinct_count += 1;
        rep.ref_compared += 1;
        rep.calls += 2;
        let r = guarded(|| sweep_case(&salt, &key, pre)).unwrap_or_else(|p| Err(format!("panic: {p}")));
        if let Err(e) = r {
            rep.violate(viol(
                json!({"kind":"bc-sweep","salt":hex(&salt),"key":hex(&key),"pre":pre}),
                format!("reference state after {} with a {}-byte salt and a {}-byte key", if salt.is_empty() { "bc_expand_key" } else { "salted_expand_key" }, salt.len(), key.len()),
                e,
            ));
        }
    }
    rep.count("length_sweep_cases", 80 * (2 * 3 * 3 + 2 * 3 * 3));
}

fn viol(case: Value, expected: String, observed: String) -> Violation {
    Violation { property: "C14".into(), subject: "Blowfish(bcrypt)".into(), what: "eksblowfish".into(), case, expected, observed, note: "eksblowfish primitive differs from the reference".into(), index: 0 }
}

/// The real bcrypt cost loop as one long history (checked after every step).
fn cost_loop(cost: u32, salt: &[u8], key: &[u8]) -> Result<u64, String> {
    let mut imp = Blowfish::bc_init_state();
    let mut rf = State::init();
    imp.salted_expand_key(salt, key);
    rf.salted_expand_key(salt, key);
    same_state(&imp, &rf).map_err(|e| format!("after salted_expand_key: {e}"))?;
    let mut steps = 1;
    for i in 0..(1u64 << cost) {
        imp.bc_expand_key(key);
        rf.expand_key(key);
        imp.bc_expand_key(salt);
        rf.expand_key(salt);
        steps += 2;
        if i % 8 == 7 || i + 1 == (1u64 << cost) {
            same_state(&imp, &rf).map_err(|e| format!("cost {cost}, iteration {i}: {e}"))?;
        }
    }
    Ok(steps)
}

pub fn replay(case: &Value) -> Result<(), String> {
    match case["kind"].as_str().unwrap_or("") {
        "bc-history" => {
            let hist: Vec<u8> = case["history"].as_array().unwrap().iter().map(|x| x.as_u64().unwrap() as u8).collect();
            let m = BcModel { menu: menu(), depth: 99, calls: AtomicU64::new(0), compared: AtomicU64::new(0) };
            guarded(|| m.execute(&hist)).unwrap_or_else(|p| Err(format!("panic: {p}")))
        }
        "bc-cost" => cost_loop(case["cost"].as_u64().unwrap() as u32, &al::unhex(case["salt"].as_str().unwrap()), &al::unhex(case["key"].as_str().unwrap())).map(|_| ()),
        "bc-equiv" => {
            let mut r = Report::new();
            equivalences(&mut r);
            if r.violations.is_empty() { Ok(()) } else { Err(r.violations[0].observed.clone()) }
        }
        "bc-sweep" => guarded(|| sweep_case(&al::unhex(case["salt"].as_str().unwrap()), &al::unhex(case["key"].as_str().unwrap()), case["pre"].as_u64().unwrap() as u8)).unwrap_or_else(|p| Err(format!("panic: {p}"))),
        k => Err(format!("unknown case kind {k}")),
    }
}

pub fn run(ctx: &Ctx, rep: &mut Report) {
    let depth = if ctx.tier == Tier::Quick { 3 } else { 4 };
    let model = BcModel { menu: menu(), depth, calls: AtomicU64::new(0), compared: AtomicU64::new(0) };
    let checker = model.checker().threads(crate::report::threads()).spawn_bfs().join();
    let states = checker.unique_state_count() as u64;
    rep.evaluations += states;
    rep.distinct_count += states.saturating_sub(1);
    rep.calls += checker.model().calls.load(Ordering::Relaxed);
    rep.ref_compared += checker.model().compared.load(Ordering::Relaxed);
    rep.count("histories", states);
    rep.count("transitions", states.saturating_sub(1));
    rep.count("depth_bound", depth as u64);
    let example: Vec<String> = {
        let mut st: Vec<u8> = Vec::new();
        loop {
            let mut acts = Vec::new();
            checker.model().actions(&st, &mut acts);
            match acts.get(acts.len().saturating_sub(1 + 5 * st.len())) {
                Some(&a) => st.push(a),
                None => break,
            }
        }
        st.iter().map(|&a| describe(&checker.model().menu, a)).collect()
    };
    rep.sample(json!({"history":example,"menu":{"keys":11,"salts":12,"salted pairs":48,"encrypt words":3},
        "check":"after every step: 1042 raw state words equal the reference state and 1027 bc_encrypt probes agree"}));
    for (_n, path) in checker.discoveries() {
        let hist = path.last_state().clone();
        let msg = guarded(|| checker.model().execute(&hist)).unwrap_or_else(|p| Err(format!("panic: {p}")));
        let again = guarded(|| checker.model().execute(&hist)).unwrap_or_else(|p| Err(format!("panic: {p}")));
        if let (Err(m1), Err(_)) = (msg, again) {
            let steps: Vec<String> = hist.iter().map(|&a| describe(&checker.model().menu, a)).collect();
            rep.violate(viol(json!({"kind":"bc-history","history":hist,"steps":steps}), "state equals the eksblowfish reference after every step".into(), m1));
        } else {
            rep.count("nondeterministic", 1);
        }
    }
    equivalences(rep);
    length_sweeps(rep);
    // bcrypt cost loops
    let m = menu();
    let max_cost = if ctx.tier == Tier::Quick { 4 } else { 8 };
    for cost in 0..=max_cost {
        for (s, k) in [(&m.salts[4], &m.keys[4]), (&m.salts[1], &m.keys[8])] {
            rep.evaluations += 1;
            rep.distinct_count += 1;
            match guarded(|| cost_loop(cost, s, k)).unwrap_or_else(|p| Err(format!("panic: {p}"))) {
                Ok(steps) => {
                    rep.calls += steps;
                    rep.count("cost_loop_steps", steps);
                }
                Err(e) => rep.violate(viol(json!({"kind":"bc-cost","cost":cost,"salt":hex(s),"key":hex(k)}), "state equals the reference throughout the cost loop".into(), e)),
            }
        }
    }
}
