//! C04 – multi-block / b2b calls equal per-block calls; nothing else is written.
use super::{Ctx, constructible};
use crate::alphabet::{self as al, Tier, hex, unhex};
use crate::report::{Report, Violation, guarded, par_for};
use crate::subjects::{Dir, Inst, Shape, Subject, all_subjects};
use serde_json::{Value, json};

const P: &str = "C04";
const PAD: usize = 48;
const CANARY: u8 = 0xA5;

#[derive(Clone, Copy, Debug, PartialEq, Eq)]
pub enum Content {
    /// all blocks distinct, dense
    Distinct,
    /// all blocks equal
    Equal,
    /// block i = dense base with byte j replaced by (i + 1)
    DifferInByte(usize),
}

fn content_json(c: Content) -> Value {
    match c {
        Content::Distinct => json!("distinct"),
        Content::Equal => json!("equal"),
        Content::DifferInByte(j) => json!({"differ_in_byte": j}),
    }
}
fn content_from(v: &Value) -> Content {
    match v.as_str() {
        Some("distinct") => Content::Distinct,
        Some("equal") => Content::Equal,
        _ => Content::DifferInByte(v["differ_in_byte"].as_u64().unwrap() as usize),
    }
}

fn make_input(bs: usize, n: usize, c: Content) -> Vec<u8> {
    match c {
        Content::Distinct => (0..n).flat_map(|i| al::dense(bs, 40, i as u64)).collect(),
        Content::Equal => (0..n).flat_map(|_| al::dense(bs, 41, 0)).collect(),
        Content::DifferInByte(j) => (0..n)
            .flat_map(|i| {
                let mut b = al::dense(bs, 42, 0);
                b[j] = (i as u8).wrapping_add(1);
                b
            })
            .collect(),
    }
}

#[derive(Clone, Debug)]
pub struct Case {
    pub subject: String,
    pub key: Vec<u8>,
    pub dir: Dir,
    pub shape: Shape,
    pub n: usize,
    pub in_off: usize,
    pub out_off: usize,
    pub content: Content,
}

impl Case {
    fn to_json(&self) -> Value {
        json!({"kind":"shape","subject":self.subject,"key":hex(&self.key),"dir":self.dir,"shape":self.shape,"n":self.n,
               "in_off":self.in_off,"out_off":self.out_off,"content":content_json(self.content)})
    }
}

/// Execute one call shape inside canary-filled allocations and compare with per-block calls.
pub fn check_shape(inst: &dyn Inst, bs: usize, dir: Dir, shape: Shape, n: usize, in_off: usize, out_off: usize, content: Content) -> Result<bool, (String, String)> {
    let input = make_input(bs, n, content);
    // expected: the single-block call on a private copy of each block
    let mut expected = input.clone();
    for c in expected.chunks_exact_mut(bs) {
        inst.block(dir, c);
    }
    let total = PAD + 16 + n * bs + PAD;
    let mut a = vec![CANARY; total];
    let mut b = vec![CANARY; total];
    let sep = shape.separate();
    let (ioff, ooff) = (PAD + in_off, PAD + out_off);
    if sep {
        a[ioff..ioff + n * bs].copy_from_slice(&input);
    } else {
        b[ooff..ooff + n * bs].copy_from_slice(&input);
    }
    let ok = unsafe { inst.call(dir, shape, a.as_ptr().add(ioff), b.as_mut_ptr().add(ooff), n) };
    if !ok {
        return Err(("Ok(())".into(), "call returned an error".into()));
    }
    for i in 0..n {
        let got = &b[ooff + i * bs..ooff + (i + 1) * bs];
        let exp = &expected[i * bs..(i + 1) * bs];
        if got != exp {
            return Err((format!("output block {i} = {}", hex(exp)), format!("output block {i} = {}", hex(got))));
        }
    }
    if let Some(p) = (0..total).find(|&p| (p < ooff || p >= ooff + n * bs) && b[p] != CANARY) {
        return Err(("bytes outside the designated output blocks untouched".into(), format!("output allocation byte at offset {} relative to the first output block was overwritten with {:#04x}", p as isize - ooff as isize, b[p])));
    }
    if sep {
        if a[ioff..ioff + n * bs] != input[..] {
            return Err(("separate input buffer unchanged".into(), "input buffer was modified".into()));
        }
        if let Some(p) = (0..total).find(|&p| (p < ioff || p >= ioff + n * bs) && a[p] != CANARY) {
            return Err(("bytes around the input buffer untouched".into(), format!("input allocation byte at relative offset {} overwritten", p as isize - ioff as isize)));
        }
    }
    Ok(n > 0 && expected != input)
}

/// `*_blocks_b2b` with unequal lengths must return the error and write nothing.
pub fn check_unequal(inst: &dyn Inst, bs: usize, dir: Dir, n_in: usize, n_out: usize) -> Result<(), (String, String)> {
    let a = make_input(bs, n_in, Content::Distinct);
    let mut b = vec![CANARY; n_out * bs + 2 * PAD];
    let ok = unsafe { inst.b2b_len(dir, a.as_ptr(), n_in, b.as_mut_ptr().add(PAD), n_out) };
    if ok {
        return Err(("Err(NotEqualError)".into(), format!("Ok(()) for {n_in} input and {n_out} output blocks")));
    }
    if b.iter().any(|&x| x != CANARY) {
        return Err(("nothing written on error".into(), "output buffer was modified".into()));
    }
    Ok(())
}

fn run_case(subjects: &[Box<dyn Subject>], c: &Case) -> Result<bool, (String, String)> {
    let s = subjects.iter().find(|x| x.name() == c.subject).ok_or(("subject".to_string(), "unknown".to_string()))?;
    let r = guarded(|| {
        let inst = s.from_slice(&c.key).map_err(|_| ("constructs".to_string(), "InvalidLength".to_string()))?;
        check_shape(inst.as_ref(), s.bs(), c.dir, c.shape, c.n, c.in_off, c.out_off, c.content)
    });
    match r {
        Ok(x) => x,
        Err(p) => Err(("no panic".into(), format!("panic: {p}"))),
    }
}

pub fn replay(case: &Value) -> Result<(), String> {
    let subjects = all_subjects();
    if case["kind"].as_str() == Some("unequal") {
        let s = subjects.iter().find(|x| x.name() == case["subject"].as_str().unwrap()).ok_or("subject")?;
        let inst = s.from_slice(&unhex(case["key"].as_str().unwrap())).map_err(|_| "construct")?;
        let dir: Dir = serde_json::from_value(case["dir"].clone()).unwrap();
        return check_unequal(inst.as_ref(), s.bs(), dir, case["n_in"].as_u64().unwrap() as usize, case["n_out"].as_u64().unwrap() as usize)
            .map_err(|(e, o)| format!("expected {e}, observed {o}"));
    }
    let c = Case {
        subject: case["subject"].as_str().unwrap().to_string(),
        key: unhex(case["key"].as_str().unwrap()),
        dir: serde_json::from_value(case["dir"].clone()).unwrap(),
        shape: serde_json::from_value(case["shape"].clone()).unwrap(),
        n: case["n"].as_u64().unwrap() as usize,
        in_off: case["in_off"].as_u64().unwrap() as usize,
        out_off: case["out_off"].as_u64().unwrap() as usize,
        content: content_from(&case["content"]),
    };
    run_case(&subjects, &c).map(|_| ()).map_err(|(e, o)| format!("expected {e}, observed {o}"))
}

pub fn run(ctx: &Ctx, rep: &mut Report) {
    let subjects = all_subjects();
    let quick = ctx.tier == Tier::Quick;
    let nmax = if quick { 48 } else { 130 };
    let offsets: Vec<(usize, usize)> = if quick {
        vec![(0, 0), (1, 1), (3, 8), (15, 15), (0, 7)]
    } else {
        (0..16).flat_map(|i| (0..16).map(move |o| (i, o))).collect()
    };
    // work items: (subject index, key)
    let mut work: Vec<(usize, Vec<u8>)> = Vec::new();
    for (si, s) in subjects.iter().enumerate() {
        if !ctx.wants_s(s.as_ref()) || !constructible(s.as_ref()) {
            continue;
        }
        let name = s.name();
        if name.starts_with("RC5<") {
            // one generic implementation: the rounds=12 column of the grid and the published triples
            let (_, r, _) = crate::refmap::parse_rc5(&name).unwrap();
            if !(r == 12 || r == 16 || r >= 24) || (quick && r != 12) {
                continue;
            }
        }
        let lens = s.key_lens();
        let klen = lens[lens.len() / 2];
        let nk = if quick { 1 } else { 3 };
        for k in 0..nk {
            work.push((si, al::dense(klen, 43, k)));
        }
    }
    let subjects_ref = &subjects;
    par_for(work.len(), rep, |wi, r| {
        let (si, key) = &work[wi];
        let s = subjects_ref[*si].as_ref();
        let name = s.name();
        let bs = s.bs();
        let caps = s.caps();
        let inst = match guarded(|| s.from_slice(key)) {
            Ok(Ok(i)) => i,
            _ => {
                r.notes.push(format!("{name}: construction failed in C04 (reported by C11)"));
                return;
            }
        };
        r.calls += 1;
        let is_rc5 = name.starts_with("RC5<");
        let mut ns: Vec<usize> = if is_rc5 { (0..=5).collect() } else { (0..=nmax).collect() };
        if !is_rc5 {
            // a few large batches (8- and 16-bit loop counters, chunking of long slices)
            ns.extend([255usize, 256, 257, 1000]);
        }
        let mut idx = 0u64;
        for dir in [Dir::Enc, Dir::Dec] {
            if (dir == Dir::Enc && !caps.enc) || (dir == Dir::Dec && !caps.dec) {
                continue;
            }
            for &shape in &Shape::ALL {
                for &n in &ns {
                    // per-block shapes add nothing for large n
                    if matches!(shape, Shape::Block | Shape::BlockB2b | Shape::BlockInoutSep) && n > 3 {
                        continue;
                    }
                    for &(io, oo) in &offsets {
                        if n > 200 && ((io, oo) != (0, 0) || !matches!(shape, Shape::Blocks | Shape::BlocksB2b | Shape::BlocksInoutSep)) {
                            continue;
                        }
                        // thorough: every offset pair for n <= 19 (covers every native parallel width twice over);
                        // larger n only at the quick tier's five pairs
                        if offsets.len() > 5 && n > 19 && ![(0, 0), (1, 1), (3, 8), (15, 15), (0, 7)].contains(&(io, oo)) {
                            continue;
                        }
                        if !shape.separate() && io != oo && !(io == 0) {
                            continue; // in-place shapes only use the output offset
                        }
                        let mut contents = if n > 200 { vec![Content::Distinct] } else { vec![Content::Distinct, Content::Equal] };
                        if (io, oo) == (0, 0) && n <= 200 && matches!(shape, Shape::Blocks | Shape::BlocksB2b) {
                            contents.extend((0..bs).map(Content::DifferInByte));
                        }
                        for &content in &contents {
                            idx += 1;
                            r.evaluations += 1;
                            r.calls += 1 + n as u64;
                            let res = guarded(|| check_shape(inst.as_ref(), bs, dir, shape, n, io, oo, content));
                            let res = match res {
                                Ok(x) => x,
                                Err(p) => Err(("no panic".to_string(), format!("panic: {p}"))),
                            };
                            match res {
                                Ok(nt) => {
                                    if nt {
                                        r.distinct_count += 1;
                                    }
                                }
                                Err(_) => {
                                    let c = Case { subject: name.clone(), key: key.clone(), dir, shape, n, in_off: io, out_off: oo, content };
                                    let a = run_case(subjects_ref, &c);
                                    let b = run_case(subjects_ref, &c);
                                    if let (Err((e, o)), Err(_)) = (&a, &b) {
                                        r.violate(Violation { property: P.into(), subject: name.clone(), what: "shape".into(), case: c.to_json(), expected: e.clone(), observed: o.clone(), note: "multi-block / b2b call differs from per-block calls or writes outside its output".into(), index: idx });
                                    } else {
                                        r.count("nondeterministic", 1);
                                    }
                                }
                            }
                            if wi == 0 && r.samples.len() < 2 && n == 5 {
                                r.sample(json!({"subject":name,"key":hex(key),"dir":dir,"shape":shape,"n":n,"in_off":io,"out_off":oo,"content":content_json(content),
                                    "check":"out[i]==single(in[i]) for all i; canaries around output and input intact; separate input unchanged"}));
                            }
                        }
                    }
                }
            }
            // unequal lengths
            for (ni, no) in [(0usize, 1usize), (1, 0), (2, 3), (3, 2), (9, 10), (10, 9)] {
                r.evaluations += 1;
                r.calls += 1;
                r.distinct_count += 1;
                let res = guarded(|| check_unequal(inst.as_ref(), bs, dir, ni, no)).unwrap_or_else(|p| Err(("no panic".into(), format!("panic: {p}"))));
                if let Err((e, o)) = res {
                    let case = json!({"kind":"unequal","subject":name,"key":hex(key),"dir":dir,"n_in":ni,"n_out":no});
                    r.violate(Violation { property: P.into(), subject: name.clone(), what: "unequal-b2b".into(), case, expected: e, observed: o, note: "blocks_b2b with unequal lengths".into(), index: idx });
                }
            }
        }
    });
}
