//! C01 – decryption inverts encryption (every cipher, key, block, backend).
use super::{Ctx, constructible, star_items};
use crate::alphabet::{self as al, Tier, hex, unhex};
use crate::report::{Report, Violation, guarded, par_for};
use crate::subjects::{Dir, Subject, all_subjects};
use serde_json::{Value, json};

const P: &str = "C01";

fn viol(subject: &str, what: &str, case: Value, expected: String, observed: String, note: &str, index: u64) -> Violation {
    Violation {
        property: P.into(),
        subject: subject.into(),
        what: what.into(),
        case,
        expected,
        observed,
        note: note.into(),
        index,
    }
}

/// D(E(b)) == b and E(D(b)) == b through the single-block entry points. Returns (ok, E(b)).
fn roundtrip_ok(
    enc: &dyn crate::subjects::Inst,
    dec: &dyn crate::subjects::Inst,
    block: &[u8],
    tmp: &mut Vec<u8>,
) -> (bool, bool) {
    tmp.clear();
    tmp.extend_from_slice(block);
    enc.block(Dir::Enc, tmp);
    let nontrivial = tmp.as_slice() != block;
    dec.block(Dir::Dec, tmp);
    let ok1 = tmp.as_slice() == block;
    dec.block(Dir::Dec, tmp);
    enc.block(Dir::Enc, tmp);
    let ok2 = tmp.as_slice() == block;
    (ok1 && ok2, nontrivial)
}

/// How the (enc, dec) instance pair is built for a subject.
#[derive(Clone, Copy, Debug, PartialEq, Eq)]
enum Pairing {
    /// one combined instance from new_from_slice
    Same,
    /// Enc sibling via new + this (Dec) subject via new
    EncNewDecNew,
    /// Enc sibling via new + this subject via From<Enc> (by value)
    EncNewDecFromVal,
    /// Enc sibling via new + this subject via From<&Enc>
    EncNewDecFromRef,
}

fn pairing_name(p: Pairing) -> &'static str {
    match p {
        Pairing::Same => "same",
        Pairing::EncNewDecNew => "enc_new+dec_new",
        Pairing::EncNewDecFromVal => "enc_new+from_enc_val",
        Pairing::EncNewDecFromRef => "enc_new+from_enc_ref",
    }
}
fn pairing_from(s: &str) -> Pairing {
    match s {
        "enc_new+dec_new" => Pairing::EncNewDecNew,
        "enc_new+from_enc_val" => Pairing::EncNewDecFromVal,
        "enc_new+from_enc_ref" => Pairing::EncNewDecFromRef,
        _ => Pairing::Same,
    }
}

type BoxInst = Box<dyn crate::subjects::Inst>;

fn build(subjects: &[Box<dyn Subject>], s: &dyn Subject, key: &[u8], p: Pairing) -> Option<(BoxInst, BoxInst)> {
    match p {
        Pairing::Same => {
            let a = s.from_slice(key).ok()?;
            let b = s.from_slice(key).ok()?;
            Some((a, b))
        }
        _ => {
            let sib = s.enc_sibling()?;
            let es = subjects.iter().find(|x| x.name() == sib)?;
            let e = es.new_fixed(key);
            let d = match p {
                Pairing::EncNewDecNew => s.new_fixed(key),
                Pairing::EncNewDecFromVal => s.from_enc(key, false)?,
                _ => s.from_enc(key, true)?,
            };
            Some((e, d))
        }
    }
}

fn pairings(s: &dyn Subject) -> Vec<Pairing> {
    let c = s.caps();
    let mut v = Vec::new();
    if c.enc && c.dec {
        v.push(Pairing::Same);
    }
    if s.enc_sibling().is_some() && c.dec {
        if !c.enc {
            v.push(Pairing::EncNewDecNew);
        }
        v.push(Pairing::EncNewDecFromVal);
        v.push(Pairing::EncNewDecFromRef);
    }
    v
}

fn check_case(subjects: &[Box<dyn Subject>], subject: &str, pairing: Pairing, key: &[u8], block: &[u8]) -> Result<(), (String, String)> {
    let s = subjects.iter().find(|x| x.name() == subject).ok_or(("subject".to_string(), "unknown".to_string()))?;
    let r = guarded(|| {
        let (e, d) = build(subjects, s.as_ref(), key, pairing).ok_or("construct failed".to_string())?;
        let mut c = block.to_vec();
        e.block(Dir::Enc, &mut c);
        let mut p = c.clone();
        d.block(Dir::Dec, &mut p);
        if p != block {
            return Err(format!("D(E(b)) = {} with E(b) = {}", hex(&p), hex(&c)));
        }
        let mut q = block.to_vec();
        d.block(Dir::Dec, &mut q);
        let mut r = q.clone();
        e.block(Dir::Enc, &mut r);
        if r != block {
            return Err(format!("E(D(b)) = {} with D(b) = {}", hex(&r), hex(&q)));
        }
        Ok(())
    });
    match r {
        Ok(Ok(())) => Ok(()),
        Ok(Err(m)) => Err((hex(block), m)),
        Err(p) => Err((hex(block), format!("panic: {p}"))),
    }
}

pub fn replay(case: &Value) -> Result<(), String> {
    let subjects = all_subjects();
    match case["kind"].as_str().unwrap_or("") {
        "roundtrip" => {
            let subject = case["subject"].as_str().unwrap();
            let key = unhex(case["key"].as_str().unwrap());
            let block = unhex(case["block"].as_str().unwrap());
            let pairing = pairing_from(case["pairing"].as_str().unwrap_or("same"));
            check_case(&subjects, subject, pairing, &key, &block).map_err(|(e, o)| format!("expected {e}, observed {o}"))
        }
        "multi" => {
            let subject = case["subject"].as_str().unwrap();
            let key = unhex(case["key"].as_str().unwrap());
            let n = case["n"].as_u64().unwrap() as usize;
            check_multi(&subjects, subject, &key, n).map_err(|(e, o)| format!("expected {e}, observed {o}"))
        }
        "threefish" => threefish::replay(case),
        "wblock" => wblock::replay(case),
        "sweep" => sweep::replay(case),
        k => Err(format!("unknown case kind {k}")),
    }
}

/// D(E(x)) over a batch of n distinct blocks through `*_blocks`.
fn check_multi(subjects: &[Box<dyn Subject>], subject: &str, key: &[u8], n: usize) -> Result<(), (String, String)> {
    let s = subjects.iter().find(|x| x.name() == subject).unwrap();
    let bs = s.bs();
    let r = guarded(|| {
        let i = s.from_slice(key).map_err(|_| "construct failed".to_string())?;
        let orig: Vec<u8> = (0..n).flat_map(|j| al::dense(bs, 77, j as u64)).collect();
        let mut buf = orig.clone();
        i.blocks(Dir::Enc, &mut buf);
        i.blocks(Dir::Dec, &mut buf);
        if buf != orig {
            return Err(format!("decrypt_blocks(encrypt_blocks(x)) != x for n = {n}"));
        }
        i.blocks(Dir::Dec, &mut buf);
        i.blocks(Dir::Enc, &mut buf);
        if buf != orig {
            return Err(format!("encrypt_blocks(decrypt_blocks(x)) != x for n = {n}"));
        }
        // the same round trips through separate source and destination buffers (destinations hold garbage)
        use crate::subjects::Shape;
        for shape in [Shape::BlocksB2b, Shape::BlocksInoutSep, Shape::BlockB2b] {
            if !(n == 1 || n == 43) {
                break;
            }
            for first in [Dir::Enc, Dir::Dec] {
                let second = if first == Dir::Enc { Dir::Dec } else { Dir::Enc };
                let mut mid = vec![0xE7u8; n * bs];
                let mut back = vec![0x7Eu8; n * bs];
                unsafe {
                    i.call(first, shape, orig.as_ptr(), mid.as_mut_ptr(), n);
                    i.call(second, shape, mid.as_ptr(), back.as_mut_ptr(), n);
                }
                if back != orig {
                    return Err(format!("{second:?}({first:?}(x)) != x through {shape:?} with separate buffers, n = {n}"));
                }
            }
        }
        Ok(())
    });
    match r {
        Ok(Ok(())) => Ok(()),
        Ok(Err(m)) => Err(("x".into(), m)),
        Err(p) => Err(("x".into(), format!("panic: {p}"))),
    }
}

pub fn run(ctx: &Ctx, rep: &mut Report) {
    let subjects = all_subjects();
    // subjects that cannot be constructed at all are skipped here (see props::constructible)
    let ok: Vec<bool> = subjects.iter().map(|s| constructible(s.as_ref())).collect();
    for (s, c) in subjects.iter().zip(&ok) {
        if !c && ctx.wants_s(s.as_ref()) {
            rep.skipped += 1;
            rep.notes.push(format!("skipped (constructor panics, reported under C10/C11): {}", s.name()));
        }
    }
    let items = star_items(&subjects, ctx, |s| {
        let i = subjects.iter().position(|x| x.name() == s.name()).unwrap();
        ok[i] && !pairings(s).is_empty()
    });
    let subjects_ref = &subjects;
    par_for(items.len(), rep, |ii, r| {
        let it = &items[ii];
        let s = subjects_ref[it.subj].as_ref();
        let key = &it.star.keys[it.key as usize];
        let name = s.name();
        let mut tmp = Vec::with_capacity(s.bs());
        for pairing in pairings(s) {
            let built = guarded(|| build(subjects_ref, s, key, pairing));
            r.calls += 2;
            let (e, d) = match built {
                Ok(Some(x)) => x,
                Ok(None) | Err(_) => {
                    let case = json!({"kind":"roundtrip","subject":name,"pairing":pairing_name(pairing),"key":hex(key),"block":hex(&it.star.blocks[0])});
                    r.violate(viol(&name, "construct", case, "constructs".into(), format!("{:?}", built.err()), "accepted key did not construct", it.base));
                    continue;
                }
            };
            for (pi, &(_, b)) in it.star.pairs[it.range.clone()].iter().enumerate() {
                let block = &it.star.blocks[b as usize];
                r.evaluations += 1;
                r.calls += 4;
                let res = guarded(|| roundtrip_ok(e.as_ref(), d.as_ref(), block, &mut tmp));
                let (good, nontrivial) = match res {
                    Ok(x) => x,
                    Err(_) => (false, false),
                };
                if nontrivial {
                    r.distinct_count += 1; // star pairs are deduplicated by the enumerator
                }
                if r.samples.is_empty() && ii == 0 && pi < 2 {
                    r.sample(json!({"subject":name,"pairing":pairing_name(pairing),"key":hex(key),"block":hex(block),"check":"D(E(b))==b && E(D(b))==b"}));
                }
                if !good {
                    // re-execute twice outside the fast path before reporting
                    let a = check_case(subjects_ref, &name, pairing, key, block);
                    let b2 = check_case(subjects_ref, &name, pairing, key, block);
                    if let (Err((exp, obs)), Err(_)) = (&a, &b2) {
                        let case = json!({"kind":"roundtrip","subject":name,"pairing":pairing_name(pairing),"key":hex(key),"block":hex(block)});
                        r.violate(viol(&name, "roundtrip", case, exp.clone(), obs.clone(), "decrypt does not invert encrypt", it.base + pi as u64));
                    } else {
                        r.notes.push(format!("non-deterministic failure for {name} (fast path failed, replay passed)"));
                        r.count("nondeterministic", 1);
                    }
                }
            }
        }
        // once per key: multi-block round trip, n = 2*par+1 with par <= 21  => use several n
        if s.caps().enc && s.caps().dec {
            for n in [1usize, 9, 19, 43] {
                r.evaluations += 1;
                r.calls += 5;
                if let Err((e, o)) = check_multi(subjects_ref, &name, key, n) {
                    let case = json!({"kind":"multi","subject":name,"key":hex(key),"n":n});
                    r.violate(viol(&name, "multi-roundtrip", case, e, o, "multi-block round trip", it.base));
                }
            }
        }
    });
    threefish::run(ctx, rep);
    wblock::run(ctx, rep);
    sweep::run(ctx, rep);
}

/// Threefish under any tweak and through the u64 entry points.
mod threefish {
    use super::*;
    macro_rules! tf {
        ($name:expr, $t:ty, $nw:expr, $ctx:expr, $rep:expr) => {{
            if $ctx.wants_k("threefish", $name) && cfg!(not(feature = "lite")) {
                let keys = if $ctx.tier == Tier::Quick { al::t_set($nw * 8, 1) } else { al::s_set($nw * 8, 1) };
                let tweaks = if $ctx.tier == Tier::Quick { al::m_set(16, 3) } else { al::s_set(16, 3) };
                let blocks = al::t_set($nw * 8, 2);
                let work: Vec<(usize, usize)> = (0..keys.len()).flat_map(|k| (0..tweaks.len()).map(move |t| (k, t))).collect();
                par_for(work.len(), $rep, |i, r| {
                    let (k, t) = work[i];
                    for b in &blocks {
                        r.evaluations += 1;
                        r.calls += 5;
                        match one::<$nw>($name, &keys[k], &tweaks[t], b) {
                            Ok(nontrivial) => {
                                if nontrivial {
                                    r.distinct.insert(al::mix64(al::mix64(al::fnv64(&keys[k]) ^ $nw as u64, al::fnv64(&tweaks[t])), al::fnv64(b)));
                                }
                            }
                            Err(m) => {
                                let case = json!({"kind":"threefish","subject":$name,"key":hex(&keys[k]),"tweak":hex(&tweaks[t]),"block":hex(b)});
                                r.violate(viol($name, "tweak-roundtrip", case, hex(b), m, "Threefish round trip under a tweak", i as u64));
                            }
                        }
                    }
                    if i == 0 {
                        r.sample(json!({"subject":$name,"key":hex(&keys[k]),"tweak":hex(&tweaks[t]),"block":hex(&blocks[0]),"check":"new_with_tweak: D(E(b))==b, E(D(b))==b, bytes and u64 entry points"}));
                    }
                });
            }
        }};
    }

    pub fn one<const NW: usize>(name: &str, key: &[u8], tweak: &[u8], block: &[u8]) -> Result<bool, String> {
        guarded(|| match name {
            "Threefish256" => one_t::<::threefish::Threefish256>(key, tweak, block, |k, t| {
                ::threefish::Threefish256::new_with_tweak(k.try_into().unwrap(), t.try_into().unwrap())
            }, |c, b| { let mut w: [u64; 4] = w64(b); c.encrypt_block_u64(&mut w); b64(&w) }, |c, b| { let mut w: [u64; 4] = w64(b); c.decrypt_block_u64(&mut w); b64(&w) }),
            "Threefish512" => one_t::<::threefish::Threefish512>(key, tweak, block, |k, t| {
                ::threefish::Threefish512::new_with_tweak(k.try_into().unwrap(), t.try_into().unwrap())
            }, |c, b| { let mut w: [u64; 8] = w64(b); c.encrypt_block_u64(&mut w); b64(&w) }, |c, b| { let mut w: [u64; 8] = w64(b); c.decrypt_block_u64(&mut w); b64(&w) }),
            _ => one_t::<::threefish::Threefish1024>(key, tweak, block, |k, t| {
                ::threefish::Threefish1024::new_with_tweak(k.try_into().unwrap(), t.try_into().unwrap())
            }, |c, b| { let mut w: [u64; 16] = w64(b); c.encrypt_block_u64(&mut w); b64(&w) }, |c, b| { let mut w: [u64; 16] = w64(b); c.decrypt_block_u64(&mut w); b64(&w) }),
        })
        .unwrap_or_else(|p| Err(format!("panic: {p}")))
        .map(|x| { let _ = NW; x })
    }

    fn w64<const N: usize>(b: &[u8]) -> [u64; N] {
        let mut w = [0u64; N];
        for (i, c) in b.chunks_exact(8).enumerate() {
            w[i] = u64::from_le_bytes(c.try_into().unwrap());
        }
        w
    }
    fn b64(w: &[u64]) -> Vec<u8> {
        w.iter().flat_map(|x| x.to_le_bytes()).collect()
    }

    fn one_t<T>(
        key: &[u8],
        tweak: &[u8],
        block: &[u8],
        mk: impl Fn(&[u8], &[u8]) -> T,
        e64: impl Fn(&T, &[u8]) -> Vec<u8>,
        d64: impl Fn(&T, &[u8]) -> Vec<u8>,
    ) -> Result<bool, String>
    where
        T: cipher::BlockCipherEncrypt + cipher::BlockCipherDecrypt,
    {
        let c = mk(key, tweak);
        let mut x = cipher::Block::<T>::try_from(block).unwrap();
        c.encrypt_block(&mut x);
        let ct = x.to_vec();
        c.decrypt_block(&mut x);
        if x.as_slice() != block {
            return Err(format!("D(E(b)) = {}", hex(&x)));
        }
        c.decrypt_block(&mut x);
        let pt = x.to_vec();
        c.encrypt_block(&mut x);
        if x.as_slice() != block {
            return Err(format!("E(D(b)) = {}", hex(&x)));
        }
        // u64 entry points invert each other and agree with the byte API
        let ct64 = e64(&c, block);
        if ct64 != ct {
            return Err(format!("encrypt_block_u64 = {} but encrypt_block = {}", hex(&ct64), hex(&ct)));
        }
        if d64(&c, &ct64) != block {
            return Err("decrypt_block_u64(encrypt_block_u64(b)) != b".into());
        }
        if d64(&c, block) != pt {
            return Err("decrypt_block_u64 != decrypt_block".into());
        }
        Ok(ct.as_slice() != block)
    }

    pub fn run(ctx: &Ctx, rep: &mut Report) {
        tf!("Threefish256", ::threefish::Threefish256, 4, ctx, rep);
        tf!("Threefish512", ::threefish::Threefish512, 8, ctx, rep);
        tf!("Threefish1024", ::threefish::Threefish1024, 16, ctx, rep);
    }

    pub fn replay(case: &Value) -> Result<(), String> {
        let name = case["subject"].as_str().unwrap();
        let key = unhex(case["key"].as_str().unwrap());
        let tweak = unhex(case["tweak"].as_str().unwrap());
        let block = unhex(case["block"].as_str().unwrap());
        one::<0>(name, &key, &tweak, &block).map(|_| ())
    }
}

/// BelT wide-block pair on any input of at least 32 bytes.
mod wblock {
    use super::*;

    fn key_words(key: &[u8]) -> [u32; 8] {
        let mut k = [0u32; 8];
        for (i, c) in key.chunks_exact(4).enumerate() {
            k[i] = u32::from_le_bytes(c.try_into().unwrap());
        }
        k
    }

    pub fn data_for(len: usize, variant: usize) -> Vec<u8> {
        match variant {
            0 => vec![0; len],
            1 => vec![0xFF; len],
            2 => (0..len).map(|i| i as u8).collect(),
            v => al::dense(len, 9, v as u64),
        }
    }

    pub fn one(len: usize, variant: usize, key: &[u8]) -> Result<bool, String> {
        guarded(|| {
            let k = key_words(key);
            let orig = data_for(len, variant);
            let mut d = orig.clone();
            belt_block::belt_wblock_enc(&mut d, &k).map_err(|_| "enc returned InvalidLengthError".to_string())?;
            let nontrivial = d != orig;
            belt_block::belt_wblock_dec(&mut d, &k).map_err(|_| "dec returned InvalidLengthError".to_string())?;
            if d != orig {
                return Err("dec(enc(x)) != x".to_string());
            }
            belt_block::belt_wblock_dec(&mut d, &k).map_err(|_| "dec returned InvalidLengthError".to_string())?;
            belt_block::belt_wblock_enc(&mut d, &k).map_err(|_| "enc returned InvalidLengthError".to_string())?;
            if d != orig {
                return Err("enc(dec(x)) != x".to_string());
            }
            Ok(nontrivial)
        })
        .unwrap_or_else(|p| Err(format!("panic: {p}")))
    }

    pub fn run(ctx: &Ctx, rep: &mut Report) {
        if !ctx.wants_k("belt-block", "belt_wblock") || cfg!(feature = "lite") {
            return;
        }
        let mut lens: Vec<usize> = if ctx.tier == Tier::Quick { (32..=160).collect() } else { (32..=1024).collect() };
        lens.push(4096);
        lens.push(65537);
        if ctx.tier == Tier::Thorough {
            lens.push(4095);
            lens.push(65536);
            lens.push(131073);
        }
        let keys = al::t_set(32, 1);
        let nvar = 3 + 8;
        let work: Vec<(usize, usize)> = lens.iter().flat_map(|&l| (0..keys.len()).map(move |k| (l, k))).collect();
        par_for(work.len(), rep, |i, r| {
            let (len, k) = work[i];
            for v in 0..nvar {
                if len > 8192 && (v != 3 || (ctx.tier == Tier::Quick && k != 3)) {
                    continue;
                }
                r.evaluations += 1;
                r.calls += 4;
                match one(len, v, &keys[k]) {
                    Ok(nt) => {
                        if nt {
                            r.distinct.insert(al::mix64(al::mix64(len as u64, v as u64), al::fnv64(&keys[k])));
                        }
                    }
                    Err(m) => {
                        let case = json!({"kind":"wblock","len":len,"variant":v,"key":hex(&keys[k])});
                        r.violate(viol("belt_wblock", "wblock-roundtrip", case, "x".into(), m, "BelT wide block pair", i as u64));
                    }
                }
            }
            if i == 0 {
                r.sample(json!({"subject":"belt_wblock","len":len,"key":hex(&keys[k]),"data":"variant 0..10 (zero, ones, ramp, dense)","check":"dec(enc(x))==x && enc(dec(x))==x"}));
            }
        });
    }

    pub fn replay(case: &Value) -> Result<(), String> {
        one(case["len"].as_u64().unwrap() as usize, case["variant"].as_u64().unwrap() as usize, &unhex(case["key"].as_str().unwrap())).map(|_| ())
    }
}

/// Full block-domain sweeps for the small-block ciphers.
mod sweep {
    use super::*;

    /// all 2^(8*bs) blocks of `subject` under `key`; returns first failing block
    fn sweep(s: &dyn Subject, key: &[u8], lo: u64, hi: u64) -> Result<u64, (u64, String)> {
        let bs = s.bs();
        let inst = s.from_slice(key).map_err(|_| (lo, "construct".to_string()))?;
        const CH: usize = 4096;
        let mut buf = vec![0u8; CH * bs];
        let mut nontrivial = 0u64;
        let mut v = lo;
        while v < hi {
            let n = ((hi - v) as usize).min(CH);
            for j in 0..n {
                let x = v + j as u64;
                buf[j * bs..(j + 1) * bs].copy_from_slice(&x.to_le_bytes()[..bs]);
            }
            let b = &mut buf[..n * bs];
            inst.blocks(Dir::Enc, b);
            for j in 0..n {
                let x = v + j as u64;
                if b[j * bs..(j + 1) * bs] != x.to_le_bytes()[..bs] {
                    nontrivial += 1;
                }
            }
            inst.blocks(Dir::Dec, b);
            for j in 0..n {
                let x = v + j as u64;
                if b[j * bs..(j + 1) * bs] != x.to_le_bytes()[..bs] {
                    return Err((x, format!("D(E(b)) = {}", hex(&b[j * bs..(j + 1) * bs]))));
                }
            }
            inst.blocks(Dir::Dec, b);
            inst.blocks(Dir::Enc, b);
            for j in 0..n {
                let x = v + j as u64;
                if b[j * bs..(j + 1) * bs] != x.to_le_bytes()[..bs] {
                    return Err((x, format!("E(D(b)) = {}", hex(&b[j * bs..(j + 1) * bs]))));
                }
            }
            v += n as u64;
        }
        Ok(nontrivial)
    }

    pub fn run(ctx: &Ctx, rep: &mut Report) {
        let subjects = all_subjects();
        // (subject, number of keys quick, thorough)
        let mut plan: Vec<(String, usize, usize)> = vec![];
        for s in &subjects {
            let n = s.name();
            if !ctx.wants_s(s.as_ref()) || !constructible(s.as_ref()) {
                continue;
            }
            if n.starts_with("RC5<u8,") {
                plan.push((n, 8, 64)); // 2^16 blocks
            } else if n == "RC5<u16,16,8>" || n == "RC5<u16,12,16>" {
                plan.push((n, 0, 2)); // 2^32 blocks, thorough only
            } else if n == "Speck32_64" {
                plan.push((n, 0, 4));
            }
        }
        const SLICES: u64 = 64;
        let mut work = Vec::new();
        for (n, q, t) in &plan {
            let nk = if ctx.tier == Tier::Quick { *q } else { *t };
            let s = subjects.iter().find(|x| &x.name() == n).unwrap();
            let klen = s.key_lens()[0];
            let mut keys = al::m_set(klen, 1);
            keys.extend(al::d(klen, 5, 64));
            keys.dedup();
            for k in keys.into_iter().take(nk.max(0)) {
                let total: u64 = 1u64 << (8 * s.bs());
                let slices = if total > (1 << 20) { SLICES } else { 1 };
                for sl in 0..slices {
                    work.push((n.clone(), k.clone(), total / slices * sl, total / slices * (sl + 1)));
                }
            }
        }
        let subjects_ref = &subjects;
        par_for(work.len(), rep, |i, r| {
            let (n, k, lo, hi) = &work[i];
            let s = subjects_ref.iter().find(|x| &x.name() == n).unwrap();
            r.evaluations += hi - lo;
            r.calls += 4 * (hi - lo).div_ceil(4096);
            match guarded(|| sweep(s.as_ref(), k, *lo, *hi)) {
                Ok(Ok(nt)) => {
                    r.count("full_domain_blocks", hi - lo);
                    r.count("full_domain_nontrivial", nt);
                    r.distinct.insert(al::mix64(al::fnv64(n.as_bytes()), al::mix64(al::fnv64(k), *lo)));
                }
                Ok(Err((x, m))) => {
                    let case = json!({"kind":"sweep","subject":n,"key":hex(k),"lo":x,"hi":x+1});
                    r.violate(viol(n, "roundtrip", case, format!("block {x:#x}"), m, "full-domain sweep", i as u64));
                }
                Err(p) => {
                    let case = json!({"kind":"sweep","subject":n,"key":hex(k),"lo":lo,"hi":hi});
                    r.violate(viol(n, "panic", case, "no panic".into(), p, "full-domain sweep", i as u64));
                }
            }
            if i == 0 {
                r.sample(json!({"subject":n,"key":hex(k),"blocks":format!("all of [{lo:#x},{hi:#x})"),"check":"D(E(b))==b && E(D(b))==b over the whole block domain"}));
            }
        });
    }

    pub fn replay(case: &Value) -> Result<(), String> {
        let subjects = all_subjects();
        let n = case["subject"].as_str().unwrap();
        let s = subjects.iter().find(|x| x.name() == n).ok_or("subject")?;
        let k = unhex(case["key"].as_str().unwrap());
        sweep(s.as_ref(), &k, case["lo"].as_u64().unwrap(), case["hi"].as_u64().unwrap()).map(|_| ()).map_err(|(x, m)| format!("block {x:#x}: {m}"))
    }
}
