//! E2 – explicit-state exploration (stateright, BFS) of operation histories over a pool of instances.
//!
//! State = the history itself (a `Vec<u8>` of encoded actions): no state merging, so no canonicalisation
//! argument is needed.  `actions` lists the enabled menu entries (computed on an abstract replay that only
//! tracks which slot holds which kind/key), `next_state` appends, and the single `always` property
//! re-executes the whole history on FRESH REAL OBJECTS next to the reference model and compares every
//! observation.  The depth bound is enforced by offering no actions at the bound.
//!
//! Used by C12 (construction-route chains; every live instance is probed after every step) and
//! C15 (histories that also contain the encrypt/decrypt calls themselves, on several instances).
use super::Ctx;
use crate::alphabet::{self as al, Tier, hex};
use crate::refmap::reference;
use crate::report::{Report, Violation, guarded};
use crate::subjects::{Dir, Inst, Subject, Target, all_subjects};
use serde_json::{Value, json};
use stateright::{Checker, Model, Property};
use std::sync::atomic::{AtomicU64, Ordering};

pub const SLOTS: usize = 3;

#[derive(Clone, Copy, PartialEq, Eq, Debug, Hash)]
pub enum Kind {
    Full,
    Enc,
    Dec,
}

#[derive(Clone, Copy, PartialEq, Eq, Debug, Hash)]
pub enum Op {
    EncB0,
    EncB1,
    DecB0,
    DecB1,
    EncBatch,
    DecBatch,
}
const OPS: [Op; 6] = [Op::EncB0, Op::EncB1, Op::DecB0, Op::DecB1, Op::EncBatch, Op::DecBatch];

#[derive(Clone, Copy, PartialEq, Eq, Debug, Hash)]
pub enum Act {
    New(Kind, u8),
    FromVal(u8, Target),
    FromRef(u8, Target),
    Clone(u8),
    /// slot a .clone_from(&slot b)  (a != b, same kind)
    CloneFrom(u8, u8),
    Drop(u8),
    Call(u8, Op),
}

impl Act {
    pub fn encode(self) -> u8 {
        match self {
            Act::New(k, key) => (k as u8) * 4 + key, // 0..12
            Act::FromVal(s, t) => 16 + s * 2 + t as u8, // 16..22
            Act::FromRef(s, t) => 24 + s * 2 + t as u8, // 24..30
            Act::Clone(s) => 32 + s,
            Act::CloneFrom(a, b) => 40 + a * 4 + b,
            Act::Drop(s) => 36 + s,
            Act::Call(s, op) => 64 + s * 8 + op as u8,
        }
    }
    pub fn decode(b: u8) -> Act {
        let kind = |x: u8| match x {
            0 => Kind::Full,
            1 => Kind::Enc,
            _ => Kind::Dec,
        };
        let tgt = |x: u8| if x == 0 { Target::Full } else { Target::Dec };
        match b {
            0..=15 => Act::New(kind(b / 4), b % 4),
            16..=23 => Act::FromVal((b - 16) / 2, tgt((b - 16) % 2)),
            24..=31 => Act::FromRef((b - 24) / 2, tgt((b - 24) % 2)),
            32..=35 => Act::Clone(b - 32),
            36..=39 => Act::Drop(b - 36),
            40..=55 => Act::CloneFrom((b - 40) / 4, (b - 40) % 4),
            _ => Act::Call((b - 64) / 8, OPS[((b - 64) % 8) as usize]),
        }
    }
    pub fn describe(self) -> String {
        match self {
            Act::New(k, key) => format!("slot <- {k:?}::new(k{key})"),
            Act::FromVal(s, t) => format!("slot{s} <- {t:?}::from(slot{s})"),
            Act::FromRef(s, t) => format!("slot <- {t:?}::from(&slot{s})"),
            Act::Clone(s) => format!("slot <- slot{s}.clone()"),
            Act::CloneFrom(a, b) => format!("slot{a}.clone_from(&slot{b})"),
            Act::Drop(s) => format!("drop(slot{s})"),
            Act::Call(s, op) => format!("slot{s}.{op:?}"),
        }
    }
}

/// One family of types explored together (they share crate-level statics, if any).
pub struct Family {
    pub label: String,
    /// subject names for Full / Enc / Dec (Enc and Dec may be absent)
    pub full: String,
    pub enc: Option<String>,
    pub dec: Option<String>,
    pub keys: Vec<Vec<u8>>,
    pub b0: Vec<u8>,
    pub b1: Vec<u8>,
    pub batch: Vec<u8>,
    pub clone: bool,
    pub depth: usize,
    /// true: C15 menu (explicit calls, no probing); false: C12 menu (probe every live instance after every step)
    pub calls: bool,
    /// expected outputs per key: [enc b0, enc b1, dec b0, dec b1, enc batch, dec batch]
    pub expect: Vec<[Vec<u8>; 6]>,
}

pub struct HistModel {
    pub fam: Family,
    pub subjects: Vec<Box<dyn Subject>>,
    pub api_calls: AtomicU64,
    pub compared: AtomicU64,
}

fn abstract_pool(hist: &[u8]) -> [Option<(Kind, u8)>; SLOTS] {
    let mut pool: [Option<(Kind, u8)>; SLOTS] = [None; SLOTS];
    for &b in hist {
        let free = pool.iter().position(|s| s.is_none());
        match Act::decode(b) {
            Act::New(k, key) => pool[free.unwrap()] = Some((k, key)),
            Act::FromVal(s, t) => {
                let (_, key) = pool[s as usize].unwrap();
                pool[s as usize] = Some((if t == Target::Full { Kind::Full } else { Kind::Dec }, key));
            }
            Act::FromRef(s, t) => {
                let (_, key) = pool[s as usize].unwrap();
                pool[free.unwrap()] = Some((if t == Target::Full { Kind::Full } else { Kind::Dec }, key));
            }
            Act::Clone(s) => pool[free.unwrap()] = pool[s as usize],
            Act::CloneFrom(a, b) => pool[a as usize] = pool[b as usize],
            Act::Drop(s) => pool[s as usize] = None,
            Act::Call(..) => {}
        }
    }
    pool
}

impl HistModel {
    fn subject(&self, k: Kind) -> &dyn Subject {
        let n = match k {
            Kind::Full => &self.fam.full,
            Kind::Enc => self.fam.enc.as_ref().unwrap(),
            Kind::Dec => self.fam.dec.as_ref().unwrap(),
        };
        self.subjects.iter().find(|s| &s.name() == n).unwrap().as_ref()
    }

    fn do_op(&self, inst: &dyn Inst, op: Op) -> Vec<u8> {
        let f = &self.fam;
        let (dir, mut data, multi) = match op {
            Op::EncB0 => (Dir::Enc, f.b0.clone(), false),
            Op::EncB1 => (Dir::Enc, f.b1.clone(), false),
            Op::DecB0 => (Dir::Dec, f.b0.clone(), false),
            Op::DecB1 => (Dir::Dec, f.b1.clone(), false),
            Op::EncBatch => (Dir::Enc, f.batch.clone(), true),
            Op::DecBatch => (Dir::Dec, f.batch.clone(), true),
        };
        if multi { inst.blocks(dir, &mut data) } else { inst.block(dir, &mut data) }
        data
    }

    fn check_op(&self, inst: &dyn Inst, kind: Kind, key: u8, op: Op, step: usize, slot: usize) -> Result<(), String> {
        let enc_op = matches!(op, Op::EncB0 | Op::EncB1 | Op::EncBatch);
        if (enc_op && kind == Kind::Dec) || (!enc_op && kind == Kind::Enc) {
            return Ok(());
        }
        self.api_calls.fetch_add(1, Ordering::Relaxed);
        self.compared.fetch_add(1, Ordering::Relaxed);
        let got = self.do_op(inst, op);
        let exp = &self.fam.expect[key as usize][op as usize];
        if &got != exp {
            let n = got.len().min(32);
            return Err(format!("after step {step}: slot{slot} ({kind:?}, k{key}) {op:?} = {}.. but the reference for that key gives {}..", hex(&got[..n]), hex(&exp[..n])));
        }
        Ok(())
    }

    /// Re-execute a history on fresh real objects, comparing with the reference model.
    pub fn execute(&self, hist: &[u8]) -> Result<(), String> {
        let mut pool: Vec<Option<(Box<dyn Inst>, Kind, u8)>> = (0..SLOTS).map(|_| None).collect();
        for (step, &b) in hist.iter().enumerate() {
            let free = pool.iter().position(|s| s.is_none());
            self.api_calls.fetch_add(1, Ordering::Relaxed);
            match Act::decode(b) {
                Act::New(k, key) => {
                    let s = self.subject(k);
                    let kb = &self.fam.keys[key as usize];
                    let inst = s.from_slice(kb).map_err(|_| format!("step {step}: new_from_slice rejected an accepted key"))?;
                    pool[free.unwrap()] = Some((inst, k, key));
                }
                Act::FromVal(s, t) => {
                    let (inst, _, key) = pool[s as usize].take().unwrap();
                    let conv = inst.convert_val(t).map_err(|_| format!("step {step}: no conversion"))?;
                    pool[s as usize] = Some((conv, if t == Target::Full { Kind::Full } else { Kind::Dec }, key));
                }
                Act::FromRef(s, t) => {
                    let (inst, _, key) = pool[s as usize].as_ref().unwrap();
                    let conv = inst.convert_ref(t).ok_or(format!("step {step}: no conversion"))?;
                    let key = *key;
                    pool[free.unwrap()] = Some((conv, if t == Target::Full { Kind::Full } else { Kind::Dec }, key));
                }
                Act::Clone(s) => {
                    let (inst, k, key) = pool[s as usize].as_ref().unwrap();
                    let c = inst.try_clone().ok_or(format!("step {step}: not Clone"))?;
                    let (k, key) = (*k, *key);
                    pool[free.unwrap()] = Some((c, k, key));
                }
                Act::CloneFrom(a, b) => {
                    let (src, k, key) = pool[b as usize].take().unwrap();
                    let ok = pool[a as usize].as_mut().unwrap().0.clone_from_inst(src.as_ref());
                    if !ok {
                        return Err(format!("step {step}: clone_from not available"));
                    }
                    let dst = pool[a as usize].as_mut().unwrap();
                    dst.1 = k;
                    dst.2 = key;
                    pool[b as usize] = Some((src, k, key));
                }
                Act::Drop(s) => {
                    pool[s as usize] = None;
                }
                Act::Call(s, op) => {
                    let (inst, k, key) = pool[s as usize].as_ref().unwrap();
                    self.check_op(inst.as_ref(), *k, *key, op, step, s as usize)?;
                }
            }
            if !self.fam.calls {
                // C12 mode: after EVERY step every live instance is probed with every applicable operation
                for (slot, e) in pool.iter().enumerate() {
                    if let Some((inst, k, key)) = e {
                        for op in OPS {
                            self.check_op(inst.as_ref(), *k, *key, op, step, slot)?;
                        }
                    }
                }
            }
        }
        if self.fam.calls {
            // C15 mode: at the end of the history every survivor must still equal a fresh instance
            for (slot, e) in pool.iter().enumerate() {
                if let Some((inst, k, key)) = e {
                    for op in OPS {
                        self.check_op(inst.as_ref(), *k, *key, op, hist.len(), slot)?;
                    }
                }
            }
        }
        Ok(())
    }
}

impl Model for HistModel {
    type State = Vec<u8>;
    type Action = u8;

    fn init_states(&self) -> Vec<Self::State> {
        vec![Vec::new()]
    }

    fn actions(&self, state: &Self::State, actions: &mut Vec<Self::Action>) {
        if state.len() >= self.fam.depth {
            return;
        }
        let pool = abstract_pool(state);
        let free = pool.iter().position(|s| s.is_none());
        let f = &self.fam;
        if free.is_some() {
            let mut kinds = vec![Kind::Full];
            if f.enc.is_some() {
                kinds.push(Kind::Enc);
            }
            if f.dec.is_some() {
                kinds.push(Kind::Dec);
            }
            for k in kinds {
                for key in 0..f.keys.len() as u8 {
                    actions.push(Act::New(k, key).encode());
                }
            }
        }
        for (s, e) in pool.iter().enumerate() {
            let Some((k, _)) = e else { continue };
            let s = s as u8;
            if *k == Kind::Enc {
                for t in [Target::Full, Target::Dec] {
                    actions.push(Act::FromVal(s, t).encode());
                    if free.is_some() {
                        actions.push(Act::FromRef(s, t).encode());
                    }
                }
            }
            if f.clone && free.is_some() {
                actions.push(Act::Clone(s).encode());
            }
            if f.clone {
                // in-place clone from another live instance of the same kind (keyed differently or not)
                for (o, e2) in pool.iter().enumerate() {
                    if let Some((k2, _)) = e2 {
                        if o as u8 != s && k2 == k {
                            actions.push(Act::CloneFrom(s, o as u8).encode());
                        }
                    }
                }
            }
            actions.push(Act::Drop(s).encode());
            if f.calls {
                for op in OPS {
                    let enc_op = matches!(op, Op::EncB0 | Op::EncB1 | Op::EncBatch);
                    if (enc_op && *k == Kind::Dec) || (!enc_op && *k == Kind::Enc) {
                        continue;
                    }
                    actions.push(Act::Call(s, op).encode());
                }
            }
        }
    }

    fn next_state(&self, last: &Self::State, action: Self::Action) -> Option<Self::State> {
        let mut n = last.clone();
        n.push(action);
        Some(n)
    }

    fn format_action(&self, action: &Self::Action) -> String {
        Act::decode(*action).describe()
    }

    fn properties(&self) -> Vec<Property<Self>> {
        vec![Property::always("every observation equals the reference model for (key, input)", |m: &HistModel, s: &Vec<u8>| {
            matches!(guarded(|| m.execute(s)), Ok(Ok(())))
        })]
    }
}

pub fn build_family(subjects: &[Box<dyn Subject>], full: &str, enc: Option<&str>, dec: Option<&str>, depth: usize, calls: bool) -> Option<Family> {
    let s = subjects.iter().find(|x| x.name() == full)?;
    let bs = s.bs();
    let lens = s.key_lens();
    let ks = if lens.contains(&s.key_size()) { s.key_size() } else { lens[0] };
    let mut keys = vec![al::dense(ks, 95, 0), al::ramp(ks)];
    if let Some(&other) = lens.iter().find(|&&l| l != ks) {
        keys.push(al::dense(other, 95, 2));
    }
    let b0 = al::dense(bs, 96, 0);
    let b1 = al::ramp(bs);
    let batch: Vec<u8> = (0..22).flat_map(|j| al::dense(bs, 97, j)).collect();
    let mut expect = Vec::new();
    for k in &keys {
        let rf = reference(full, k)?;
        let one = |enc: bool, b: &Vec<u8>| {
            let mut x = b.clone();
            for c in x.chunks_exact_mut(bs) {
                if enc { rf.encrypt(c) } else { rf.decrypt(c) }
            }
            x
        };
        expect.push([one(true, &b0), one(true, &b1), one(false, &b0), one(false, &b1), one(true, &batch), one(false, &batch)]);
    }
    Some(Family {
        label: full.to_string(),
        full: full.to_string(),
        enc: enc.map(|x| x.to_string()),
        dec: dec.map(|x| x.to_string()),
        keys,
        b0,
        b1,
        batch,
        clone: s.caps().clone,
        depth,
        calls,
        expect,
    })
}

pub fn families(subjects: &[Box<dyn Subject>], ctx: &Ctx, depth_triple: usize, depth_plain: usize, calls: bool) -> Vec<Family> {
    let mut v = Vec::new();
    for s in subjects {
        if !ctx.wants_s(s.as_ref()) || !super::constructible(s.as_ref()) {
            continue;
        }
        let n = s.name();
        if crate::subjects::base_name(&n).ends_with("Enc") || crate::subjects::base_name(&n).ends_with("Dec") {
            continue;
        }
        if n.starts_with("RC5<") {
            // one generic implementation: a handful of instantiations
            let (w, r, b) = crate::refmap::parse_rc5(&n).unwrap();
            if !(r == 12 && (b == 16 || (w == 8 && b == 4))) {
                continue;
            }
        }
        let enc = crate::subjects::with_suffix(&n, "Enc");
        let dec = crate::subjects::with_suffix(&n, "Dec");
        let has = subjects.iter().any(|x| x.name() == enc);
        let f = if has { build_family(subjects, &n, Some(&enc), Some(&dec), depth_triple, calls) } else { build_family(subjects, &n, None, None, depth_plain, calls) };
        if let Some(f) = f {
            v.push(f);
        }
    }
    v
}

pub fn replay(case: &Value) -> Result<(), String> {
    let subjects = all_subjects();
    let hist: Vec<u8> = case["history"].as_array().unwrap().iter().map(|x| x.as_u64().unwrap() as u8).collect();
    let calls = case["calls"].as_bool().unwrap_or(false);
    let full = case["family"].as_str().unwrap();
    let enc = crate::subjects::with_suffix(full, "Enc");
    let dec = crate::subjects::with_suffix(full, "Dec");
    let has = subjects.iter().any(|x| x.name() == enc);
    let fam = if has { build_family(&subjects, full, Some(&enc), Some(&dec), 99, calls) } else { build_family(&subjects, full, None, None, 99, calls) }.ok_or("family")?;
    let m = HistModel { fam, subjects, api_calls: AtomicU64::new(0), compared: AtomicU64::new(0) };
    guarded(|| m.execute(&hist)).unwrap_or_else(|p| Err(format!("panic: {p}")))
}

pub fn run(pid: &'static str, ctx: &Ctx, rep: &mut Report) {
    let calls = pid == "C15";
    let (dt, dp) = match (calls, ctx.tier) {
        (false, Tier::Quick) => (5, 5),
        (false, Tier::Thorough) => (6, 6),
        (true, Tier::Quick) => (4, 4),
        (true, Tier::Thorough) => (5, 5),
    };
    // the deepest bound only in the default build and its detection-off twin; one level less elsewhere
    let deep = ctx.config.starts_with("N0-") || ctx.config.starts_with("N0d-");
    let (dt, dp) = if ctx.tier == Tier::Thorough && !deep { (dt - 1, dp - 1) } else { (dt, dp) };
    let subjects = all_subjects();
    let fams = families(&subjects, ctx, dt, dp, calls);
    drop(subjects);
    for fam in fams {
        let label = fam.label.clone();
        let depth = fam.depth;
        let nkeys = fam.keys.len();
        let triple = fam.enc.is_some();
        let model = HistModel { fam, subjects: all_subjects(), api_calls: AtomicU64::new(0), compared: AtomicU64::new(0) };
        let checker = model.checker().threads(crate::report::threads()).spawn_bfs().join();
        let states = checker.unique_state_count() as u64;
        rep.evaluations += states;
        rep.distinct_count += states.saturating_sub(1);
        rep.calls += checker.model().api_calls.load(Ordering::Relaxed);
        rep.ref_compared += checker.model().compared.load(Ordering::Relaxed);
        rep.count("histories", states);
        rep.count("transitions", states.saturating_sub(1));
        let md = rep.counters.entry("max_depth_reached".into()).or_insert(0);
        *md = (*md).max(checker.max_depth() as u64);
        if rep.samples.len() < 3 {
            // an actual element of the explored space: follow the last enabled action at every depth
            let mut st: Vec<u8> = Vec::new();
            loop {
                let mut acts = Vec::new();
                checker.model().actions(&st, &mut acts);
                if acts.is_empty() {
                    break;
                }
                // a varying pick so that the sample mixes constructions, conversions, clones and drops
                let pick = [1usize, 4, 2, 0, 3, 5, 1][st.len() % 7] * acts.len() / 6;
                st.push(acts[pick.min(acts.len() - 1)]);
            }
            let example: Vec<String> = st.iter().map(|&b| Act::decode(b).describe()).collect();
            rep.sample(json!({"family":label,"depth_bound":depth,"keys":nkeys,"kinds": if triple {"Full/Enc/Dec"} else {"Full"},"histories":states,
                "example_history":example,
                "check": if calls {"every call's result equals the reference for (key, input); survivors re-probed at the end"} else {"after every step every live instance is probed with 6 operations against the reference"}}));
        }
        for (_name, path) in checker.discoveries() {
            let hist = path.last_state().clone();
            let msg = guarded(|| checker.model().execute(&hist)).unwrap_or_else(|p| Err(format!("panic: {p}"))).err().unwrap_or_else(|| "non-deterministic".into());
            let again = guarded(|| checker.model().execute(&hist)).unwrap_or_else(|p| Err(format!("panic: {p}")));
            if again.is_ok() {
                rep.count("nondeterministic", 1);
                continue;
            }
            let desc: Vec<String> = hist.iter().map(|&b| Act::decode(b).describe()).collect();
            rep.violate(Violation {
                property: pid.into(),
                subject: label.clone(),
                what: "history".into(),
                case: json!({"kind":"history","family":label,"calls":calls,"history":hist,"steps":desc}),
                expected: "every observation equals the reference model for (key, input)".into(),
                observed: msg,
                note: "operation history whose result differs from a freshly keyed cipher".into(),
                index: 0,
            });
        }
    }
}

// ---------------------------------------------------------------------------------------------
// Neighbour-key pairs (C15): state keyed too coarsely.
//
// The stateright histories above use three unrelated keys.  Hidden state that is keyed by a *digest* of the key (its
// length, a prefix, a suffix, its byte multiset, one word of it) only leaks between two instances whose keys collide
// under that digest.  Here every ordered pair (k, k') with k' from the neighbour set of k is driven through the fixed
// two-instance history  new(k); use(k); new(k'); use(k'); use(k); clone(k'); use(clone)  and through its mirror image,
// every observation compared with the reference model for that key.

pub fn neighbours(k: &[u8], lens: &[usize]) -> Vec<(String, Vec<u8>)> {
    let n = k.len();
    let mut v: Vec<(String, Vec<u8>)> = Vec::new();
    let flip = |pos: usize, bit: u8| {
        let mut x = k.to_vec();
        x[pos] ^= bit;
        x
    };
    if n > 0 {
        v.push(("flip bit0 of byte 0".into(), flip(0, 1)));
        v.push(("flip bit7 of the last byte".into(), flip(n - 1, 0x80)));
        v.push(("flip bit0 of the last byte".into(), flip(n - 1, 1)));
        v.push(("flip the middle byte".into(), flip(n / 2, 0x10)));
        for w in [4usize, 8] {
            if n >= 2 * w {
                // same first word / same last word, everything else different
                let mut a = al::dense(n, 98, w as u64);
                a[..w].copy_from_slice(&k[..w]);
                v.push((format!("same first {w} bytes"), a));
                let mut b = al::dense(n, 99, w as u64);
                b[n - w..].copy_from_slice(&k[n - w..]);
                v.push((format!("same last {w} bytes"), b));
            }
        }
        if n >= 2 {
            let mut r = k.to_vec();
            r.rotate_left(1);
            v.push(("rotated by one byte (same byte multiset)".into(), r));
            let mut r = k.to_vec();
            r.reverse();
            v.push(("reversed (same byte multiset)".into(), r));
            let mut r = k.to_vec();
            r.swap(0, n - 1);
            v.push(("first and last byte swapped".into(), r));
            let mut h = k.to_vec();
            h.rotate_left(n / 2);
            v.push(("halves swapped".into(), h));
            // same XOR and same sum of all bytes: move one unit between two bytes
            let mut x = k.to_vec();
            let (i, j) = (0, n - 1);
            if x[i] < 255 && x[j] > 0 {
                x[i] += 1;
                x[j] -= 1;
                v.push(("same byte sum".into(), x));
            }
        }
    }
    for &l in lens {
        if l == n {
            continue;
        }
        let mut x = k.to_vec();
        x.resize(l, 0);
        v.push((format!("other accepted length {l}: truncated / zero-extended"), x));
        let mut y: Vec<u8> = k.iter().cycle().take(l).copied().collect();
        if l < n {
            y = k[n - l..].to_vec();
        }
        v.push((format!("other accepted length {l}: repeated / suffix"), y));
    }
    v.retain(|(_, x)| x.as_slice() != k);
    v
}

fn pair_history(s: &dyn Subject, full: &str, ka: &[u8], kb: &[u8], bs: usize, calls: &AtomicU64) -> Result<(), String> {
    let b0 = al::dense(bs, 96, 0);
    let b1 = al::ramp(bs);
    let batch: Vec<u8> = (0..11).flat_map(|j| al::dense(bs, 97, j)).collect();
    let ra = reference(full, ka).ok_or("no reference")?;
    let rb = reference(full, kb).ok_or("no reference")?;
    let probe = |inst: &dyn Inst, rf: &dyn refmodels::RefCipher, who: &str, when: &str| -> Result<(), String> {
        for (dir, data, multi, what) in [(Dir::Enc, &b0, false, "encrypt_block(b0)"), (Dir::Dec, &b1, false, "decrypt_block(b1)"), (Dir::Enc, &batch, true, "encrypt_blocks(11)"), (Dir::Dec, &batch, true, "decrypt_blocks(11)")] {
            let mut got = data.clone();
            if multi { inst.blocks(dir, &mut got) } else { inst.block(dir, &mut got) }
            calls.fetch_add(1, Ordering::Relaxed);
            let mut exp = data.clone();
            for c in exp.chunks_exact_mut(bs) {
                if dir == Dir::Enc { rf.encrypt(c) } else { rf.decrypt(c) }
            }
            if got != exp {
                let n = got.len().min(32);
                return Err(format!("{when}: {who} {what} = {}.. but the reference for that key gives {}..", hex(&got[..n]), hex(&exp[..n])));
            }
        }
        Ok(())
    };
    let ia = s.from_slice(ka).map_err(|_| "new_from_slice rejected an accepted key".to_string())?;
    probe(ia.as_ref(), ra.as_ref(), "instance A", "after new(A)")?;
    let ib = s.from_slice(kb).map_err(|_| "new_from_slice rejected an accepted key".to_string())?;
    probe(ib.as_ref(), rb.as_ref(), "instance B", "after new(A), use(A), new(B)")?;
    probe(ia.as_ref(), ra.as_ref(), "instance A", "after new(A), use(A), new(B), use(B)")?;
    if let Some(c) = ib.try_clone() {
        drop(ib);
        probe(c.as_ref(), rb.as_ref(), "clone of B", "after new(A), use(A), new(B), use(B), use(A), clone(B), drop(B)")?;
    }
    // a fresh instance for A's key made while B's state is the most recent
    let ia2 = s.from_slice(ka).map_err(|_| "new_from_slice rejected an accepted key".to_string())?;
    drop(ia);
    probe(ia2.as_ref(), ra.as_ref(), "second instance for A's key", "after ..., new(A) again, drop(first A)")?;
    Ok(())
}

pub fn replay_pair(case: &Value) -> Result<(), String> {
    let subjects = all_subjects();
    let full = case["subject"].as_str().ok_or("subject")?;
    let s = subjects.iter().find(|x| x.name() == full).ok_or("subject not in this build")?;
    let ka = al::unhex(case["key_a"].as_str().ok_or("key_a")?);
    let kb = al::unhex(case["key_b"].as_str().ok_or("key_b")?);
    let calls = AtomicU64::new(0);
    guarded(|| pair_history(s.as_ref(), full, &ka, &kb, s.bs(), &calls)).unwrap_or_else(|p| Err(format!("panic: {p}")))
}

pub fn run_pairs(ctx: &Ctx, rep: &mut Report) {
    let subjects = all_subjects();
    let mut pairs = 0u64;
    let calls = AtomicU64::new(0);
    for s in &subjects {
        if !ctx.wants_s(s.as_ref()) || !super::constructible(s.as_ref()) {
            continue;
        }
        let n = s.name();
        let base = crate::subjects::base_name(&n);
        if base.ends_with("Enc") || base.ends_with("Dec") {
            continue;
        }
        if n.starts_with("RC5<") {
            let (w, r, b) = crate::refmap::parse_rc5(&n).unwrap();
            if !(r == 12 && (b == 16 || (w == 8 && b == 4))) {
                continue;
            }
        }
        if reference(&n, &vec![0u8; s.key_lens()[0]]).is_none() {
            continue;
        }
        let lens = s.key_lens();
        // every accepted length is a centre when there are few; min / KeySize / max otherwise
        let mut centres: Vec<usize> = if lens.len() <= 5 { lens.clone() } else { vec![lens[0], lens[lens.len() / 2], *lens.last().unwrap()] };
        if lens.contains(&s.key_size()) && !centres.contains(&s.key_size()) {
            centres.push(s.key_size());
        }
        let others: Vec<usize> = if lens.len() <= 5 { lens.clone() } else { vec![lens[0], lens[1], lens[lens.len() / 2], lens[lens.len() - 2], *lens.last().unwrap()] };
        for &kl in &centres {
            for k in [al::dense(kl, 95, 0), al::ramp(kl)] {
                for (rel, k2) in neighbours(&k, &others) {
                    for (a, b) in [(&k, &k2), (&k2, &k)] {
                        pairs += 1;
                        let r = guarded(|| pair_history(s.as_ref(), &n, a, b, s.bs(), &calls)).unwrap_or_else(|p| Err(format!("panic: {p}")));
                        if let Err(msg) = r {
                            let again = guarded(|| pair_history(s.as_ref(), &n, a, b, s.bs(), &calls)).unwrap_or_else(|p| Err(format!("panic: {p}")));
                            if again.is_ok() {
                                rep.count("nondeterministic", 1);
                                continue;
                            }
                            rep.violate(Violation {
                                property: "C15".into(),
                                subject: n.clone(),
                                what: "neighbour-key-pair".into(),
                                case: json!({"kind":"keypair","subject":n,"key_a":hex(a),"key_b":hex(b),"relation":rel}),
                                expected: "every observation equals the reference model for (key, input)".into(),
                                observed: msg,
                                note: "two instances with related keys used alternately; one of them does not behave like a freshly keyed cipher".into(),
                                index: 0,
                            });
                        }
                    }
                }
            }
        }
    }
    rep.evaluations += pairs;
    rep.distinct_count += pairs;
    rep.calls += calls.load(Ordering::Relaxed);
    rep.ref_compared += calls.load(Ordering::Relaxed);
    rep.count("neighbour_key_pair_histories", pairs);
}
