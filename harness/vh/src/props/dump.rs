//! Observation dumps for relational properties: C03 (equality across configurations / feature sets)
//! and C20 (equality across build profiles, no panic).  The explorer writes one 64-bit hash per chunk
//! (a chunk = all star cases of one (subject, key length, key), or one special-API chunk); the driver
//! compares the maps of two runs and asks `xplore chunk` for the full observations of a differing chunk.
use super::{Ctx, constructible, star_items};
use crate::alphabet::{self as al, hex};
use crate::report::{Report, Violation, guarded, par_for};
use crate::subjects::{Dir, Subject, all_subjects};
use serde_json::{Value, json};
use std::collections::BTreeMap;
use std::sync::Mutex;

const BATCHES: [usize; 3] = [3, 22, 43];
const GROUP: usize = 64;

/// Observations of one star chunk: for every pair E(b) and D(b) (where supported), then batches.
/// A panic is recorded as an observation (and separately as a violation of C20).
pub fn observe_chunk(s: &dyn Subject, key: &[u8], blocks: &[&Vec<u8>], panics: &mut Vec<(String, String)>) -> Vec<Vec<u8>> {
    let mut obs = Vec::new();
    let caps = s.caps();
    let inst = match guarded(|| s.from_slice(key)) {
        Ok(Ok(i)) => i,
        Ok(Err(())) => return vec![b"InvalidLength".to_vec()],
        Err(p) => {
            panics.push((format!("new_from_slice(key)"), p));
            return vec![b"PANIC".to_vec()];
        }
    };
    for b in blocks {
        for dir in [Dir::Enc, Dir::Dec] {
            if (dir == Dir::Enc && !caps.enc) || (dir == Dir::Dec && !caps.dec) {
                continue;
            }
            let mut x = (*b).clone();
            match guarded(|| inst.block(dir, &mut x)) {
                Ok(()) => obs.push(x),
                Err(p) => {
                    panics.push((format!("{dir:?} block {}", hex(b)), p));
                    obs.push(b"PANIC".to_vec());
                }
            }
        }
    }
    let bs = s.bs();
    for n in BATCHES {
        for dir in [Dir::Enc, Dir::Dec] {
            if (dir == Dir::Enc && !caps.enc) || (dir == Dir::Dec && !caps.dec) {
                continue;
            }
            let mut x: Vec<u8> = (0..n).flat_map(|j| al::dense(bs, 90, j as u64)).collect();
            let src = x.clone();
            match guarded(|| inst.blocks(dir, &mut x)) {
                Ok(()) => obs.push(x),
                Err(p) => {
                    panics.push((format!("{dir:?} batch of {n}"), p));
                    obs.push(b"PANIC".to_vec());
                }
            }
            // the same batch buffer-to-buffer (destination prefilled with garbage)
            let mut out = vec![0xC9u8; n * bs];
            match guarded(|| unsafe { inst.call(dir, crate::subjects::Shape::BlocksB2b, src.as_ptr(), out.as_mut_ptr(), n) }) {
                Ok(_) => obs.push(out),
                Err(p) => {
                    panics.push((format!("{dir:?} b2b batch of {n}"), p));
                    obs.push(b"PANIC".to_vec());
                }
            }
        }
    }
    obs
}

fn hash_obs(obs: &[Vec<u8>]) -> u64 {
    let mut h = 0x1234_5678_9abc_def0u64;
    for o in obs {
        h = al::mix64(h, al::fnv64(o));
    }
    h
}

/// `which`: "C03" restricts to the configuration-sensitive crates, "C20" takes every subject and the special APIs.
pub fn run(which: &'static str, ctx: &Ctx, rep: &mut Report) -> Value {
    let subjects = all_subjects();
    let ok: Vec<bool> = subjects.iter().map(|s| constructible(s.as_ref())).collect();
    let sens = ["aes", "kuznyechik", "serpent"];
    let items = star_items(&subjects, ctx, |s| {
        let i = subjects.iter().position(|x| x.name() == s.name()).unwrap();
        let _ = &sens;
        ok[i]
    });
    let chunks: Mutex<BTreeMap<String, u64>> = Mutex::new(BTreeMap::new());
    let perkey: Mutex<BTreeMap<(String, usize, u32), u64>> = Mutex::new(BTreeMap::new());
    let subjects_ref = &subjects;
    par_for(items.len(), rep, |ii, r| {
        let it = &items[ii];
        let s = subjects_ref[it.subj].as_ref();
        let key = &it.star.keys[it.key as usize];
        let blocks: Vec<&Vec<u8>> = it.star.pairs[it.range.clone()].iter().map(|&(_, b)| &it.star.blocks[b as usize]).collect();
        let mut panics = Vec::new();
        let obs = observe_chunk(s, key, &blocks, &mut panics);
        r.evaluations += obs.len() as u64;
        r.calls += 1 + obs.len() as u64;
        r.distinct_count += obs.len() as u64;
        let name = format!("{}/{}/g{} key {}", s.name(), it.klen, it.key as usize / GROUP, hex(key));
        for (what, p) in panics {
            r.violate(Violation { property: which.into(), subject: s.name(), what: "panic".into(), case: json!({"kind":"chunk","chunk":name,"op":what}), expected: "returns normally".into(), observed: format!("panic: {p}"), note: "encrypt/decrypt panicked".into(), index: it.base });
        }
        if ii == 0 {
            r.sample(json!({"chunk":name,"observations":obs.len(),"first":hex(&obs[0]),"check":"observation stream hashed per chunk; compared between configurations / profiles by the driver"}));
        }
        perkey.lock().unwrap().insert((s.name(), it.klen, it.key), hash_obs(&obs));
    });
    {
        // fold the per-key hashes into groups of GROUP consecutive keys (deterministic order)
        let mut c = chunks.lock().unwrap();
        for ((sname, klen, key), h) in perkey.into_inner().unwrap() {
            // shadow subjects `Base@variant` go to the chunk of `Base` in the map of that variant
            let base = crate::subjects::base_name(&sname);
            let var = crate::subjects::variant_of(&sname);
            let e = c.entry(format!("{var}|{base}/{klen}/g{}", key as usize / GROUP)).or_insert(0x55);
            *e = al::mix64(*e, h);
        }
    }
    #[cfg(not(feature = "lite"))]
    {
        use crate::special as sp;
        let mut cases = Vec::new();
        if ctx.wants_k("rc2", "Rc2::new_with_eff_key_len") {
            cases.extend(sp::rc2_grid(ctx.tier));
        }
        if ctx.wants_k("belt-block", "belt_wblock") {
            cases.extend(sp::wblock_cases(ctx.tier));
            cases.extend(sp::belt_raw_cases(ctx.tier));
        }
        if ctx.wants_k("threefish", "Threefish::new_with_tweak") {
            cases.extend(sp::threefish_cases(ctx.tier));
        }
        if cfg!(feature = "fh") && ctx.wants_k("aes", "hazmat") {
            cases.extend(sp::hazmat_cases(ctx.tier));
        }
        special_chunks(which, cases, rep, &chunks);
    }
    // hazmat functions are backend-dependent too; feature-off builds simply lack these chunks
    #[cfg(feature = "lite")]
    if cfg!(feature = "fh") && ctx.wants_k("aes", "hazmat") {
        special_chunks(which, crate::special::hazmat_cases(ctx.tier), rep, &chunks);
    }
    let m = chunks.into_inner().unwrap();
    // { variant ("" = native code of this configuration): { chunk: hash } }
    let mut out: BTreeMap<String, serde_json::Map<String, Value>> = BTreeMap::new();
    for (k, v) in m {
        let (var, name) = k.split_once('|').unwrap();
        out.entry(var.to_string()).or_default().insert(name.to_string(), Value::from(format!("{v:016x}")));
    }
    json!(out)
}

/// Replay of a panic recorded while dumping: re-run every observation of that key and report any panic.
pub fn replay(case: &Value) -> Result<(), String> {
    let chunk = case["chunk"].as_str().ok_or("no chunk")?;
    let (head, key_hex) = chunk.split_once(" key ").ok_or("bad chunk name")?;
    let mut parts = head.split('/');
    let sname = parts.next().unwrap_or("");
    let klen: usize = parts.next().and_then(|x| x.parse().ok()).unwrap_or(0);
    let key = al::unhex(key_hex);
    let subjects = all_subjects();
    let s = subjects.iter().find(|x| x.name() == sname).ok_or("unknown subject")?;
    let mut worst: Option<String> = None;
    for tier in [crate::alphabet::Tier::Quick, crate::alphabet::Tier::Thorough] {
        let st = al::star(klen, s.bs(), tier, super::plan_for(s.as_ref(), klen));
        let Some(ki) = st.keys.iter().position(|k| *k == key) else { continue };
        let blocks: Vec<&Vec<u8>> = st.pairs.iter().filter(|p| p.0 as usize == ki).map(|&(_, b)| &st.blocks[b as usize]).collect();
        let mut panics = Vec::new();
        observe_chunk(s.as_ref(), &key, &blocks, &mut panics);
        if let Some((op, p)) = panics.into_iter().next() {
            worst = Some(format!("{op}: panic: {p}"));
        }
        break;
    }
    match worst {
        Some(m) => Err(m),
        None => Ok(()),
    }
}

fn special_chunks(which: &'static str, cases: Vec<crate::special::Case>, rep: &mut Report, chunks: &Mutex<BTreeMap<String, u64>>) {
    use crate::special as sp;
    let mut by: BTreeMap<String, Vec<sp::Case>> = BTreeMap::new();
    for c in cases {
        by.entry(sp::chunk_of(&c)).or_default().push(c);
    }
    let list: Vec<(String, Vec<sp::Case>)> = by.into_iter().collect();
    let list = &list;
    par_for(list.len(), rep, |i, r| {
        let (name, cs) = &list[i];
        let mut h = 7u64;
        for c in cs {
            r.evaluations += 1;
            r.calls += 1;
            r.distinct_count += 1;
            match guarded(|| sp::observe(c)) {
                Ok(o) => h = al::mix64(h, al::fnv64(&o)),
                Err(p) => {
                    h = al::mix64(h, 0xDEAD);
                    r.violate(Violation { property: which.into(), subject: super::spec::subject_of(c).into(), what: "panic".into(), case: json!({"kind":"special","special":c}), expected: "returns normally".into(), observed: format!("panic: {p}"), note: "call panicked".into(), index: i as u64 });
                }
            }
        }
        // "hazmat@armv8/0" -> variant armv8, chunk special/hazmat/0
        let (var, nm) = match name.split_once('@') {
            Some((a, rest)) => {
                let (v, tail) = rest.split_once('/').unwrap_or((rest, ""));
                (v.to_string(), format!("{a}/{tail}"))
            }
            None => (String::new(), name.clone()),
        };
        chunks.lock().unwrap().insert(format!("{var}|special/{nm}"), h);
    });
}

/// Full observations of one chunk (for locating the first difference between two builds).
pub fn chunk_detail(name: &str, ctx: &Ctx) -> Value {
    let subjects = all_subjects();
    let (var, name) = name.split_once('|').unwrap_or(("", name));
    if let Some(rest) = name.strip_prefix("special/") {
        // special/hazmat/0 in variant armv8 is the chunk "hazmat@armv8/0"
        let rest_owned = if var.is_empty() { rest.to_string() } else { match rest.split_once('/') { Some((a, b)) => format!("{a}@{var}/{b}"), None => rest.to_string() } };
        let rest = rest_owned.as_str();
        use crate::special as sp;
        let mut all = Vec::new();
        all.extend(sp::hazmat_cases(ctx.tier));
        #[cfg(not(feature = "lite"))]
        {
            all.extend(sp::rc2_grid(ctx.tier));
            all.extend(sp::wblock_cases(ctx.tier));
            all.extend(sp::belt_raw_cases(ctx.tier));
            all.extend(sp::threefish_cases(ctx.tier));
        }
        let v: Vec<Value> = all
            .iter()
            .filter(|c| sp::chunk_of(c) == rest)
            .map(|c| json!({"case": {"kind":"special","special":c}, "obs": guarded(|| hex(&sp::observe(c))).unwrap_or_else(|p| format!("PANIC {p}"))}))
            .collect();
        return json!(v);
    }
    let mut parts = name.split('/');
    let sname_owned = { let b = parts.next().unwrap_or(""); if var.is_empty() { b.to_string() } else { format!("{b}@{var}") } };
    let sname = sname_owned.as_str();
    let klen: usize = parts.next().and_then(|x| x.parse().ok()).unwrap_or(0);
    let group: usize = parts.next().and_then(|x| x.strip_prefix('g')).and_then(|x| x.parse().ok()).unwrap_or(0);
    let Some(s) = subjects.iter().find(|x| x.name() == sname) else { return json!([]) };
    let st = al::star(klen, s.bs(), ctx.tier, super::plan_for(s.as_ref(), klen));
    let mut out: Vec<Value> = Vec::new();
    for ki in group * GROUP..((group + 1) * GROUP).min(st.keys.len()) {
        let key = st.keys[ki].clone();
        let blocks: Vec<&Vec<u8>> = st.pairs.iter().filter(|p| p.0 as usize == ki).map(|&(_, b)| &st.blocks[b as usize]).collect();
        if blocks.is_empty() {
            continue;
        }
        let mut panics = Vec::new();
        let obs = observe_chunk(s.as_ref(), &key, &blocks, &mut panics);
        // label the observations in the same order observe_chunk produced them
        let caps = s.caps();
        let mut labels = Vec::new();
        for b in &blocks {
            for dir in [Dir::Enc, Dir::Dec] {
                if (dir == Dir::Enc && !caps.enc) || (dir == Dir::Dec && !caps.dec) {
                    continue;
                }
                labels.push(json!({"kind":"obs","subject":sname,"key":hex(&key),"op":format!("{dir:?}"),"block":hex(b)}));
            }
        }
        for n in BATCHES {
            for dir in [Dir::Enc, Dir::Dec] {
                if (dir == Dir::Enc && !caps.enc) || (dir == Dir::Dec && !caps.dec) {
                    continue;
                }
                labels.push(json!({"kind":"obs","subject":sname,"key":hex(&key),"op":format!("{dir:?} batch"),"n":n}));
                labels.push(json!({"kind":"obs","subject":sname,"key":hex(&key),"op":format!("{dir:?} batch b2b"),"n":n}));
            }
        }
        out.extend(labels.into_iter().zip(obs.iter()).map(|(l, o)| json!({"case": l, "obs": hex(o)})));
    }
    json!(out)
}
