//! C05 extras – DES low-weight alphabets, parity independence, complementation and the Triple-DES key relations.
#![cfg(not(feature = "lite"))]
use super::Ctx;
use crate::alphabet::{self as al, Tier, hex, unhex};
use crate::report::{Report, Violation, guarded, par_for};
use cipher::{BlockCipherDecrypt, BlockCipherEncrypt, KeyInit};
use refmodels::RefCipher;
use serde_json::{Value, json};

const P: &str = "C05";

fn e<T: KeyInit + BlockCipherEncrypt>(key: &[u8], b: &[u8]) -> Vec<u8> {
    let c = T::new_from_slice(key).unwrap();
    let mut x = cipher::Block::<T>::try_from(b).unwrap();
    c.encrypt_block(&mut x);
    x.to_vec()
}
fn d<T: KeyInit + BlockCipherDecrypt>(key: &[u8], b: &[u8]) -> Vec<u8> {
    let c = T::new_from_slice(key).unwrap();
    let mut x = cipher::Block::<T>::try_from(b).unwrap();
    c.decrypt_block(&mut x);
    x.to_vec()
}
fn not(v: &[u8]) -> Vec<u8> {
    v.iter().map(|x| !x).collect()
}
fn cat(parts: &[&[u8]]) -> Vec<u8> {
    parts.concat()
}

/// all 8-byte strings of Hamming weight <= w, and their complements
pub fn low_weight(w: usize) -> Vec<[u8; 8]> {
    let mut v: Vec<u64> = vec![0];
    if w >= 1 {
        for i in 0..64 {
            v.push(1 << i);
        }
    }
    if w >= 2 {
        for i in 0..64 {
            for j in i + 1..64 {
                v.push((1 << i) | (1 << j));
            }
        }
    }
    if w >= 3 {
        for i in 0..64 {
            for j in i + 1..64 {
                for k in j + 1..64 {
                    v.push((1u64 << i) | (1 << j) | (1 << k));
                }
            }
        }
    }
    let mut out: Vec<[u8; 8]> = Vec::with_capacity(2 * v.len());
    for x in v {
        out.push(x.to_be_bytes());
        out.push((!x).to_be_bytes());
    }
    out
}

#[derive(Clone, Debug)]
pub enum Extra {
    /// Des vs reference, both directions
    Conf { key: [u8; 8], block: [u8; 8] },
    /// all 256 parity patterns of `key` give the same function on `block`
    Parity { key: [u8; 8], block: [u8; 8] },
    /// E(~k, ~p) == ~E(k, p)
    Complement { key: [u8; 8], block: [u8; 8] },
    /// EDE3(k,k,k) = DES(k); EDE2(k1,k2) = EDE3(k1,k2,k1); EEE2(k1,k2) = EEE3(k1,k2,k1); vs reference composition
    Relations { k1: [u8; 8], k2: [u8; 8], block: [u8; 8] },
    /// three-key bundles built from special parts (NIST weak keys, keys equal modulo parity, generic): EDE3 / EEE3 vs the
    /// composition of the single-DES reference, both directions
    Bundle3 { k1: [u8; 8], k2: [u8; 8], k3: [u8; 8], block: [u8; 8] },
}

impl Extra {
    fn to_json(&self) -> Value {
        match self {
            Extra::Conf { key, block } => json!({"kind":"des-extra","which":"conf","key":hex(key),"block":hex(block)}),
            Extra::Parity { key, block } => json!({"kind":"des-extra","which":"parity","key":hex(key),"block":hex(block)}),
            Extra::Complement { key, block } => json!({"kind":"des-extra","which":"complement","key":hex(key),"block":hex(block)}),
            Extra::Relations { k1, k2, block } => json!({"kind":"des-extra","which":"relations","k1":hex(k1),"k2":hex(k2),"block":hex(block)}),
            Extra::Bundle3 { k1, k2, k3, block } => json!({"kind":"des-extra","which":"bundle3","k1":hex(k1),"k2":hex(k2),"k3":hex(k3),"block":hex(block)}),
        }
    }
    fn from_json(v: &Value) -> Option<Extra> {
        let a = |k: &str| -> Option<[u8; 8]> { unhex(v[k].as_str()?).try_into().ok() };
        Some(match v["which"].as_str()? {
            "conf" => Extra::Conf { key: a("key")?, block: a("block")? },
            "parity" => Extra::Parity { key: a("key")?, block: a("block")? },
            "complement" => Extra::Complement { key: a("key")?, block: a("block")? },
            "relations" => Extra::Relations { k1: a("k1")?, k2: a("k2")?, block: a("block")? },
            "bundle3" => Extra::Bundle3 { k1: a("k1")?, k2: a("k2")?, k3: a("k3")?, block: a("block")? },
            _ => return None,
        })
    }
}

pub fn check(x: &Extra) -> Result<(), (String, String)> {
    use des::{Des, TdesEde2, TdesEde3, TdesEee2, TdesEee3};
    let r = guarded(|| -> Result<(), (String, String)> {
        match x {
            Extra::Conf { key, block } => {
                let rf = refmodels::des::Des::new(key);
                let mut ex = *block;
                rf.encrypt(&mut ex);
                let got = e::<Des>(key, block);
                if got != ex {
                    return Err((format!("E = {}", hex(&ex)), format!("E = {}", hex(&got))));
                }
                let mut dx = *block;
                rf.decrypt(&mut dx);
                let got = d::<Des>(key, block);
                if got != dx {
                    return Err((format!("D = {}", hex(&dx)), format!("D = {}", hex(&got))));
                }
            }
            Extra::Parity { key, block } => {
                let base_e = e::<Des>(key, block);
                let base_d = d::<Des>(key, block);
                for pat in 0..256u32 {
                    let mut k = *key;
                    for i in 0..8 {
                        k[i] = (k[i] & 0xFE) | ((pat >> i) & 1) as u8;
                    }
                    if e::<Des>(&k, block) != base_e || d::<Des>(&k, block) != base_d {
                        return Err((format!("same result as key {}", hex(key)), format!("key {} (parity pattern {pat:#04x}) gives a different result", hex(&k))));
                    }
                }
            }
            Extra::Complement { key, block } => {
                let a = e::<Des>(&not(key), &not(block));
                let b = not(&e::<Des>(key, block));
                if a != b {
                    return Err((format!("~E(k,p) = {}", hex(&b)), format!("E(~k,~p) = {}", hex(&a))));
                }
            }
            Extra::Bundle3 { k1, k2, k3, block } => {
                let key = cat(&[k1, k2, k3]);
                for (ede, mode) in [(true, refmodels::des::TdesMode::Ede), (false, refmodels::des::TdesMode::Eee)] {
                    let rf = refmodels::des::Tdes::new(&key, mode);
                    let mut ex = *block;
                    rf.encrypt(&mut ex);
                    let got = if ede { e::<TdesEde3>(&key, block) } else { e::<TdesEee3>(&key, block) };
                    if got != ex {
                        return Err((format!("{} E = {}", if ede { "EDE3" } else { "EEE3" }, hex(&ex)), format!("E = {}", hex(&got))));
                    }
                    let mut dx = *block;
                    rf.decrypt(&mut dx);
                    let got = if ede { d::<TdesEde3>(&key, block) } else { d::<TdesEee3>(&key, block) };
                    if got != dx {
                        return Err((format!("{} D = {}", if ede { "EDE3" } else { "EEE3" }, hex(&dx)), format!("D = {}", hex(&got))));
                    }
                }
            }
            Extra::Relations { k1, k2, block } => {
                let single = e::<Des>(k1, block);
                let ede3_kkk = e::<TdesEde3>(&cat(&[k1, k1, k1]), block);
                if ede3_kkk != single {
                    return Err((format!("DES(k1) = {}", hex(&single)), format!("EDE3(k1,k1,k1) = {}", hex(&ede3_kkk))));
                }
                for dec in [false, true] {
                    let f2 = |two: bool, ede: bool| -> Vec<u8> {
                        match (two, ede, dec) {
                            (true, true, false) => e::<TdesEde2>(&cat(&[k1, k2]), block),
                            (true, true, true) => d::<TdesEde2>(&cat(&[k1, k2]), block),
                            (false, true, false) => e::<TdesEde3>(&cat(&[k1, k2, k1]), block),
                            (false, true, true) => d::<TdesEde3>(&cat(&[k1, k2, k1]), block),
                            (true, false, false) => e::<TdesEee2>(&cat(&[k1, k2]), block),
                            (true, false, true) => d::<TdesEee2>(&cat(&[k1, k2]), block),
                            (false, false, false) => e::<TdesEee3>(&cat(&[k1, k2, k1]), block),
                            (false, false, true) => d::<TdesEee3>(&cat(&[k1, k2, k1]), block),
                        }
                    };
                    for ede in [true, false] {
                        let (a, b) = (f2(true, ede), f2(false, ede));
                        if a != b {
                            let n = if ede { "EDE" } else { "EEE" };
                            return Err((format!("{n}3(k1,k2,k1) = {}", hex(&b)), format!("{n}2(k1,k2) = {} ({})", hex(&a), if dec { "decrypt" } else { "encrypt" })));
                        }
                        // against the composition of the single-DES reference
                        let mode = if ede { refmodels::des::TdesMode::Ede } else { refmodels::des::TdesMode::Eee };
                        let rf = refmodels::des::Tdes::new(&cat(&[k1, k2]), mode);
                        let mut ex = *block;
                        if dec { rf.decrypt(&mut ex) } else { rf.encrypt(&mut ex) }
                        if a != ex {
                            return Err((format!("reference composition = {}", hex(&ex)), format!("implementation = {}", hex(&a))));
                        }
                    }
                }
            }
        }
        Ok(())
    });
    r.unwrap_or_else(|p| Err(("no panic".into(), format!("panic: {p}"))))
}

pub fn replay(case: &Value) -> Result<(), String> {
    let x = Extra::from_json(case).ok_or("bad case")?;
    check(&x).map_err(|(e, o)| format!("expected {e}, observed {o}"))
}

pub fn run(ctx: &Ctx, rep: &mut Report) {
    if !ctx.wants_k("des", "Des") {
        return;
    }
    let mut cases: Vec<Extra> = Vec::new();
    let lw = low_weight(3);
    let dk: [u8; 8] = al::dense(8, 110, 0).try_into().unwrap();
    let db: [u8; 8] = al::dense(8, 111, 0).try_into().unwrap();
    for s in &lw {
        // as key (zero and dense block), as block (zero and dense key)
        cases.push(Extra::Conf { key: *s, block: [0; 8] });
        cases.push(Extra::Conf { key: *s, block: db });
        cases.push(Extra::Conf { key: [0; 8], block: *s });
        cases.push(Extra::Conf { key: dk, block: *s });
    }
    let m8: Vec<[u8; 8]> = al::m_set(8, 1).into_iter().map(|k| k.try_into().unwrap()).collect();
    let s8: Vec<[u8; 8]> = al::s_set(8, 2).into_iter().map(|k| k.try_into().unwrap()).collect();
    let t8: Vec<[u8; 8]> = al::t_set(8, 2).into_iter().map(|k| k.try_into().unwrap()).collect();
    for k in &m8 {
        for b in t8.iter().take(3) {
            cases.push(Extra::Parity { key: *k, block: *b });
        }
        for b in &s8 {
            cases.push(Extra::Complement { key: *k, block: *b });
        }
    }
    let rel_keys = if ctx.tier == Tier::Quick { al::s_set(8, 1) } else { al::m_set(8, 1) };
    let rel_keys: Vec<[u8; 8]> = rel_keys.into_iter().map(|k| k.try_into().unwrap()).collect();
    for k1 in &rel_keys {
        for k2 in &rel_keys {
            cases.push(Extra::Relations { k1: *k1, k2: *k2, block: db });
        }
    }
    // three-key bundles from special parts: a few NIST weak / semi-weak / possibly-weak keys, their parity variants,
    // generic keys and a key equal to another modulo parity
    {
        use refmodels::des::NIST_WEAK_KEYS as W;
        let g1: [u8; 8] = al::dense(8, 112, 0).try_into().unwrap();
        let g2: [u8; 8] = al::dense(8, 112, 1).try_into().unwrap();
        let mut g1p = g1;
        for b in g1p.iter_mut() {
            *b ^= 1;
        }
        let mut w0p = W[0];
        w0p[3] ^= 1;
        let parts: Vec<[u8; 8]> = if ctx.tier == Tier::Quick {
            vec![W[0], W[1], W[5], W[20], w0p, g1, g2, g1p]
        } else {
            let mut v: Vec<[u8; 8]> = W.iter().step_by(4).cloned().collect();
            v.extend([w0p, g1, g2, g1p]);
            v
        };
        for a in &parts {
            for b in &parts {
                for c in &parts {
                    cases.push(Extra::Bundle3 { k1: *a, k2: *b, k3: *c, block: db });
                }
            }
        }
    }
    const CH: usize = 512;
    let n = cases.len().div_ceil(CH);
    let cases = &cases;
    par_for(n, rep, |ci, r| {
        for (j, c) in cases[ci * CH..((ci + 1) * CH).min(cases.len())].iter().enumerate() {
            r.evaluations += 1;
            r.ref_compared += 1;
            r.calls += match c {
                Extra::Parity { .. } => 1026,
                Extra::Relations { .. } => 20,
                Extra::Bundle3 { .. } => 8,
                _ => 4,
            };
            match check(c) {
                Ok(()) => r.distinct_count += 1,
                Err(_) => {
                    if let (Err((e, o)), Err(_)) = (check(c), check(c)) {
                        let what = match c {
                            Extra::Conf { .. } => "conformance",
                            Extra::Parity { .. } => "parity",
                            Extra::Complement { .. } => "complementation",
                            Extra::Relations { .. } => "key-relations",
                            Extra::Bundle3 { .. } => "conformance",
                        };
                        r.violate(Violation { property: P.into(), subject: "Des/Tdes".into(), what: what.into(), case: c.to_json(), expected: e, observed: o, note: "DES relation violated".into(), index: (ci * CH + j) as u64 });
                    }
                }
            }
            if ci == 0 && j == 1 {
                r.sample(c.to_json());
            }
        }
    });
}
