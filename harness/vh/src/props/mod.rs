//! One module per property.  Each exposes `run(tier, filter, &mut Report)` and `replay(case) -> Result<(), String>`.
use crate::alphabet::{Plan, Star, Tier, star};
use crate::report::Report;
use crate::subjects::Subject;
use std::collections::HashMap;
use std::sync::Arc;

pub mod c01;
pub mod c04;
#[cfg(not(feature = "lite"))]
pub mod c05;
pub mod c11;
pub mod c13;
#[cfg(feature = "fb")]
pub mod c14;
pub mod c16;
pub mod c19;
pub mod conf;
pub mod dump;
pub mod hist;
pub mod purity;
pub mod spec;
#[cfg(not(feature = "lite"))]
pub mod sweeps;

pub struct Ctx {
    pub tier: Tier,
    pub config: String,
    /// only subjects whose name contains this substring
    pub only: Option<String>,
    /// only subjects of these crates
    pub crates: Option<Vec<String>>,
}

impl Ctx {
    pub fn wants(&self, name: &str) -> bool {
        self.only.as_ref().map(|o| name.contains(o.as_str())).unwrap_or(true)
    }
    /// pseudo-subjects (free functions) belong to a crate too
    pub fn wants_k(&self, krate: &str, name: &str) -> bool {
        self.wants(name) && self.crates.as_ref().map(|c| c.iter().any(|x| x == krate)).unwrap_or(true)
    }
    pub fn wants_s(&self, s: &dyn Subject) -> bool {
        self.wants_k(s.krate(), &s.name())
    }
}

/// One unit of parallel work: all star pairs of one key of one (subject, key length).
pub struct Item {
    pub subj: usize,
    pub klen: usize,
    pub star: Arc<Star>,
    pub key: u32,
    pub range: std::ops::Range<usize>,
    /// global index of the first pair (for deterministic ordering of violations)
    pub base: u64,
}

/// Which star plan a (subject, key length) pair gets.
pub fn plan_for(s: &dyn Subject, klen: usize) -> Plan {
    let name = s.name();
    if name.starts_with("RC5<") {
        return Plan::Small;
    }
    let lens = s.key_lens();
    if lens.len() <= 5 {
        return Plan::Full;
    }
    // many accepted lengths: full star at min, max and one odd interior length, tiny elsewhere
    let min = *lens.iter().min().unwrap();
    let max = *lens.iter().max().unwrap();
    let mid = lens.iter().copied().find(|&l| l > (min + max) / 2 && l % 2 == 1).unwrap_or(min);
    if klen == min || klen == max || klen == mid { Plan::Full } else { Plan::Tiny }
}

pub fn star_items(subjects: &[Box<dyn Subject>], ctx: &Ctx, pred: impl Fn(&dyn Subject) -> bool) -> Vec<Item> {
    let mut cache: HashMap<(usize, usize, Plan), Arc<Star>> = HashMap::new();
    let mut items = Vec::new();
    let mut base = 0u64;
    for (si, s) in subjects.iter().enumerate() {
        if !ctx.wants_s(s.as_ref()) || !pred(s.as_ref()) {
            continue;
        }
        for klen in s.key_lens() {
            let plan = plan_for(s.as_ref(), klen);
            let st = cache
                .entry((klen, s.bs(), plan))
                .or_insert_with(|| Arc::new(star(klen, s.bs(), ctx.tier, plan)))
                .clone();
            for (k, r) in st.groups() {
                let n = r.len() as u64;
                items.push(Item { subj: si, klen, star: st.clone(), key: k, range: r, base });
                base += n;
            }
        }
    }
    items
}

/// RC5<_,_,0> cannot be constructed on the unchanged tree (finding F4, reported under C10/C11);
/// other properties skip subjects whose constructor panics and count them.
pub fn constructible(s: &dyn Subject) -> bool {
    let lens = s.key_lens();
    let k = vec![0u8; lens[0]];
    crate::report::guarded(|| s.from_slice(&k).is_ok()).unwrap_or(false)
}

pub fn replay(property: &str, case: &serde_json::Value) -> Result<(), String> {
    if case["kind"].as_str() == Some("special") {
        return spec::replay(case);
    }
    #[cfg(not(feature = "lite"))]
    if case["kind"].as_str() == Some("domain-sweep") {
        return sweeps::replay(case);
    }
    #[cfg(not(feature = "lite"))]
    if case["kind"].as_str() == Some("des-extra") {
        return c05::replay(case);
    }
    if case["kind"].as_str() == Some("chunk") {
        return dump::replay(case);
    }
    if case["kind"].as_str() == Some("purity") {
        return purity::replay(case);
    }
    if case["kind"].as_str() == Some("history") {
        return hist::replay(case);
    }
    if case["kind"].as_str() == Some("keypair") {
        return hist::replay_pair(case);
    }
    match property {
        "C01" => c01::replay(case),
        "C04" => c04::replay(case),
        "C11" => c11::replay(case),
        "C13" => c13::replay(case),
        #[cfg(feature = "fb")]
        "C14" => c14::replay(case),
        "C16" => c16::replay(case),
        "C19" => c19::replay(case),
        "C02" | "C05" | "C06" | "C07" | "C08" | "C09" | "C10" if matches!(case["kind"].as_str(), Some("conf") | Some("conf-batch")) => conf::replay(case),
        _ => Err(format!("no replay for {property}")),
    }
}

pub fn run(property: &str, ctx: &Ctx, rep: &mut Report) -> Result<(), String> {
    match property {
        "C03" => {
            let m = dump::run("C03", ctx, rep);
            rep.extra.insert("chunks".into(), m);
        }
        "C20" => {
            let m = dump::run("C20", ctx, rep);
            rep.extra.insert("chunks".into(), m);
        }
        "C01" => c01::run(ctx, rep),
        "C04" => c04::run(ctx, rep),
        "C11" => c11::run(ctx, rep),
        "C12" => hist::run("C12", ctx, rep),
        "C13" => c13::run(ctx, rep),
        #[cfg(feature = "fb")]
        "C14" => c14::run(ctx, rep),
        "C15" => {
            purity::run(ctx, rep); // first, while the process is still single-threaded
            hist::run("C15", ctx, rep);
            hist::run_pairs(ctx, rep);
        }
        "C16" => c16::run(ctx, rep),
        "C19" => c19::run(ctx, rep),
        "C02" => conf::run_conf("C02", &["aes"], ctx, rep),
        "C05" => {
            conf::run_conf("C05", &["des"], ctx, rep);
            #[cfg(not(feature = "lite"))]
            c05::run(ctx, rep);
        }
        "C06" => conf::run_conf("C06", &["aria", "camellia", "sm4"], ctx, rep),
        "C07" => {
            conf::run_conf("C07", &["kuznyechik", "magma", "belt-block"], ctx, rep);
            if ctx.wants_k("belt-block", "belt_block_raw") && cfg!(not(feature = "lite")) {
                spec::run_special("C07", crate::special::belt_raw_cases(ctx.tier), rep);
            }
        }
        "C08" => conf::run_conf("C08", &["serpent", "twofish", "cast6"], ctx, rep),
        "C09" => {
            conf::run_conf("C09", &["blowfish", "cast5", "idea", "rc2", "xtea"], ctx, rep);
            if ctx.wants_k("rc2", "Rc2::new_with_eff_key_len") && cfg!(not(feature = "lite")) {
                spec::run_special("C09", crate::special::rc2_grid(ctx.tier), rep);
            }
            #[cfg(not(feature = "lite"))]
            sweeps::run_c09(ctx, rep);
        }
        "C10" => {
            conf::run_conf("C10", &["rc5", "speck-cipher", "threefish", "gift-cipher"], ctx, rep);
            if ctx.wants_k("threefish", "Threefish::new_with_tweak") && cfg!(not(feature = "lite")) {
                spec::run_special("C10", crate::special::threefish_cases(ctx.tier), rep);
            }
            #[cfg(not(feature = "lite"))]
            sweeps::run_c10(ctx, rep);
        }
        "C17" => {
            if cfg!(feature = "fh") {
                spec::run_special("C17", crate::special::hazmat_cases(ctx.tier), rep);
            } else {
                rep.notes.push("hazmat feature off in this build".into());
            }
        }
        "C18" => spec::run_special("C18", crate::special::wblock_cases(ctx.tier), rep),
        _ => return Err(format!("unknown property {property}")),
    }
    Ok(())
}
