#!/usr/bin/env python3
"""Derive the shadow crates from /repo's CURRENT working tree (DESIGN §2.2, §4.3).

Code that cannot be compiled for the x86-64 host (aes/src/armv8/*, aes/src/soft/fixslice32.rs,
kuznyechik/src/neon/*) is compiled as separate crates whose sources are the repository's own files with a
fixed list of token substitutions applied:

  aes_armv8  : target_arch="aarch64" -> all(), x86 predicates -> any(), core::arch::aarch64 -> crate::neon_model
  aes_fs32   : target_pointer_width="64" -> any()  (soft.rs then picks fixslice32.rs), aes_force_soft -> all()
  kuz_neon   : aarch64 / neon predicates -> all(), x86 predicates -> any(), core::arch::aarch64 -> crate::neon_model

Every substitution must match at least once in the file set it is meant for; otherwise this is a machinery
error (exit 2), never a verdict.  Files are only rewritten when their content changes, so cargo's
fingerprints stay stable.  Nothing is written into /repo.
"""
import os, re, shutil, sys

HERE = os.path.dirname(os.path.abspath(__file__))
HARNESS = os.path.dirname(HERE)
OUT = os.path.join(HARNESS, "shadow")
REPO = "/repo"


def die(msg):
    print("shadows: MACHINERY ERROR: " + msg, file=sys.stderr)
    sys.exit(2)


class Subst:
    def __init__(self, pattern, repl, required=True, regex=False):
        self.pattern, self.repl, self.required, self.regex, self.hits = pattern, repl, required, regex, 0

    def apply(self, text):
        if self.regex:
            new, n = re.subn(self.pattern, self.repl, text)
        else:
            n = text.count(self.pattern)
            new = text.replace(self.pattern, self.repl)
        self.hits += n
        return new


def transform_tree(src_dir, dst_dir, substs, skip=()):
    files = {}
    for root, _, names in os.walk(src_dir):
        for n in names:
            if not n.endswith(".rs"):
                continue
            p = os.path.join(root, n)
            rel = os.path.relpath(p, src_dir)
            if any(rel.startswith(s) for s in skip):
                continue
            text = open(p).read()
            for s in substs:
                text = s.apply(text)
            files[rel] = text
    for s in substs:
        if s.required and s.hits == 0:
            die(f"substitution {s.pattern!r} matched nothing under {src_dir} (the sources were refactored: update gen_shadows.py)")
    return files


def write_tree(dst, files):
    """files: relpath -> text.  Rewrites only what changed, removes stale files."""
    os.makedirs(dst, exist_ok=True)
    existing = set()
    for root, _, names in os.walk(dst):
        for n in names:
            existing.add(os.path.relpath(os.path.join(root, n), dst))
    for rel, text in files.items():
        p = os.path.join(dst, rel)
        os.makedirs(os.path.dirname(p), exist_ok=True)
        if not os.path.exists(p) or open(p).read() != text:
            open(p, "w").write(text)
    for rel in existing - set(files):
        os.remove(os.path.join(dst, rel))


NEON_USE = "crate::neon_model::*"
NEON_MOD = '\n#[path = "../neon_model.rs"]\npub(crate) mod neon_model;\n'


def gen_aes_armv8():
    s = [
        Subst('target_arch = "aarch64"', "all()"),
        Subst('target_arch = "x86_64"', "any()"),
        Subst('target_arch = "x86"', "any()"),
        Subst("core::arch::aarch64::*", NEON_USE),
        Subst(r"use core::\{arch::aarch64::\*, ([^}]*)\};", r"use core::{\1};\nuse crate::neon_model::*;", regex=True),
        # target_feature attributes are meaningless for the software model
        Subst(r'[ \t]*#\[target_feature\(enable = "aes"\)\]\n', "", regex=True),
        Subst("#![no_std]", "#![no_std]\n#![allow(unused_unsafe, unused_imports, dead_code)]"),
    ]
    files = transform_tree(os.path.join(REPO, "aes", "src"), None, s, skip=("ni", "armv8/test_expand.rs"))
    files["lib.rs"] += NEON_MOD
    # ni.rs / ni/* are unused on this path but referenced nowhere; test module reference must go
    files = {k: v for k, v in files.items() if not k.startswith("ni")}
    out = {"src/" + k: v for k, v in files.items()}
    out["neon_model.rs"] = open(os.path.join(HERE, "neon_model.rs")).read()
    out["Cargo.toml"] = CARGO_AES.format(name="aes_armv8")
    write_tree(os.path.join(OUT, "aes_armv8"), out)


def gen_aes_fs32():
    s = [
        Subst('target_pointer_width = "64"', "any()"),
        Subst("not(aes_force_soft)", "not(all())"),
        Subst("#![no_std]", "#![no_std]\n#![allow(unused_unsafe, unused_imports, dead_code)]"),
    ]
    files = transform_tree(os.path.join(REPO, "aes", "src"), None, s, skip=("ni", "armv8"))
    out = {"src/" + k: v for k, v in files.items() if not (k.startswith("ni") or k.startswith("armv8"))}
    out["Cargo.toml"] = CARGO_AES.format(name="aes_fs32")
    write_tree(os.path.join(OUT, "aes_fs32"), out)


def gen_kuz_neon():
    s = [
        Subst('target_arch = "aarch64"', "all()"),
        Subst('target_feature = "neon"', "all()"),
        Subst('target_arch = "x86_64"', "any()"),
        Subst('target_arch = "x86"', "any()"),
        Subst("core::arch::aarch64::*", NEON_USE),
        Subst("#![no_std]", "#![no_std]\n#![allow(unused_unsafe, unused_imports, dead_code)]"),
    ]
    files = transform_tree(os.path.join(REPO, "kuznyechik", "src"), None, s, skip=("sse2",))
    files["lib.rs"] += NEON_MOD
    out = {"src/" + k: v for k, v in files.items() if not k.startswith("sse2")}
    out["neon_model.rs"] = open(os.path.join(HERE, "neon_model.rs")).read()
    out["Cargo.toml"] = CARGO_KUZ
    write_tree(os.path.join(OUT, "kuz_neon"), out)


CARGO_AES = '''# GENERATED by /verif/harness/seam/gen_shadows.py from /repo/aes. Do not edit.
[package]
name = "{name}"
version = "0.0.0"
edition = "2024"
publish = false

[lib]
path = "src/lib.rs"

[dependencies]
cfg-if = "1"
cipher = "=0.5.0-pre.8"
cpufeatures = "0.2"
zeroize = {{ version = "1.5.6", optional = true, default-features = false }}
refmodels = {{ path = "../../refmodels" }}

[features]
hazmat = []

[lints.rust]
unexpected_cfgs = {{ level = "allow" }}
missing_docs = {{ level = "allow" }}
'''

CARGO_KUZ = '''# GENERATED by /verif/harness/seam/gen_shadows.py from /repo/kuznyechik. Do not edit.
[package]
name = "kuz_neon"
version = "0.0.0"
edition = "2024"
publish = false

[lib]
path = "src/lib.rs"

[dependencies]
cfg-if = "1"
cipher = "=0.5.0-pre.8"
refmodels = { path = "../../refmodels" }

[features]
zeroize = ["cipher/zeroize"]

[lints.rust]
unexpected_cfgs = { level = "allow" }
missing_docs = { level = "allow" }
'''


def main():
    gen_aes_armv8()
    gen_aes_fs32()
    gen_kuz_neon()
    print("shadows: ok", OUT)


if __name__ == "__main__":
    main()
