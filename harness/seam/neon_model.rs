//! Software model of the AArch64 NEON / Cryptography-Extension intrinsics used by
//! /repo/aes/src/armv8/* and /repo/kuznyechik/src/neon/* (added by /verif; not part of the repository).
//! Written from the Arm Architecture Reference Manual pseudo-code.  The AES steps use the FIPS-197
//! transformations of the (OpenSSL-validated) reference model.
#![allow(non_camel_case_types, clippy::missing_safety_doc)]

#[repr(C, align(16))]
#[derive(Clone, Copy, Debug, PartialEq, Eq)]
pub struct uint8x16_t(pub [u8; 16]);
#[repr(C, align(16))]
#[derive(Clone, Copy, Debug, PartialEq, Eq)]
pub struct uint16x8_t(pub [u16; 8]);
#[repr(C, align(16))]
#[derive(Clone, Copy, Debug, PartialEq, Eq)]
pub struct uint32x4_t(pub [u32; 4]);
#[repr(C, align(8))]
#[derive(Clone, Copy, Debug, PartialEq, Eq)]
pub struct uint8x8_t(pub [u8; 8]);
#[derive(Clone, Copy, Debug)]
pub struct uint8x16x4_t(pub uint8x16_t, pub uint8x16_t, pub uint8x16_t, pub uint8x16_t);

/// LD1 {Vt.16B}, [Xn] – no alignment requirement
pub unsafe fn vld1q_u8(ptr: *const u8) -> uint8x16_t {
    let mut v = [0u8; 16];
    unsafe { core::ptr::copy_nonoverlapping(ptr, v.as_mut_ptr(), 16) };
    uint8x16_t(v)
}
/// ST1 {Vt.16B}, [Xn]
pub unsafe fn vst1q_u8(ptr: *mut u8, a: uint8x16_t) {
    unsafe { core::ptr::copy_nonoverlapping(a.0.as_ptr(), ptr, 16) };
}
pub unsafe fn veorq_u8(a: uint8x16_t, b: uint8x16_t) -> uint8x16_t {
    let mut r = [0u8; 16];
    for i in 0..16 {
        r[i] = a.0[i] ^ b.0[i];
    }
    uint8x16_t(r)
}
pub unsafe fn vorrq_u8(a: uint8x16_t, b: uint8x16_t) -> uint8x16_t {
    let mut r = [0u8; 16];
    for i in 0..16 {
        r[i] = a.0[i] | b.0[i];
    }
    uint8x16_t(r)
}
pub unsafe fn vsubq_u8(a: uint8x16_t, b: uint8x16_t) -> uint8x16_t {
    let mut r = [0u8; 16];
    for i in 0..16 {
        r[i] = a.0[i].wrapping_sub(b.0[i]);
    }
    uint8x16_t(r)
}
pub unsafe fn vdupq_n_u8(x: u8) -> uint8x16_t {
    uint8x16_t([x; 16])
}
pub unsafe fn vdupq_n_u32(x: u32) -> uint32x4_t {
    uint32x4_t([x; 4])
}
/// reinterpretation is a no-op on the register; lanes are little-endian
pub unsafe fn vreinterpretq_u8_u32(a: uint32x4_t) -> uint8x16_t {
    let mut r = [0u8; 16];
    for i in 0..4 {
        r[4 * i..4 * i + 4].copy_from_slice(&a.0[i].to_le_bytes());
    }
    uint8x16_t(r)
}
pub unsafe fn vreinterpretq_u32_u8(a: uint8x16_t) -> uint32x4_t {
    let mut r = [0u32; 4];
    for i in 0..4 {
        r[i] = u32::from_le_bytes(a.0[4 * i..4 * i + 4].try_into().unwrap());
    }
    uint32x4_t(r)
}
pub unsafe fn vreinterpretq_u16_u8(a: uint8x16_t) -> uint16x8_t {
    let mut r = [0u16; 8];
    for i in 0..8 {
        r[i] = u16::from_le_bytes([a.0[2 * i], a.0[2 * i + 1]]);
    }
    uint16x8_t(r)
}
/// UMOV Wd, Vn.S[lane]   (the real intrinsic takes the lane as a legacy const generic)
pub unsafe fn vgetq_lane_u32(v: uint32x4_t, lane: i32) -> u32 {
    v.0[lane as usize]
}
pub unsafe fn vgetq_lane_u16(v: uint16x8_t, lane: i32) -> u16 {
    v.0[lane as usize]
}
/// SHL Vd.8H, Vn.8H, #n
pub unsafe fn vshlq_n_u16(a: uint16x8_t, n: i32) -> uint16x8_t {
    assert!((0..16).contains(&n));
    let mut r = [0u16; 8];
    for i in 0..8 {
        r[i] = a.0[i] << n;
    }
    uint16x8_t(r)
}
pub unsafe fn vcreate_u8(a: u64) -> uint8x8_t {
    uint8x8_t(a.to_le_bytes())
}
pub unsafe fn vcombine_u8(low: uint8x8_t, high: uint8x8_t) -> uint8x16_t {
    let mut r = [0u8; 16];
    r[..8].copy_from_slice(&low.0);
    r[8..].copy_from_slice(&high.0);
    uint8x16_t(r)
}
/// ZIP1 Vd.16B: interleave the lower halves
pub unsafe fn vzip1q_u8(a: uint8x16_t, b: uint8x16_t) -> uint8x16_t {
    let mut r = [0u8; 16];
    for i in 0..8 {
        r[2 * i] = a.0[i];
        r[2 * i + 1] = b.0[i];
    }
    uint8x16_t(r)
}
/// ZIP2 Vd.16B: interleave the upper halves
pub unsafe fn vzip2q_u8(a: uint8x16_t, b: uint8x16_t) -> uint8x16_t {
    let mut r = [0u8; 16];
    for i in 0..8 {
        r[2 * i] = a.0[8 + i];
        r[2 * i + 1] = b.0[8 + i];
    }
    uint8x16_t(r)
}
/// TBL Vd.16B, {Vn.16B - Vn+3.16B}, Vm.16B: out-of-range indices give 0
pub unsafe fn vqtbl4q_u8(t: uint8x16x4_t, idx: uint8x16_t) -> uint8x16_t {
    let mut table = [0u8; 64];
    table[..16].copy_from_slice(&t.0.0);
    table[16..32].copy_from_slice(&t.1.0);
    table[32..48].copy_from_slice(&t.2.0);
    table[48..].copy_from_slice(&t.3.0);
    let mut r = [0u8; 16];
    for i in 0..16 {
        let j = idx.0[i] as usize;
        r[i] = if j < 64 { table[j] } else { 0 };
    }
    uint8x16_t(r)
}

// ---- Cryptography Extension (AESE / AESD / AESMC / AESIMC) ----

/// AESE: result = SubBytes(ShiftRows(data EOR key))
pub unsafe fn vaeseq_u8(data: uint8x16_t, key: uint8x16_t) -> uint8x16_t {
    let mut s = unsafe { veorq_u8(data, key) }.0;
    refmodels::aes::shift_rows(&mut s);
    refmodels::aes::sub_bytes(&mut s);
    uint8x16_t(s)
}
/// AESD: result = InvSubBytes(InvShiftRows(data EOR key))
pub unsafe fn vaesdq_u8(data: uint8x16_t, key: uint8x16_t) -> uint8x16_t {
    let mut s = unsafe { veorq_u8(data, key) }.0;
    refmodels::aes::inv_shift_rows(&mut s);
    refmodels::aes::inv_sub_bytes(&mut s);
    uint8x16_t(s)
}
/// AESMC: MixColumns
pub unsafe fn vaesmcq_u8(data: uint8x16_t) -> uint8x16_t {
    let mut s = data.0;
    refmodels::aes::mix_columns(&mut s);
    uint8x16_t(s)
}
/// AESIMC: InvMixColumns
pub unsafe fn vaesimcq_u8(data: uint8x16_t) -> uint8x16_t {
    let mut s = data.0;
    refmodels::aes::inv_mix_columns(&mut s);
    uint8x16_t(s)
}
