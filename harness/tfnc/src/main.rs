//! Threefish without the `cipher` feature: conformance of the inherent API (C10), round trip (C01) and erasure on
//! drop (C16) in that feature combination.  Output: the same result JSON as the main explorer.
use refmodels::RefCipher;
use serde_json::json;
use std::mem::MaybeUninit;
use vcore::alphabet::{self as al, Tier, hex};
use vcore::report::{Report, Violation, guarded};

macro_rules! per_size {
    ($t:ty, $nw:expr, $name:expr, $prop:expr, $tier:expr, $rep:expr) => {{
        let keys = if $tier == Tier::Quick { al::t_set($nw * 8, 1) } else { al::s_set($nw * 8, 1) };
        let tweaks = al::s_set(16, 3);
        let blocks = al::t_set($nw * 8, 2);
        let words = |b: &[u8]| -> [u64; $nw] {
            let mut w = [0u64; $nw];
            for (i, c) in b.chunks_exact(8).enumerate() {
                w[i] = u64::from_le_bytes(c.try_into().unwrap());
            }
            w
        };
        let bytes = |w: &[u64; $nw]| -> Vec<u8> { w.iter().flat_map(|x| x.to_le_bytes()).collect() };
        if $prop == "C10" || $prop == "C01" {
            for k in &keys {
                for t in &tweaks {
                    let c = <$t>::new_with_tweak(k[..].try_into().unwrap(), t[..].try_into().unwrap());
                    let tw = [u64::from_le_bytes(t[..8].try_into().unwrap()), u64::from_le_bytes(t[8..].try_into().unwrap())];
                    let c2 = <$t>::new_with_tweak_u64(&words(k), &tw);
                    let rf = refmodels::threefish::Threefish::new(k, t[..].try_into().unwrap());
                    for b in &blocks {
                        $rep.evaluations += 1;
                        $rep.calls += 4;
                        $rep.ref_compared += 1;
                        $rep.distinct_count += 1;
                        let r = guarded(|| {
                            let mut w = words(b);
                            c.encrypt_block_u64(&mut w);
                            let mut w2 = words(b);
                            c2.encrypt_block_u64(&mut w2);
                            let mut e = b.clone();
                            rf.encrypt(&mut e);
                            if bytes(&w) != e || bytes(&w2) != e {
                                return Err((hex(&e), format!("{} / {}", hex(&bytes(&w)), hex(&bytes(&w2)))));
                            }
                            c.decrypt_block_u64(&mut w);
                            if bytes(&w) != *b {
                                return Err((hex(b), format!("decrypt_block_u64(encrypt_block_u64(b)) = {}", hex(&bytes(&w)))));
                            }
                            let mut d = words(b);
                            c.decrypt_block_u64(&mut d);
                            let mut dm = b.clone();
                            rf.decrypt(&mut dm);
                            if bytes(&d) != dm {
                                return Err((hex(&dm), hex(&bytes(&d))));
                            }
                            Ok(())
                        })
                        .unwrap_or_else(|p| Err(("no panic".into(), format!("panic: {p}"))));
                        if let Err((e, o)) = r {
                            $rep.violate(Violation { property: $prop.into(), subject: format!("{}(no cipher feature)", $name), what: "conformance".into(),
                                case: json!({"kind":"tfnc","size":$nw,"key":hex(k),"tweak":hex(t),"block":hex(b)}), expected: e, observed: o,
                                note: "Threefish built without the cipher feature disagrees with the reference".into(), index: 0 });
                        }
                    }
                }
            }
        }
        if $prop == "C16" {
            // same rule as the main explorer: stable across canaries, different between keys, must read 0 after drop
            let probe = |k: &Vec<u8>, canary: u8| -> (Vec<u8>, Vec<u8>) {
                let n = std::mem::size_of::<$t>();
                let mut slot = MaybeUninit::<$t>::uninit();
                let p = slot.as_mut_ptr() as *mut u8;
                unsafe {
                    for i in 0..n {
                        p.add(i).write_volatile(canary);
                    }
                    slot.as_mut_ptr().write(<$t>::new_with_tweak(k[..].try_into().unwrap(), &[7u8; 16]));
                    let before: Vec<u8> = (0..n).map(|i| p.add(i).read_volatile()).collect();
                    core::ptr::drop_in_place(slot.as_mut_ptr());
                    let after: Vec<u8> = (0..n).map(|i| p.add(i).read_volatile()).collect();
                    (before, after)
                }
            };
            let ks: Vec<Vec<u8>> = al::t_set($nw * 8, 1);
            let imgs: Vec<Vec<(Vec<u8>, Vec<u8>)>> = ks.iter().map(|k| [0xC3u8, 0x3C, 0x69].iter().map(|&c| probe(k, c)).collect()).collect();
            let n = std::mem::size_of::<$t>();
            let mut dependent = 0;
            let mut bad = None;
            for i in 0..n {
                let stable = imgs.iter().all(|v| v.iter().all(|(b, _)| b[i] == v[0].0[i]));
                let differs = imgs.iter().any(|v| v[0].0[i] != imgs[0][0].0[i]);
                if stable && differs {
                    dependent += 1;
                    for (ki, v) in imgs.iter().enumerate() {
                        for (_, a) in v {
                            if a[i] != 0 && bad.is_none() {
                                bad = Some((i, a[i], ki));
                            }
                        }
                    }
                }
            }
            $rep.evaluations += (ks.len() * 3) as u64;
            $rep.calls += (ks.len() * 6) as u64;
            $rep.distinct_count += ks.len() as u64;
            $rep.count("key_dependent_bytes_checked", dependent);
            if let Some((i, v, ki)) = bad {
                $rep.violate(Violation { property: "C16".into(), subject: format!("{}(no cipher feature)", $name), what: "not-erased".into(),
                    case: json!({"kind":"tfnc-zeroize","size":$nw}), expected: format!("all {dependent} key-dependent bytes read 0 after drop"),
                    observed: format!("byte {i} = {v:#04x} survives the drop for key #{ki} (threefish built with --no-default-features --features zeroize)"),
                    note: "key-dependent bytes survive drop".into(), index: 0 });
            }
        }
        $rep.sample(json!({"subject":format!("{}(no cipher feature)", $name),"check":"inherent u64/tweak API vs reference; erasure on drop","features":"zeroize only"}));
    }};
}

fn main() {
    let args: Vec<String> = std::env::args().collect();
    let prop = args.get(1).cloned().unwrap_or_default();
    let tier = if args.iter().any(|a| a == "thorough") { Tier::Thorough } else { Tier::Quick };
    let out = args.iter().position(|a| a == "--out").and_then(|i| args.get(i + 1).cloned());
    std::panic::set_hook(Box::new(|_| {}));
    let t0 = std::time::Instant::now();
    let mut rep = Report::new();
    per_size!(threefish::Threefish256, 4, "Threefish256", prop.as_str(), tier, rep);
    per_size!(threefish::Threefish512, 8, "Threefish512", prop.as_str(), tier, rep);
    per_size!(threefish::Threefish1024, 16, "Threefish1024", prop.as_str(), tier, rep);
    let js = rep.to_json(&prop, "T0-threefish-nocipher", tier, t0.elapsed().as_secs_f64());
    let text = serde_json::to_string_pretty(&js).unwrap();
    match out {
        Some(f) => std::fs::write(f, text).unwrap(),
        None => println!("{text}"),
    }
}
