//! Type-level RC5 instantiations (DESIGN §2.1): W x R x B grid plus the six published vector triples.
use vcore::subjects::*;
use cipher::consts::*;

macro_rules! one {
    ($v:ident, $w:ident, $r:ident, $b:ident) => {{
        use cipher::typenum::Unsigned;
        let name = format!("RC5<{},{},{}>", stringify!($w), <$r>::USIZE, <$b>::USIZE);
        $v.push(Box::new(Gen::<rc5::RC5<$w, $r, $b>> {
            meta: Meta { name: "RC5", krate: "rc5", lens: || vec![<$b>::USIZE], names: &["RC5"] },
            e: &EncYes,
            d: &DecYes,
            c: &CloneYes,
            g: &DbgYes,
            caps: CAPS_FULL,
            v: None,
            name_override: Some(name),
            conv: None,
        }) as Box<dyn Subject>);
    }};
}

macro_rules! grid {
    ($v:ident; [$($w:ident),*]; $rs:tt; $bs:tt) => { $( grid!(@r $v; $w; $rs; $bs); )* };
    (@r $v:ident; $w:ident; [$($r:ident),*]; $bs:tt) => { $( grid!(@b $v; $w; $r; $bs); )* };
    (@b $v:ident; $w:ident; $r:ident; [$($b:ident),*]) => { $( one!($v, $w, $r, $b); )* };
}

pub fn rc5_subjects() -> Vec<Box<dyn Subject>> {
    let mut v: Vec<Box<dyn Subject>> = Vec::new();
    grid!(v; [u8, u16, u32, u64, u128]; [U0, U1, U12, U16, U255]; [U0, U1, U3, U4, U5, U8, U16, U17, U255]);
    // published vector triples not already in the grid
    one!(v, u16, U16, U8);
    one!(v, u64, U24, U24);
    one!(v, u128, U28, U32);
    one!(v, u8, U12, U4);
    let mut seen = std::collections::HashSet::new();
    v.retain(|s| seen.insert(s.name()));
    v
}

/// (w bits, rounds, key bytes) parsed from a grid subject name.
pub fn parse_name(name: &str) -> Option<(u32, u32, u32)> {
    let inner = name.strip_prefix("RC5<")?.strip_suffix('>')?;
    let mut it = inner.split(',');
    let w = match it.next()? {
        "u8" => 8,
        "u16" => 16,
        "u32" => 32,
        "u64" => 64,
        "u128" => 128,
        _ => return None,
    };
    Some((w, it.next()?.parse().ok()?, it.next()?.parse().ok()?))
}
