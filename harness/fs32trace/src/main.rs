#[cfg(feature = "shadow")]
use aes_fs32 as aes;
use aes::cipher::{BlockCipherDecrypt, BlockCipherEncrypt, KeyInit};

fn hex(b: &[u8]) -> String {
    b.iter().map(|x| format!("{x:02x}")).collect()
}
fn key(n: usize, v: u8) -> Vec<u8> {
    (0..n).map(|i| (i as u8).wrapping_mul(37).wrapping_add(v)).collect()
}
fn blocks(n: usize, v: u8) -> Vec<aes::Block> {
    (0..n).map(|j| aes::Block::try_from(&key(16, v.wrapping_add(j as u8 * 11))[..]).unwrap()).collect()
}

macro_rules! go {
    ($t:ty, $kl:expr, $name:expr) => {{
        for kv in [0u8, 0xA7] {
            let k = key($kl, kv);
            let c = <$t>::new_from_slice(&k).unwrap();
            for n in 0..=5usize {
                let mut b = blocks(n, kv ^ 0x5C);
                c.encrypt_blocks(&mut b);
                println!("{} k{} enc n{} {}", $name, kv, n, b.iter().map(|x| hex(x)).collect::<Vec<_>>().join(","));
                let mut d = blocks(n, kv ^ 0x3B);
                c.decrypt_blocks(&mut d);
                println!("{} k{} dec n{} {}", $name, kv, n, d.iter().map(|x| hex(x)).collect::<Vec<_>>().join(","));
            }
        }
    }};
}

fn main() {
    println!("size_of Aes128={} Aes192={} Aes256={} ptr={}", std::mem::size_of::<aes::Aes128>(), std::mem::size_of::<aes::Aes192>(), std::mem::size_of::<aes::Aes256>(), std::mem::size_of::<usize>());
    go!(aes::Aes128, 16, "Aes128");
    go!(aes::Aes192, 24, "Aes192");
    go!(aes::Aes256, 32, "Aes256");
}
