//! Data alphabets (DESIGN §2.3).  Pure functions of (length, tier, VERIF_SEED);
//! enumeration order is fixed and simplest-first.

use std::sync::OnceLock;

pub fn seed() -> u64 {
    static S: OnceLock<u64> = OnceLock::new();
    *S.get_or_init(|| {
        std::env::var("VERIF_SEED")
            .ok()
            .and_then(|s| s.trim().parse::<i64>().ok())
            .map(|v| v as u64)
            .unwrap_or(0)
    })
}

#[derive(Clone, Copy, PartialEq, Eq, Debug)]
pub enum Tier {
    Quick,
    Thorough,
}

pub fn splitmix64(x: &mut u64) -> u64 {
    *x = x.wrapping_add(0x9E37_79B9_7F4A_7C15);
    let mut z = *x;
    z = (z ^ (z >> 30)).wrapping_mul(0xBF58_476D_1CE4_E5B9);
    z = (z ^ (z >> 27)).wrapping_mul(0x94D0_49BB_1331_11EB);
    z ^ (z >> 31)
}

/// k-th "dense" string of length n of the family named by (seed, stream).
pub fn dense(n: usize, stream: u64, k: u64) -> Vec<u8> {
    let mut s = seed()
        .wrapping_mul(0xD1B5_4A32_D192_ED03)
        .wrapping_add(stream.wrapping_mul(0x8CB9_2BA7_2F3D_8DD7))
        .wrapping_add(k.wrapping_mul(0x2545_F491_4F6C_DD1D))
        ^ 0x5851_F42D_4C95_7F2D;
    let mut out = Vec::with_capacity(n + 8);
    while out.len() < n {
        out.extend_from_slice(&splitmix64(&mut s).to_le_bytes());
    }
    out.truncate(n);
    out
}

pub fn ramp(n: usize) -> Vec<u8> {
    (0..n).map(|i| (0x1Du32.wrapping_mul(i as u32).wrapping_add(0x53)) as u8).collect()
}

/// Pairwise-distinct bytes (for key-length checks: a wrong wrap/pad position changes the key).
pub fn distinct_bytes(n: usize, variant: u8) -> Vec<u8> {
    (0..n).map(|i| (i as u8).wrapping_mul(7).wrapping_add(variant.wrapping_mul(0x3B)).wrapping_add(0x11)).collect()
}

pub fn z(n: usize) -> Vec<u8> {
    vec![0; n]
}
pub fn o(n: usize) -> Vec<u8> {
    vec![0xFF; n]
}

pub fn w1(n: usize) -> Vec<Vec<u8>> {
    let mut v = Vec::new();
    for bit in 0..8 * n {
        let mut s = vec![0u8; n];
        s[bit / 8] = 0x80 >> (bit % 8);
        v.push(s);
    }
    v
}
pub fn w0(n: usize) -> Vec<Vec<u8>> {
    w1(n).into_iter().map(|s| s.into_iter().map(|b| !b).collect()).collect()
}

/// Lane boundaries: for every aligned 2-, 4-, 8-byte lane the values
/// 1, 2^(k-1)-1, 2^(k-1), 2^k-2, 2^k-1 in both byte orders, rest zero.
pub fn lb(n: usize) -> Vec<Vec<u8>> {
    let mut v = Vec::new();
    for &w in &[2usize, 4, 8] {
        if w > n {
            continue;
        }
        let bits = 8 * w as u32;
        let vals: [u128; 5] = [
            1,
            (1u128 << (bits - 1)) - 1,
            1u128 << (bits - 1),
            (1u128 << bits) - 2,
            (1u128 << bits) - 1,
        ];
        for lane in 0..n / w {
            for &val in &vals {
                for be in [false, true] {
                    let mut s = vec![0u8; n];
                    for i in 0..w {
                        let byte = (val >> (8 * i)) as u8;
                        let pos = if be { lane * w + (w - 1 - i) } else { lane * w + i };
                        s[pos] = byte;
                    }
                    v.push(s);
                }
            }
        }
    }
    v.sort();
    v.dedup();
    v
}

/// Byte sweep: every position x every value over two backgrounds (zero, ramp).
pub fn bs(n: usize) -> Vec<Vec<u8>> {
    let mut v = Vec::new();
    for bg in [z(n), ramp(n)] {
        for p in 0..n {
            for val in 0..=255u8 {
                let mut s = bg.clone();
                s[p] = val;
                v.push(s);
            }
        }
    }
    v
}

pub fn d(n: usize, stream: u64, k: usize) -> Vec<Vec<u8>> {
    (0..k as u64).map(|i| dense(n, stream, i)).collect()
}

fn dedup_keep_order(v: Vec<Vec<u8>>) -> Vec<Vec<u8>> {
    let mut seen = std::collections::HashSet::new();
    v.into_iter().filter(|s| seen.insert(s.clone())).collect()
}

/// S(n) = Z, O, W1, D(4)
pub fn s_set(n: usize, stream: u64) -> Vec<Vec<u8>> {
    let mut v = vec![z(n), o(n)];
    v.extend(w1(n));
    v.extend(d(n, stream, 4));
    dedup_keep_order(v)
}

/// Tiny set: Z, O, ramp, 2 dense, first/last walking one.
pub fn t_set(n: usize, stream: u64) -> Vec<Vec<u8>> {
    let mut v = vec![z(n), o(n), ramp(n)];
    v.extend(d(n, stream, 2));
    if n > 0 {
        let w = w1(n);
        v.push(w[0].clone());
        v.push(w[w.len() - 1].clone());
    }
    dedup_keep_order(v)
}

/// Periodic strings: a dense pattern of period 1, 2, 4, 8, 16 bytes repeated (keys like "ABCDABCD", equal halves,
/// equal words) – three patterns per period.
pub fn rep(n: usize, stream: u64) -> Vec<Vec<u8>> {
    let mut v = Vec::new();
    for p in [1usize, 2, 4, 8, 16] {
        if 2 * p > n {
            break;
        }
        for k in 0..3u64 {
            let pat = dense(p, stream.wrapping_add(1000 + p as u64), k);
            v.push((0..n).map(|i| pat[i % p]).collect());
        }
    }
    v
}

/// M(n) = S ∪ W0 ∪ LB ∪ REP ∪ D(32)
pub fn m_set(n: usize, stream: u64) -> Vec<Vec<u8>> {
    let mut v = s_set(n, stream);
    v.extend(w0(n));
    v.extend(lb(n));
    v.extend(rep(n, stream));
    v.extend(d(n, stream, 32));
    dedup_keep_order(v)
}

/// F(n) = M ∪ BS ∪ D(K), K = 64 quick / 1024 thorough
pub fn f_set(n: usize, stream: u64, tier: Tier) -> Vec<Vec<u8>> {
    let mut v = m_set(n, stream);
    v.extend(bs(n));
    v.extend(d(n, stream, if tier == Tier::Quick { 64 } else { 1024 }));
    dedup_keep_order(v)
}

/// The "star" product: F_key x S_blk  ∪  M_key x M_blk (quick: S x M)  ∪  S_key x F_blk.
/// Returns (keys, blocks, pairs of indices), deduplicated.
pub struct Star {
    pub keys: Vec<Vec<u8>>,
    pub blocks: Vec<Vec<u8>>,
    pub pairs: Vec<(u32, u32)>,
}

#[derive(Clone, Copy, PartialEq, Eq, Debug, Hash)]
pub enum Plan {
    /// quick: T x F ∪ F x T ∪ S x S;  thorough: S x F ∪ F x S ∪ M x M
    Full,
    /// quick: T x M ∪ M x T;  thorough: S x M ∪ M x S
    Medium,
    /// quick: T x S ∪ S x T;  thorough: S x S ∪ T x M ∪ M x T
    Small,
    /// T x T (both tiers) – for secondary key lengths; keys additionally get distinct-byte strings
    Tiny,
}

pub fn star(klen: usize, blen: usize, tier: Tier, plan: Plan) -> Star {
    // size class: the Full plan grows with (key bits x block bits); for the wide-block ciphers (Threefish-512/1024)
    // the thorough tier uses the Medium plan so that a star stays below ~10^7 cases per (type, key length)
    let plan = if plan == Plan::Full && tier == Tier::Thorough && klen * blen > 32 * 32 { Plan::Medium } else { plan };
    const KS: u64 = 1; // stream ids
    const BS_: u64 = 2;
    let t = |n, st| t_set(n, st);
    let s = |n, st| s_set(n, st);
    let m = |n, st| m_set(n, st);
    let f = |n, st| f_set(n, st, tier);
    // arms: list of (key set, block set)
    let arms: Vec<(Vec<Vec<u8>>, Vec<Vec<u8>>)> = match (plan, tier) {
        (Plan::Full, Tier::Quick) => vec![(t(klen, KS), f(blen, BS_)), (f(klen, KS), t(blen, BS_)), (s(klen, KS), s(blen, BS_))],
        (Plan::Full, Tier::Thorough) => vec![(s(klen, KS), f(blen, BS_)), (f(klen, KS), s(blen, BS_)), (m(klen, KS), m(blen, BS_))],
        (Plan::Medium, Tier::Quick) => vec![(t(klen, KS), m(blen, BS_)), (m(klen, KS), t(blen, BS_))],
        (Plan::Medium, Tier::Thorough) => vec![(s(klen, KS), m(blen, BS_)), (m(klen, KS), s(blen, BS_))],
        (Plan::Small, Tier::Quick) => vec![(t(klen, KS), s(blen, BS_)), (s(klen, KS), t(blen, BS_))],
        (Plan::Small, Tier::Thorough) => {
            vec![(s(klen, KS), s(blen, BS_)), (t(klen, KS), m(blen, BS_)), (m(klen, KS), t(blen, BS_))]
        }
        (Plan::Tiny, _) => {
            let mut k = t(klen, KS);
            for v in 0..3 {
                k.push(distinct_bytes(klen, v));
            }
            vec![(k, t(blen, BS_))]
        }
    };
    let mut keys: Vec<Vec<u8>> = Vec::new();
    let mut blocks: Vec<Vec<u8>> = Vec::new();
    let mut kidx = std::collections::HashMap::new();
    let mut bidx = std::collections::HashMap::new();
    fn intern(v: &Vec<u8>, all: &mut Vec<Vec<u8>>, idx: &mut std::collections::HashMap<Vec<u8>, u32>) -> u32 {
        if let Some(&i) = idx.get(v) {
            return i;
        }
        let i = all.len() as u32;
        all.push(v.clone());
        idx.insert(v.clone(), i);
        i
    }
    let mut pairs: Vec<(u32, u32)> = Vec::new();
    for (ks, bs) in &arms {
        let ki: Vec<u32> = ks.iter().map(|k| intern(k, &mut keys, &mut kidx)).collect();
        let bi: Vec<u32> = bs.iter().map(|b| intern(b, &mut blocks, &mut bidx)).collect();
        for &k in &ki {
            for &b in &bi {
                pairs.push((k, b));
            }
        }
    }
    // deduplicate the union of the arms (sort + dedup keeps memory bounded by the pair list itself)
    pairs.sort_unstable();
    pairs.dedup();
    // group by key so that one key set-up serves all its blocks (order stays deterministic)
    pairs.sort_by_key(|&(k, _)| k);
    Star { keys, blocks, pairs }
}

impl Star {
    /// (key index, range into `pairs`) for every key, in order.
    pub fn groups(&self) -> Vec<(u32, std::ops::Range<usize>)> {
        let mut g = Vec::new();
        let mut i = 0;
        while i < self.pairs.len() {
            let k = self.pairs[i].0;
            let mut j = i;
            while j < self.pairs.len() && self.pairs[j].0 == k {
                j += 1;
            }
            g.push((k, i..j));
            i = j;
        }
        g
    }
}

pub fn hex(b: &[u8]) -> String {
    let mut s = String::with_capacity(b.len() * 2);
    for x in b {
        s.push_str(&format!("{:02x}", x));
    }
    s
}

pub fn unhex(s: &str) -> Vec<u8> {
    (0..s.len() / 2).map(|i| u8::from_str_radix(&s[2 * i..2 * i + 2], 16).unwrap()).collect()
}

pub fn fnv64(data: &[u8]) -> u64 {
    let mut h: u64 = 0xcbf29ce484222325;
    for &b in data {
        h ^= b as u64;
        h = h.wrapping_mul(0x100000001b3);
    }
    h
}

pub fn mix64(mut h: u64, v: u64) -> u64 {
    h ^= v.wrapping_add(0x9E37_79B9_7F4A_7C15).wrapping_add(h << 6).wrapping_add(h >> 2);
    let mut x = h;
    splitmix64(&mut x)
}
