pub mod alphabet;
pub mod report;
pub mod subjects;
