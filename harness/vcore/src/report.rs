//! Per-run accounting, violations, parallel driver.
use crate::alphabet::Tier;
use serde::{Deserialize, Serialize};
use serde_json::{Value, json};
use std::collections::HashSet;
use std::sync::atomic::{AtomicUsize, Ordering};
use std::sync::Mutex;

#[derive(Serialize, Deserialize, Clone, Debug)]
pub struct Violation {
    pub property: String,
    pub subject: String,
    /// short stable class of the failure (used by the known-findings matcher)
    pub what: String,
    /// replayable case descriptor (property-specific)
    pub case: Value,
    pub expected: String,
    pub observed: String,
    pub note: String,
    /// enumeration index (for deterministic ordering)
    #[serde(default)]
    pub index: u64,
}

#[derive(Default)]
pub struct Report {
    pub evaluations: u64,
    /// API calls made on the implementation (constructions + encrypt/decrypt/... calls)
    pub calls: u64,
    /// traces (cases) whose implementation result was compared with a reference model
    pub ref_compared: u64,
    pub distinct: HashSet<u64>,
    /// cases that are distinct by construction of the enumerator and non-trivial by the property's rule
    pub distinct_count: u64,
    pub samples: Vec<Value>,
    pub violations: Vec<Violation>,
    pub notes: Vec<String>,
    pub skipped: u64,
    pub counters: std::collections::BTreeMap<String, u64>,
    /// property-specific payload copied into the result file
    pub extra: std::collections::BTreeMap<String, Value>,
}

pub const MAX_VIOLATIONS: usize = 12;
pub const MAX_SAMPLES: usize = 6;

impl Report {
    pub fn new() -> Self {
        Self::default()
    }
    pub fn merge(&mut self, o: Report) {
        self.evaluations += o.evaluations;
        self.calls += o.calls;
        self.ref_compared += o.ref_compared;
        self.skipped += o.skipped;
        self.distinct.extend(o.distinct);
        self.distinct_count += o.distinct_count;
        for s in o.samples {
            if self.samples.len() < MAX_SAMPLES {
                self.samples.push(s);
            }
        }
        self.violations.extend(o.violations);
        self.notes.extend(o.notes);
        for (k, v) in o.counters {
            *self.counters.entry(k).or_insert(0) += v;
        }
    }
    pub fn count(&mut self, k: &str, n: u64) {
        *self.counters.entry(k.to_string()).or_insert(0) += n;
    }
    pub fn violate(&mut self, v: Violation) {
        if self.violations.len() < 2000 {
            self.violations.push(v);
        }
    }
    pub fn sample(&mut self, v: Value) {
        if self.samples.len() < MAX_SAMPLES {
            self.samples.push(v);
        }
    }
    pub fn to_json(&mut self, property: &str, config: &str, tier: Tier, wall: f64) -> Value {
        self.violations.sort_by(|a, b| (a.subject.clone(), a.index).cmp(&(b.subject.clone(), b.index)));
        // keep at most MAX_VIOLATIONS, but at least one per (subject, what) class
        let mut kept: Vec<Violation> = Vec::new();
        let mut classes = HashSet::new();
        for v in &self.violations {
            let cls = (v.subject.clone(), v.what.clone());
            if classes.insert(cls) || kept.len() < MAX_VIOLATIONS {
                kept.push(v.clone());
            }
        }
        kept.truncate(600);
        json!({
            "property": property,
            "config": config,
            "tier": if tier == Tier::Quick { "quick" } else { "thorough" },
            "seed": crate::alphabet::seed() as i64,
            "evaluations": self.evaluations,
            "calls": self.calls,
            "ref_compared": self.ref_compared,
            "distinct_nontrivial": self.distinct.len() as u64 + self.distinct_count,
            "skipped": self.skipped,
            "samples": self.samples,
            "violations": kept,
            "violations_total": self.violations.len(),
            "notes": self.notes,
            "counters": self.counters,
            "wall_s": wall,
            "extra": self.extra,
        })
    }
}

pub fn threads() -> usize {
    std::env::var("VERIF_THREADS").ok().and_then(|s| s.parse().ok()).unwrap_or_else(|| {
        std::thread::available_parallelism().map(|n| n.get()).unwrap_or(4)
    })
}

/// Run `f(i, &mut report)` for every i in 0..n on all cores (work items taken in order).
pub fn par_for<F>(n: usize, total: &mut Report, f: F)
where
    F: Fn(usize, &mut Report) + Sync,
{
    let next = AtomicUsize::new(0);
    let out = Mutex::new(Vec::new());
    let nt = threads().min(n.max(1));
    std::thread::scope(|s| {
        for _ in 0..nt {
            s.spawn(|| {
                let mut r = Report::new();
                loop {
                    let i = next.fetch_add(1, Ordering::Relaxed);
                    if i >= n {
                        break;
                    }
                    f(i, &mut r);
                }
                out.lock().unwrap().push(r);
            });
        }
    });
    for r in out.into_inner().unwrap() {
        total.merge(r);
    }
}

/// Run a closure under catch_unwind, returning the panic message on panic.
pub fn guarded<R>(f: impl FnOnce() -> R) -> Result<R, String> {
    match std::panic::catch_unwind(std::panic::AssertUnwindSafe(f)) {
        Ok(r) => Ok(r),
        Err(e) => Err(if let Some(s) = e.downcast_ref::<&str>() {
            s.to_string()
        } else if let Some(s) = e.downcast_ref::<String>() {
            s.clone()
        } else {
            "panic".to_string()
        }),
    }
}

pub fn quiet_panics() {
    std::panic::set_hook(Box::new(|_| {}));
}
