//! Object-safe subject/instance traits and the generic adapter over the `cipher` traits (DESIGN §2.1).

use cipher::inout::{InOut, InOutBuf};
use cipher::{AlgorithmName, Block, BlockCipherDecrypt, BlockCipherEncrypt, BlockSizeUser, Key, KeyInit, KeySizeUser};
use cipher::typenum::Unsigned;
use std::fmt::Debug;
use std::marker::PhantomData;
use std::mem::MaybeUninit;

#[derive(Clone, Copy, PartialEq, Eq, Debug, serde::Serialize, serde::Deserialize)]
pub enum Dir {
    Enc,
    Dec,
}

#[derive(Clone, Copy, PartialEq, Eq, Debug, serde::Serialize, serde::Deserialize)]
pub enum Shape {
    /// `*_blocks(&mut [Block])`
    Blocks,
    /// `*_blocks_b2b(&[Block], &mut [Block])`
    BlocksB2b,
    /// `*_blocks_inout(InOutBuf::new(in, out))`
    BlocksInoutSep,
    /// `*_blocks_inout(InOutBuf::from(&mut [Block]))`
    BlocksInoutSame,
    /// n times `*_block(&mut Block)`
    Block,
    /// n times `*_block_b2b(&Block, &mut Block)`
    BlockB2b,
    /// n times `*_block_inout((&in, &mut out).into())`
    BlockInoutSep,
}

impl Shape {
    pub const ALL: [Shape; 7] = [
        Shape::Blocks,
        Shape::BlocksB2b,
        Shape::BlocksInoutSep,
        Shape::BlocksInoutSame,
        Shape::Block,
        Shape::BlockB2b,
        Shape::BlockInoutSep,
    ];
    pub fn separate(self) -> bool {
        matches!(self, Shape::BlocksB2b | Shape::BlocksInoutSep | Shape::BlockB2b | Shape::BlockInoutSep)
    }
}

#[derive(Clone, Copy, Debug)]
pub struct Caps {
    pub enc: bool,
    pub dec: bool,
    pub clone: bool,
}

/// Target of a `From<Enc>` conversion.
#[derive(Clone, Copy, PartialEq, Eq, Debug, Hash, serde::Serialize, serde::Deserialize)]
pub enum Target {
    Full,
    Dec,
}

pub trait Inst: Send + Sync {
    fn as_any(&self) -> &dyn std::any::Any;
    /// `Clone::clone_from(self, other)` (in-place clone); false if the type is not Clone or `other` is another type.
    fn clone_from_inst(&mut self, _other: &dyn Inst) -> bool {
        false
    }
    /// `Target::from(&self)` if this is an encrypt-only instance with such a conversion.
    fn convert_ref(&self, _target: Target) -> Option<Box<dyn Inst>> {
        None
    }
    /// `Target::from(self)`; gives the instance back if there is no such conversion.
    fn convert_val(self: Box<Self>, _target: Target) -> Result<Box<dyn Inst>, Box<dyn Inst>>;
    /// In-place multi-block call on `data` (length a multiple of the block size).
    fn blocks(&self, dir: Dir, data: &mut [u8]);
    /// In-place single-block call.
    fn block(&self, dir: Dir, data: &mut [u8]);
    /// Raw call shape: `inp`/`out` point at n blocks each (alignment 1); for in-place shapes only `out` is used.
    /// Returns false if the call reported an error (b2b length mismatch cannot happen here).
    unsafe fn call(&self, dir: Dir, shape: Shape, inp: *const u8, out: *mut u8, n: usize) -> bool;
    /// `*_blocks_b2b` with possibly unequal lengths; returns Ok/Err as the API does.
    unsafe fn b2b_len(&self, dir: Dir, inp: *const u8, n_in: usize, out: *mut u8, n_out: usize) -> bool;
    fn try_clone(&self) -> Option<Box<dyn Inst>>;
    /// Debug text, None if the type does not implement Debug.
    fn debug(&self) -> Option<String>;
}

#[derive(Clone, Copy, PartialEq, Eq, Debug, serde::Serialize, serde::Deserialize)]
pub enum Route {
    New,
    FromSlice,
    Clone,
    CloneOfClone,
    /// clone, then drop the original first
    CloneDropOrig,
    /// From<Enc> by value (AES, Kuznyechik targets only)
    FromEncVal,
    /// From<&Enc>
    FromEncRef,
    /// clone of a converted instance
    CloneOfConverted,
}

pub struct ZProbe {
    pub before: Vec<u8>,
    pub after: Vec<u8>,
}

pub trait Subject: Send + Sync {
    fn name(&self) -> String;
    fn krate(&self) -> &'static str;
    fn bs(&self) -> usize;
    /// `KeySize` of the type (length `KeyInit::new` takes).
    fn key_size(&self) -> usize;
    /// Accepted `new_from_slice` lengths according to the property statement.
    fn key_lens(&self) -> Vec<usize>;
    fn caps(&self) -> Caps;
    fn from_slice(&self, key: &[u8]) -> Result<Box<dyn Inst>, ()>;
    /// `KeyInit::new`; `key.len()` must equal `key_size()`.
    fn new_fixed(&self, key: &[u8]) -> Box<dyn Inst>;
    /// true iff `weak_key_test` returns `Err`.
    fn weak(&self, key: &[u8]) -> bool;
    fn new_checked(&self, key: &[u8]) -> Result<Box<dyn Inst>, ()>;
    fn alg_name(&self) -> String;
    /// Accepted leading identifiers of the Debug text (ASCII-case-insensitive).
    fn type_names(&self) -> Vec<String>;
    fn size_of(&self) -> usize;
    /// Build via `route` inside canary-filled storage, snapshot, drop in place, snapshot.
    fn zprobe(&self, key: &[u8], route: Route, canary: u8) -> Option<ZProbe>;
    /// Is the storage byte at `off` of an instance built via `route` *live*: does flipping its lowest bit change any
    /// observable behaviour (encrypt/decrypt of 64 probe blocks, Debug text)?  None if the route is unavailable.
    fn live_byte(&self, _key: &[u8], _route: Route, _off: usize) -> Option<bool> {
        None
    }
    /// Subjects built from an encrypt-only sibling (name of the Enc subject) – AES / Kuznyechik.
    fn enc_sibling(&self) -> Option<&'static str> {
        None
    }
    /// Construct through From<Enc> (by value / by reference) from the sibling's key.
    fn from_enc(&self, _key: &[u8], _by_ref: bool) -> Option<Box<dyn Inst>> {
        None
    }
}

// ---------------------------------------------------------------------------------------------
// generic plumbing

unsafe fn blocks_mut<'a, T: BlockSizeUser>(p: *mut u8, n: usize) -> &'a mut [Block<T>] {
    unsafe { core::slice::from_raw_parts_mut(p as *mut Block<T>, n) }
}
unsafe fn blocks_ref<'a, T: BlockSizeUser>(p: *const u8, n: usize) -> &'a [Block<T>] {
    unsafe { core::slice::from_raw_parts(p as *const Block<T>, n) }
}

pub trait EncDyn<T: BlockSizeUser> {
    fn e_blocks(&self, t: &T, b: &mut [Block<T>]);
    fn e_blocks_b2b(&self, t: &T, i: &[Block<T>], o: &mut [Block<T>]) -> bool;
    fn e_blocks_inout(&self, t: &T, b: InOutBuf<'_, '_, Block<T>>);
    fn e_block(&self, t: &T, b: &mut Block<T>);
    fn e_block_b2b(&self, t: &T, i: &Block<T>, o: &mut Block<T>);
    fn e_block_inout(&self, t: &T, b: InOut<'_, '_, Block<T>>);
}

pub struct EncYes;
pub struct EncNo;
impl<T: BlockCipherEncrypt> EncDyn<T> for EncYes {
    fn e_blocks(&self, t: &T, b: &mut [Block<T>]) {
        t.encrypt_blocks(b)
    }
    fn e_blocks_b2b(&self, t: &T, i: &[Block<T>], o: &mut [Block<T>]) -> bool {
        t.encrypt_blocks_b2b(i, o).is_ok()
    }
    fn e_blocks_inout(&self, t: &T, b: InOutBuf<'_, '_, Block<T>>) {
        t.encrypt_blocks_inout(b)
    }
    fn e_block(&self, t: &T, b: &mut Block<T>) {
        t.encrypt_block(b)
    }
    fn e_block_b2b(&self, t: &T, i: &Block<T>, o: &mut Block<T>) {
        t.encrypt_block_b2b(i, o)
    }
    fn e_block_inout(&self, t: &T, b: InOut<'_, '_, Block<T>>) {
        t.encrypt_block_inout(b)
    }
}
impl<T: BlockSizeUser> EncDyn<T> for EncNo {
    fn e_blocks(&self, _: &T, _: &mut [Block<T>]) {
        unreachable!("encrypt on decrypt-only subject")
    }
    fn e_blocks_b2b(&self, _: &T, _: &[Block<T>], _: &mut [Block<T>]) -> bool {
        unreachable!()
    }
    fn e_blocks_inout(&self, _: &T, _: InOutBuf<'_, '_, Block<T>>) {
        unreachable!()
    }
    fn e_block(&self, _: &T, _: &mut Block<T>) {
        unreachable!()
    }
    fn e_block_b2b(&self, _: &T, _: &Block<T>, _: &mut Block<T>) {
        unreachable!()
    }
    fn e_block_inout(&self, _: &T, _: InOut<'_, '_, Block<T>>) {
        unreachable!()
    }
}

pub trait DecDyn<T: BlockSizeUser> {
    fn d_blocks(&self, t: &T, b: &mut [Block<T>]);
    fn d_blocks_b2b(&self, t: &T, i: &[Block<T>], o: &mut [Block<T>]) -> bool;
    fn d_blocks_inout(&self, t: &T, b: InOutBuf<'_, '_, Block<T>>);
    fn d_block(&self, t: &T, b: &mut Block<T>);
    fn d_block_b2b(&self, t: &T, i: &Block<T>, o: &mut Block<T>);
    fn d_block_inout(&self, t: &T, b: InOut<'_, '_, Block<T>>);
}
pub struct DecYes;
pub struct DecNo;
impl<T: BlockCipherDecrypt> DecDyn<T> for DecYes {
    fn d_blocks(&self, t: &T, b: &mut [Block<T>]) {
        t.decrypt_blocks(b)
    }
    fn d_blocks_b2b(&self, t: &T, i: &[Block<T>], o: &mut [Block<T>]) -> bool {
        t.decrypt_blocks_b2b(i, o).is_ok()
    }
    fn d_blocks_inout(&self, t: &T, b: InOutBuf<'_, '_, Block<T>>) {
        t.decrypt_blocks_inout(b)
    }
    fn d_block(&self, t: &T, b: &mut Block<T>) {
        t.decrypt_block(b)
    }
    fn d_block_b2b(&self, t: &T, i: &Block<T>, o: &mut Block<T>) {
        t.decrypt_block_b2b(i, o)
    }
    fn d_block_inout(&self, t: &T, b: InOut<'_, '_, Block<T>>) {
        t.decrypt_block_inout(b)
    }
}
impl<T: BlockSizeUser> DecDyn<T> for DecNo {
    fn d_blocks(&self, _: &T, _: &mut [Block<T>]) {
        unreachable!("decrypt on encrypt-only subject")
    }
    fn d_blocks_b2b(&self, _: &T, _: &[Block<T>], _: &mut [Block<T>]) -> bool {
        unreachable!()
    }
    fn d_blocks_inout(&self, _: &T, _: InOutBuf<'_, '_, Block<T>>) {
        unreachable!()
    }
    fn d_block(&self, _: &T, _: &mut Block<T>) {
        unreachable!()
    }
    fn d_block_b2b(&self, _: &T, _: &Block<T>, _: &mut Block<T>) {
        unreachable!()
    }
    fn d_block_inout(&self, _: &T, _: InOut<'_, '_, Block<T>>) {
        unreachable!()
    }
}

pub trait CloneDyn<T> {
    fn try_clone(&self, t: &T) -> Option<T>;
    fn clone_from(&self, _dst: &mut T, _src: &T) -> bool {
        false
    }
}
pub struct CloneYes;
pub struct CloneNo;
impl<T: Clone> CloneDyn<T> for CloneYes {
    fn try_clone(&self, t: &T) -> Option<T> {
        Some(t.clone())
    }
    fn clone_from(&self, dst: &mut T, src: &T) -> bool {
        dst.clone_from(src);
        true
    }
}
impl<T> CloneDyn<T> for CloneNo {
    fn try_clone(&self, _: &T) -> Option<T> {
        None
    }
}

pub trait DbgDyn<T> {
    fn dbg(&self, t: &T) -> Option<String>;
}
pub struct DbgYes;
pub struct DbgNo;
impl<T: Debug> DbgDyn<T> for DbgYes {
    fn dbg(&self, t: &T) -> Option<String> {
        // every Debug rendering a caller can ask for: plain, pretty (what `dbg!` uses), hex, width/precision flags;
        // the plain form comes first (its leading identifier is checked against the type name)
        Some(format!("{:?}\u{1}{:#?}\u{1}{:x?}\u{1}{:#X?}\u{1}{:>40.3?}", t, t, t, t, t))
    }
}
impl<T> DbgDyn<T> for DbgNo {
    fn dbg(&self, _: &T) -> Option<String> {
        None
    }
}

/// Conversions out of an encrypt-only type (AES, Kuznyechik).
pub struct ConvFns<T> {
    pub full_ref: fn(&T) -> Box<dyn Inst>,
    pub dec_ref: fn(&T) -> Box<dyn Inst>,
    pub full_val: fn(T) -> Box<dyn Inst>,
    pub dec_val: fn(T) -> Box<dyn Inst>,
}

/// A live instance together with its capability vtables.
pub struct Wrap<T: BlockSizeUser + 'static> {
    pub t: T,
    pub e: &'static (dyn EncDyn<T> + Send + Sync),
    pub d: &'static (dyn DecDyn<T> + Send + Sync),
    pub c: &'static (dyn CloneDyn<T> + Send + Sync),
    pub g: &'static (dyn DbgDyn<T> + Send + Sync),
    pub v: Option<&'static ConvFns<T>>,
}

impl<T: BlockSizeUser + Send + Sync + 'static> Inst for Wrap<T> {
    fn as_any(&self) -> &dyn std::any::Any {
        self
    }
    fn clone_from_inst(&mut self, other: &dyn Inst) -> bool {
        match other.as_any().downcast_ref::<Wrap<T>>() {
            Some(o) => self.c.clone_from(&mut self.t, &o.t),
            None => false,
        }
    }
    fn convert_ref(&self, target: Target) -> Option<Box<dyn Inst>> {
        let v = self.v?;
        Some(match target {
            Target::Full => (v.full_ref)(&self.t),
            Target::Dec => (v.dec_ref)(&self.t),
        })
    }
    fn convert_val(self: Box<Self>, target: Target) -> Result<Box<dyn Inst>, Box<dyn Inst>> {
        match self.v {
            None => Err(self),
            Some(v) => {
                let w = *self;
                Ok(match target {
                    Target::Full => (v.full_val)(w.t),
                    Target::Dec => (v.dec_val)(w.t),
                })
            }
        }
    }
    fn blocks(&self, dir: Dir, data: &mut [u8]) {
        let bs = T::BlockSize::USIZE;
        assert!(data.len() % bs == 0);
        let n = data.len() / bs;
        let b = unsafe { blocks_mut::<T>(data.as_mut_ptr(), n) };
        match dir {
            Dir::Enc => self.e.e_blocks(&self.t, b),
            Dir::Dec => self.d.d_blocks(&self.t, b),
        }
    }
    fn block(&self, dir: Dir, data: &mut [u8]) {
        assert!(data.len() == T::BlockSize::USIZE);
        let b = unsafe { &mut blocks_mut::<T>(data.as_mut_ptr(), 1)[0] };
        match dir {
            Dir::Enc => self.e.e_block(&self.t, b),
            Dir::Dec => self.d.d_block(&self.t, b),
        }
    }
    unsafe fn call(&self, dir: Dir, shape: Shape, inp: *const u8, out: *mut u8, n: usize) -> bool {
        unsafe {
            let t = &self.t;
            match (dir, shape) {
                (Dir::Enc, Shape::Blocks) => self.e.e_blocks(t, blocks_mut::<T>(out, n)),
                (Dir::Dec, Shape::Blocks) => self.d.d_blocks(t, blocks_mut::<T>(out, n)),
                (Dir::Enc, Shape::BlocksB2b) => {
                    return self.e.e_blocks_b2b(t, blocks_ref::<T>(inp, n), blocks_mut::<T>(out, n));
                }
                (Dir::Dec, Shape::BlocksB2b) => {
                    return self.d.d_blocks_b2b(t, blocks_ref::<T>(inp, n), blocks_mut::<T>(out, n));
                }
                (Dir::Enc, Shape::BlocksInoutSep) => {
                    let b = InOutBuf::new(blocks_ref::<T>(inp, n), blocks_mut::<T>(out, n)).unwrap();
                    self.e.e_blocks_inout(t, b)
                }
                (Dir::Dec, Shape::BlocksInoutSep) => {
                    let b = InOutBuf::new(blocks_ref::<T>(inp, n), blocks_mut::<T>(out, n)).unwrap();
                    self.d.d_blocks_inout(t, b)
                }
                (Dir::Enc, Shape::BlocksInoutSame) => self.e.e_blocks_inout(t, blocks_mut::<T>(out, n).into()),
                (Dir::Dec, Shape::BlocksInoutSame) => self.d.d_blocks_inout(t, blocks_mut::<T>(out, n).into()),
                (_, Shape::Block) => {
                    for b in blocks_mut::<T>(out, n) {
                        match dir {
                            Dir::Enc => self.e.e_block(t, b),
                            Dir::Dec => self.d.d_block(t, b),
                        }
                    }
                }
                (_, Shape::BlockB2b) => {
                    for (i, o) in blocks_ref::<T>(inp, n).iter().zip(blocks_mut::<T>(out, n)) {
                        match dir {
                            Dir::Enc => self.e.e_block_b2b(t, i, o),
                            Dir::Dec => self.d.d_block_b2b(t, i, o),
                        }
                    }
                }
                (_, Shape::BlockInoutSep) => {
                    for (i, o) in blocks_ref::<T>(inp, n).iter().zip(blocks_mut::<T>(out, n)) {
                        match dir {
                            Dir::Enc => self.e.e_block_inout(t, (i, o).into()),
                            Dir::Dec => self.d.d_block_inout(t, (i, o).into()),
                        }
                    }
                }
            }
            true
        }
    }
    unsafe fn b2b_len(&self, dir: Dir, inp: *const u8, n_in: usize, out: *mut u8, n_out: usize) -> bool {
        unsafe {
            match dir {
                Dir::Enc => self.e.e_blocks_b2b(&self.t, blocks_ref::<T>(inp, n_in), blocks_mut::<T>(out, n_out)),
                Dir::Dec => self.d.d_blocks_b2b(&self.t, blocks_ref::<T>(inp, n_in), blocks_mut::<T>(out, n_out)),
            }
        }
    }
    fn try_clone(&self) -> Option<Box<dyn Inst>> {
        self.c.try_clone(&self.t).map(|t| Box::new(Wrap { t, e: self.e, d: self.d, c: self.c, g: self.g, v: self.v }) as Box<dyn Inst>)
    }
    fn debug(&self) -> Option<String> {
        self.g.dbg(&self.t)
    }
}

pub struct AlgName<T>(PhantomData<T>);
impl<T: AlgorithmName> std::fmt::Display for AlgName<T> {
    fn fmt(&self, f: &mut std::fmt::Formatter<'_>) -> std::fmt::Result {
        T::write_alg_name(f)
    }
}
pub fn alg_name_of<T: AlgorithmName>() -> String {
    format!("{}", AlgName::<T>(PhantomData))
}

pub fn key_of<T: KeySizeUser>(key: &[u8]) -> Key<T> {
    assert_eq!(key.len(), T::KeySize::USIZE, "key_of: wrong fixed key length");
    Key::<T>::try_from(key).unwrap()
}

#[inline(never)]
pub fn scrub_stack() {
    let mut a = [0x5Au8; 16384];
    std::hint::black_box(&mut a);
}

/// Snapshot the storage bytes of a value built by `make` inside canary-filled storage,
/// drop it in place, snapshot again.
pub fn zprobe_with<T>(canary: u8, make: impl FnOnce() -> T) -> ZProbe {
    let n = std::mem::size_of::<T>();
    let mut slot = MaybeUninit::<T>::uninit();
    let p = slot.as_mut_ptr() as *mut u8;
    unsafe {
        for i in 0..n {
            p.add(i).write_volatile(canary);
        }
        scrub_stack();
        slot.as_mut_ptr().write(make());
        let before: Vec<u8> = (0..n).map(|i| p.add(i).read_volatile()).collect();
        core::ptr::drop_in_place(slot.as_mut_ptr());
        let after: Vec<u8> = (0..n).map(|i| p.add(i).read_volatile()).collect();
        ZProbe { before, after }
    }
}

/// Static description of one subject.
pub struct Meta {
    pub name: &'static str,
    pub krate: &'static str,
    pub lens: fn() -> Vec<usize>,
    pub names: &'static [&'static str],
}

pub struct Gen<T: BlockSizeUser + 'static> {
    pub meta: Meta,
    pub e: &'static (dyn EncDyn<T> + Send + Sync),
    pub d: &'static (dyn DecDyn<T> + Send + Sync),
    pub c: &'static (dyn CloneDyn<T> + Send + Sync),
    pub g: &'static (dyn DbgDyn<T> + Send + Sync),
    pub caps: Caps,
    /// conversions out of this (encrypt-only) type
    pub v: Option<&'static ConvFns<T>>,
    pub name_override: Option<String>,
    /// (sibling name, by-value constructor, by-ref constructor) for From<Enc> conversions
    pub conv: Option<(&'static str, fn(&[u8]) -> T, fn(&[u8]) -> T)>,
}

impl<T> Gen<T>
where
    T: KeyInit + BlockSizeUser + AlgorithmName + Send + Sync + 'static,
{
    fn wrap(&self, t: T) -> Box<dyn Inst> {
        Box::new(Wrap { t, e: self.e, d: self.d, c: self.c, g: self.g, v: self.v })
    }
    /// Build a value through a construction route (None: route not available for this subject / key).
    pub fn build_route(&self, key: &[u8], route: Route) -> Option<T> {
        let c = self.c;
        match route {
            Route::New => {
                if key.len() != T::KeySize::USIZE {
                    return None;
                }
                Some(T::new(&key_of::<T>(key)))
            }
            Route::FromSlice => T::new_from_slice(key).ok(),
            Route::Clone => {
                let orig = T::new_from_slice(key).ok()?;
                c.try_clone(&orig)
            }
            Route::CloneOfClone => {
                let orig = T::new_from_slice(key).ok()?;
                let c1 = c.try_clone(&orig)?;
                c.try_clone(&c1)
            }
            Route::CloneDropOrig => {
                let orig = T::new_from_slice(key).ok()?;
                let cl = c.try_clone(&orig)?;
                drop(orig);
                Some(cl)
            }
            Route::FromEncVal => {
                let (_, by_val, _) = self.conv?;
                if key.len() != T::KeySize::USIZE {
                    return None;
                }
                Some(by_val(key))
            }
            Route::FromEncRef => {
                let (_, _, by_ref) = self.conv?;
                if key.len() != T::KeySize::USIZE {
                    return None;
                }
                Some(by_ref(key))
            }
            Route::CloneOfConverted => {
                let (_, _, by_ref) = self.conv?;
                if key.len() != T::KeySize::USIZE {
                    return None;
                }
                let conv = by_ref(key);
                c.try_clone(&conv)
            }
        }
    }
}

impl<T> Subject for Gen<T>
where
    T: KeyInit + BlockSizeUser + AlgorithmName + Send + Sync + 'static,
{
    fn name(&self) -> String {
        self.name_override.clone().unwrap_or_else(|| self.meta.name.to_string())
    }
    fn krate(&self) -> &'static str {
        self.meta.krate
    }
    fn bs(&self) -> usize {
        T::BlockSize::USIZE
    }
    fn key_size(&self) -> usize {
        T::KeySize::USIZE
    }
    fn key_lens(&self) -> Vec<usize> {
        (self.meta.lens)()
    }
    fn caps(&self) -> Caps {
        self.caps
    }
    fn from_slice(&self, key: &[u8]) -> Result<Box<dyn Inst>, ()> {
        T::new_from_slice(key).map(|t| self.wrap(t)).map_err(|_| ())
    }
    fn new_fixed(&self, key: &[u8]) -> Box<dyn Inst> {
        self.wrap(T::new(&key_of::<T>(key)))
    }
    fn weak(&self, key: &[u8]) -> bool {
        T::weak_key_test(&key_of::<T>(key)).is_err()
    }
    fn new_checked(&self, key: &[u8]) -> Result<Box<dyn Inst>, ()> {
        T::new_checked(&key_of::<T>(key)).map(|t| self.wrap(t)).map_err(|_| ())
    }
    fn alg_name(&self) -> String {
        alg_name_of::<T>()
    }
    fn type_names(&self) -> Vec<String> {
        self.meta.names.iter().map(|s| s.to_string()).collect()
    }
    fn size_of(&self) -> usize {
        std::mem::size_of::<T>()
    }
    fn zprobe(&self, key: &[u8], route: Route, canary: u8) -> Option<ZProbe> {
        // availability check first (so that `make` below cannot fail)
        drop(self.build_route(key, route)?);
        Some(zprobe_with(canary, || self.build_route(key, route).unwrap()))
    }
    fn live_byte(&self, key: &[u8], route: Route, off: usize) -> Option<bool> {
        let t = self.build_route(key, route)?;
        let mut w = Wrap { t, e: self.e, d: self.d, c: self.c, g: self.g, v: self.v };
        if off >= std::mem::size_of::<T>() {
            return Some(false);
        }
        let caps = self.caps;
        let observe = |w: &Wrap<T>| -> Vec<u8> {
            let bs = T::BlockSize::USIZE;
            let data: Vec<u8> = (0..64).flat_map(|j| crate::alphabet::dense(bs, 61, j as u64)).collect();
            let mut out = Vec::new();
            if caps.enc {
                let mut d = data.clone();
                w.blocks(Dir::Enc, &mut d);
                out.extend(d);
            }
            if caps.dec {
                let mut d = data.clone();
                w.blocks(Dir::Dec, &mut d);
                out.extend(d);
            }
            if let Some(t) = w.debug() {
                out.extend(t.into_bytes());
            }
            out
        };
        let before = observe(&w);
        let p = (&mut w.t as *mut T as *mut u8).wrapping_add(off);
        unsafe { p.write_volatile(p.read_volatile() ^ 1) };
        let after = std::panic::catch_unwind(std::panic::AssertUnwindSafe(|| observe(&w)));
        unsafe { p.write_volatile(p.read_volatile() ^ 1) };
        Some(match after {
            Ok(a) => a != before,
            Err(_) => true,
        })
    }
    fn enc_sibling(&self) -> Option<&'static str> {
        self.conv.map(|c| c.0)
    }
    fn from_enc(&self, key: &[u8], by_ref: bool) -> Option<Box<dyn Inst>> {
        let (_, by_val, by_r) = self.conv?;
        Some(self.wrap(if by_ref { by_r(key) } else { by_val(key) }))
    }
}

/// Subject names are `Base` or `Base@variant` (shadow builds of non-native code).
pub fn base_name(name: &str) -> &str {
    name.split('@').next().unwrap()
}
pub fn variant_of(name: &str) -> &str {
    name.split_once('@').map(|x| x.1).unwrap_or("")
}
/// `Aes128@armv8` + "Enc" -> `Aes128Enc@armv8`
pub fn with_suffix(name: &str, suffix: &str) -> String {
    match name.split_once('@') {
        Some((b, v)) => format!("{b}{suffix}@{v}"),
        None => format!("{name}{suffix}"),
    }
}

pub const CAPS_FULL: Caps = Caps { enc: true, dec: true, clone: true };

