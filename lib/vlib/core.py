"""Build / run / evidence plumbing shared by all checks."""
import json, os, re, subprocess, sys, time, shutil, fcntl, concurrent.futures

VERIF = os.path.dirname(os.path.dirname(os.path.dirname(os.path.abspath(__file__))))
HARNESS = os.path.join(VERIF, "harness")
TARGET = os.path.join(VERIF, "target")
EVID = os.path.join(VERIF, "evidence")
REPLAYS = os.path.join(VERIF, "replays")


class MachineryError(Exception):
    pass


def die(msg):
    raise MachineryError(msg)


def seed():
    try:
        return int(os.environ.get("VERIF_SEED", "0"))
    except ValueError:
        return 0


# ---------------------------------------------------------------------------------------------
# configurations (DESIGN §2.2)

CFGS = {
    # name: (rustflags cfgs, detection override)
    "N0": ([], None),
    "N0d": ([], "off"),  # same binary as N0
    "N1": (["aes_force_soft", 'kuznyechik_backend="soft"', "serpent_no_unroll"], None),
    "N2": (["aes_force_soft", "aes_compact", 'kuznyechik_backend="compact_soft"'], None),
    "N3": (["aes_compact"], "off"),
    "N4": (["aes_compact"], None),  # compact flag with AES-NI present: flag must be inert
}
BUILD_OF = {"N0d": "N0"}  # configurations that reuse another configuration's binary


class Cfg:
    """A concrete build+run configuration: native cfg set x profile x feature set x lite."""

    def __init__(self, name, profile="vdev", feat=True, lite=False):
        self.name, self.profile, self.feat, self.lite = name, profile, feat, lite

    @property
    def feat_tag(self):
        # True: all of zeroize, hazmat, bcrypt; False: none; "fz": zeroize only; "fhb": hazmat + bcrypt only
        return {True: "feat", False: "nofeat"}.get(self.feat, self.feat)

    @property
    def label(self):
        return f"{self.name}-{self.profile}-{self.feat_tag}" + ("-lite" if self.lite else "")

    @property
    def build_key(self):
        b = BUILD_OF.get(self.name, self.name)
        return f"{b}-{self.feat_tag}" + ("-lite" if self.lite else "")

    @property
    def target_dir(self):
        return os.path.join(TARGET, self.build_key)

    @property
    def binary(self):
        return os.path.join(self.target_dir, "release" if self.profile == "vrel" else "debug", "vh")

    def rustflags(self):
        b = BUILD_OF.get(self.name, self.name)
        return " ".join(f"--cfg {c}" if '"' not in c else f"--cfg {c}" for c in CFGS[b][0])

    def env(self):
        e = dict(os.environ)
        e["CARGO_NET_OFFLINE"] = "true"
        e["CARGO_TARGET_DIR"] = self.target_dir
        e["RUSTFLAGS"] = self.rustflags()
        e.pop("CARGO_ENCODED_RUSTFLAGS", None)
        det = CFGS[self.name][1]
        if det:
            e["VERIF_DETECT"] = det
        else:
            e.pop("VERIF_DETECT", None)
        return e

    def cargo_args(self):
        a = ["cargo", "build", "--offline", "-q", "-p", "vh", "--bin", "vh"]
        if self.profile == "vrel":
            a.append("--release")
        feats = []
        if self.lite:
            a.append("--no-default-features")
            feats.append("lite")
        if self.feat is True:
            feats.append("allfeat")
        elif self.feat == "fz":
            feats.append("fz")
        elif self.feat == "fhb":
            feats += ["fh", "fb"]
        if feats:
            a += ["--features", ",".join(feats)]
        return a


def ensure_seam():
    ensure_shadows()
    r = subprocess.run([sys.executable, os.path.join(HARNESS, "seam", "gen_seam.py")], capture_output=True, text=True)
    if r.returncode != 0:
        die("seam generation failed:\n" + r.stdout + r.stderr)


def ensure_shadows():
    """Regenerate the shadow crates (ARMv8 AES, fixslice32, NEON Kuznyechik) from /repo's current working tree."""
    r = subprocess.run([sys.executable, os.path.join(HARNESS, "seam", "gen_shadows.py")], capture_output=True, text=True)
    if r.returncode != 0:
        die("shadow generation failed:\n" + r.stdout + r.stderr)


class BuildFailure(Exception):
    def __init__(self, cfg, log, in_repo):
        self.cfg, self.log, self.in_repo = cfg, log, in_repo


def build(cfg):
    """Build the explorer for cfg from /repo's current working tree. Returns the binary path."""
    os.makedirs(cfg.target_dir, exist_ok=True)
    lock = open(os.path.join(cfg.target_dir, ".verif-build-lock"), "w")
    fcntl.flock(lock, fcntl.LOCK_EX)
    try:
        r = subprocess.run(cfg.cargo_args(), cwd=HARNESS, env=cfg.env(), capture_output=True, text=True)
    finally:
        fcntl.flock(lock, fcntl.LOCK_UN)
    if r.returncode != 0:
        log = r.stderr
        # where are the compiler errors located?
        locs = re.findall(r"^\s*-->\s*(\S+?):\d+:\d+", log, re.M)
        err_blocks = re.split(r"\n(?=error)", log)
        err_locs = []
        for b in err_blocks:
            if b.startswith("error"):
                m = re.search(r"-->\s*(\S+?):\d+:\d+", b)
                if m:
                    err_locs.append(m.group(1))
        in_repo = bool(err_locs) and all(p.startswith("/repo/") for p in err_locs)
        raise BuildFailure(cfg, log, in_repo)
    if not os.path.exists(cfg.binary):
        die(f"build of {cfg.label} produced no binary")
    return cfg.binary


def build_all(cfgs):
    """Build distinct (build_key, profile) pairs, a few at a time."""
    seen, todo = set(), []
    for c in cfgs:
        k = (c.build_key, c.profile)
        if k not in seen:
            seen.add(k)
            todo.append(c)
    failures = []
    with concurrent.futures.ThreadPoolExecutor(max_workers=4) as ex:
        futs = {ex.submit(build, c): c for c in todo}
        for f in concurrent.futures.as_completed(futs):
            try:
                f.result()
            except BuildFailure as b:
                failures.append(b)
    return failures


def run_xplore(cfg, prop, tier, extra=None, timeout=None):
    """Run one (property, configuration) in its own subprocess; returns (result json | None, crash text | None)."""
    os.makedirs(os.path.join(TARGET, "out"), exist_ok=True)
    out = os.path.join(TARGET, "out", f"{prop}-{cfg.label}-{tier}-{os.getpid()}.json")
    if os.path.exists(out):
        os.remove(out)
    cmd = [cfg.binary, "run", prop, "--tier", tier, "--config", cfg.label, "--out", out] + (extra or [])
    t0 = time.time()
    try:
        r = subprocess.run(cmd, env=cfg.env(), capture_output=True, text=True, timeout=timeout)
    except subprocess.TimeoutExpired:
        die(f"{prop} in {cfg.label} exceeded its wall-clock cap of {timeout}s (engine cap, not a verdict)")
    if r.returncode != 0 or not os.path.exists(out):
        if r.returncode == 2:
            die(f"xplore {prop} {cfg.label}: {r.stderr[-2000:]}")
        if r.returncode in (-9, 137):
            # SIGKILL is never raised by the code under test: the explorer was killed from outside (memory limit)
            die(f"xplore {prop} {cfg.label} was killed (SIGKILL: out of memory / external kill) - engine failure, not a verdict")
        return None, f"exit status {r.returncode}\n{r.stderr[-4000:]}"
    res = json.load(open(out))
    os.remove(out)
    res["wall_s"] = time.time() - t0
    return res, None


# ---------------------------------------------------------------------------------------------
# known findings

def load_known():
    p = os.path.join(VERIF, "known_findings.json")
    if not os.path.exists(p):
        return []
    return json.load(open(p)).get("findings", [])


def match_known(v, known):
    for k in known:
        if k["property"] != v["property"]:
            continue
        if "subject_regex" in k and not re.search(k["subject_regex"], v.get("subject", "")):
            continue
        if "what" in k and k["what"] != v.get("what"):
            continue
        ok = True
        for field, rx in k.get("case_regex", {}).items():
            val = v.get("case", {}).get(field)
            if val is None or not re.search(rx, str(val)):
                ok = False
        if ok:
            return k
    return None


# ---------------------------------------------------------------------------------------------
# evidence

def write_evidence(pid, tier, level, coverage, assumptions, wall, violations):
    os.makedirs(EVID, exist_ok=True)
    ev = {
        "property_id": pid,
        "tier": tier,
        "seed": seed(),
        "level": level,
        "coverage": coverage,
        "assumptions": assumptions,
        "wall_s": round(wall, 3),
        "violations": violations,
    }
    tmp = os.path.join(EVID, f".{pid}.json.tmp")
    json.dump(ev, open(tmp, "w"), indent=1)
    os.replace(tmp, os.path.join(EVID, f"{pid}.json"))


def write_replay(pid, n, payload):
    os.makedirs(REPLAYS, exist_ok=True)
    p = os.path.join(REPLAYS, f"{pid}-{n:03d}.json")
    json.dump(payload, open(p, "w"), indent=1)
    return p
