"""Per-property configuration tables and the generic run loop."""
import json, os, sys, time
from .core import *  # noqa: F401,F403
from . import core

SENS = "aes,kuznyechik,serpent"  # crates whose code depends on the build configuration


def std_cfgs(tier, full_profiles=("vdev",), sens_only=False):
    """(Cfg, extra xplore args) list.  `full` builds carry every subject; others only the
    configuration-sensitive crates (aes, kuznyechik, serpent)."""
    out = []
    if tier == "quick":
        if not sens_only:
            out.append((Cfg("N0", "vdev", True), []))
        else:
            out.append((Cfg("N0", "vdev", True), ["--crates", SENS]))
        out.append((Cfg("N0d", "vdev", True), ["--crates", "aes"]))
        out.append((Cfg("N1", "vrel", False, lite=True), []))
        out.append((Cfg("N2", "vdev", True, lite=True), []))
    else:
        for prof, feat in (("vdev", True), ("vrel", False)):
            out.append((Cfg("N0", prof, feat), ["--crates", SENS] if sens_only else []))
            out.append((Cfg("N0d", prof, feat), ["--crates", "aes"]))
        for n in ("N1", "N2", "N3", "N4"):
            for prof, feat in (("vdev", True), ("vrel", False)):
                extra = ["--crates", "aes"] if n in ("N3", "N4") else []
                out.append((Cfg(n, prof, feat, lite=True), extra))
    return out


def only_n0(tier):
    if tier == "quick":
        return [(Cfg("N0", "vdev", True), [])]
    return [(Cfg("N0", "vdev", True), []), (Cfg("N0", "vrel", False), [])]


TABLE = {
    "C01": dict(
        level="exploration",
        cfgs=std_cfgs,
        rule=("cases = every (cipher type, construction pairing, accepted key length, key, block) of the star alphabets "
              "(DESIGN §2.3) in every configuration, plus Threefish (key, tweak, block) triples through byte and u64 entry "
              "points, BelT wide-block (length, data, key) triples and full block-domain sweeps of RC5-8 (and RC5-16 / "
              "Speck32 in the thorough tier); each case checks D(E(b))==b and E(D(b))==b. Enumerators deduplicate, so "
              "cases are distinct by construction; a case is non-trivial when E(b) != b (the permutation moved the block)."),
        assumptions=["data values outside the declared alphabets are not covered",
                     "ARMv8/NEON code runs over a software model of the intrinsics (shadow crates), not on hardware"],
    ),
}


def run_property(pid, tier):
    t0 = time.time()
    spec = TABLE[pid]
    core.ensure_seam()
    cfgs = spec["cfgs"](tier)
    failures = core.build_all([c for c, _ in cfgs])
    violations = []   # dicts with at least property, subject, what, case, expected, observed, note, config
    for f in failures:
        if f.in_repo and spec.get("build_failure_is_verdict"):
            violations.append(dict(property=pid, subject="build", what="build-failure", config=f.cfg.label,
                                   case={"kind": "build", "config": f.cfg.label, "rustflags": f.cfg.rustflags()},
                                   expected="documented configuration builds", observed=f.log[-3000:], note="native configuration fails to compile inside /repo"))
        else:
            core.die(f"build of {f.cfg.label} failed:\n{f.log[-6000:]}")
    failed_builds = {f.cfg.build_key for f in failures}
    results = []
    for cfg, extra in cfgs:
        if cfg.build_key in failed_builds:
            continue
        res, crash = core.run_xplore(cfg, pid, tier, extra, timeout=spec.get("timeout", 3 * 3600))
        if crash is not None:
            # the explorer itself died (abort / signal): attribute it to the configuration
            violations.append(dict(property=pid, subject="process", what="crash", config=cfg.label,
                                   case={"kind": "crash", "config": cfg.label, "args": extra}, expected="explorer completes",
                                   observed=crash, note="explorer subprocess crashed (abort/signal inside the code under test)"))
            continue
        for v in res["violations"]:
            v["config"] = cfg.label
            violations.append(v)
        results.append((cfg, res))
    post = spec.get("post")
    if post:
        violations += post(pid, tier, cfgs, results)

    known = core.load_known()
    fresh, known_hits = [], {}
    for v in violations:
        k = core.match_known(v, known)
        if k is not None:
            known_hits.setdefault(k["id"], (k, 0))
            known_hits[k["id"]] = (k, known_hits[k["id"]][1] + 1)
        else:
            fresh.append(v)
    for kid, (k, n) in sorted(known_hits.items()):
        print(f"KNOWN-FINDING: property={pid} {k['text']} [{n} matching case(s) this run]")
    # one replay per (subject, what, config) class, at most 10
    seen, n = set(), 0
    for v in fresh:
        cls = (v.get("subject"), v.get("what"), v.get("config"))
        if cls in seen or n >= 10:
            continue
        seen.add(cls)
        path = core.write_replay(pid, n, v)
        n += 1
        print(f"VIOLATION property={pid} replay={path}")
        print(f"  config={v.get('config')} subject={v.get('subject')} what={v.get('what')} expected={str(v.get('expected'))[:200]} observed={str(v.get('observed'))[:300]}")

    # evidence
    ev = sum(r["evaluations"] for _, r in results)
    calls = sum(r["calls"] for _, r in results)
    dn = sum(r["distinct_nontrivial"] for _, r in results)
    refc = sum(r.get("ref_compared", 0) for _, r in results)
    samples = []
    for cfg, r in results:
        for s in r["samples"][:3]:
            s = dict(s)
            s["config"] = cfg.label
            samples.append(s)
    counters = {}
    for cfg, r in results:
        for k, v in r.get("counters", {}).items():
            counters[k] = counters.get(k, 0) + v
    cov = dict(
        evaluations=ev,
        distinct_nontrivial=dn,
        rule=spec["rule"],
        samples=samples[:12],
        exhaustive=True,
        configurations=[dict(config=c.label, rustflags=c.rustflags(), detection=core.CFGS[c.name][1] or "real", evaluations=r["evaluations"],
                             api_calls=r["calls"], distinct_nontrivial=r["distinct_nontrivial"], skipped_subjects=r.get("skipped", 0), wall_s=round(r["wall_s"], 2))
                        for c, r in results],
        api_calls=calls,
        counters=counters,
        bound=spec.get("bound", {}).get(tier, "declared alphabets of DESIGN §2.3 for this tier, enumerated completely"),
        known_findings_matched=sorted(known_hits.keys()),
    )
    if spec["level"] == "model_checking":
        cov.update(states=ev, transitions=calls, traces_validated_against_impl=refc)
    extra_cov = spec.get("coverage_extra")
    if extra_cov:
        cov.update(extra_cov(results))
    notes = []
    for _, r in results:
        for nn in r.get("notes", []):
            if nn not in notes:
                notes.append(nn)
    cov["notes"] = notes[:40]
    core.write_evidence(pid, tier, spec["level"], cov, spec["assumptions"], time.time() - t0, len(fresh))
    if fresh:
        return 1
    print(f"OK property={pid} tier={tier} evaluations={ev} api_calls={calls} distinct_nontrivial={dn} configurations={len(results)} wall={time.time()-t0:.1f}s")
    return 0


def setup():
    core.ensure_seam()
    cfgs = []
    for pid, spec in TABLE.items():
        cfgs += [c for c, _ in spec["cfgs"]("quick")]
    fails = core.build_all(cfgs)
    for f in fails:
        print(f"setup: build of {f.cfg.label} failed (will be reported by the checks):\n{f.log[-2000:]}", file=sys.stderr)
    print("setup: ok")
    return 0


def replay(path):
    v = json.load(open(path))
    label = v.get("config", "N0-vdev-feat")
    parts = label.split("-")
    cfg = Cfg(parts[0], parts[1], parts[2] == "feat", lite=(len(parts) > 3 and parts[3] == "lite"))
    core.ensure_seam()
    try:
        core.build(cfg)
    except core.BuildFailure as b:
        print(b.log[-3000:])
        return 1 if v.get("what") == "build-failure" else 2
    import subprocess
    r = subprocess.run([cfg.binary, "replay", path], env=cfg.env())
    return r.returncode
