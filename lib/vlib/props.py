"""Per-property configuration tables and the generic run loop."""
import json, os, sys, time
from .core import *  # noqa: F401,F403
from . import core

SENS = "aes,kuznyechik,serpent"  # crates whose code depends on the build configuration


def Q(name, prof, feat, lite=False, crates=None):
    return (Cfg(name, prof, feat, lite=lite), (["--crates", crates] if crates else []))


def std_cfgs(tier, n0_crates=None, sens="aes,kuznyechik,serpent", aes_only_d=True, feat_only=False):
    """(Cfg, extra xplore args) list.  The N0 build carries every subject; the other native configurations are
    `lite` builds with only the configuration-sensitive crates (aes, kuznyechik, serpent)."""
    out = []
    if tier == "quick":
        out.append(Q("N0", "vdev", True, crates=n0_crates))
        if "aes" in sens:
            out.append(Q("N0d", "vdev", True, crates="aes"))
        out.append(Q("N1", "vdev", True, lite=True, crates=sens))
        out.append(Q("N2", "vdev" if feat_only else "vrel", feat_only, lite=True, crates=sens))
    else:
        for prof, feat in (("vdev", True), ("vrel", False)):
            if feat_only and not feat:
                prof, feat = "vrel", True
            out.append(Q("N0", prof, feat, crates=n0_crates))
            if "aes" in sens:
                out.append(Q("N0d", prof, feat, crates="aes"))
            for n in ("N1", "N2"):
                out.append(Q(n, prof, feat, lite=True, crates=sens))
            if "aes" in sens:
                for n in ("N3", "N4"):
                    out.append(Q(n, prof, feat, lite=True, crates="aes"))
    return out


def only_n0(tier):
    if tier == "quick":
        return [Q("N0", "vdev", True)]
    return [Q("N0", "vdev", True), Q("N0", "vrel", False)]


def cfgs_c03(tier):
    """Every native configuration with features on and off; all compared pairwise through N0."""
    out = []
    sens = "aes,kuznyechik,serpent"
    names = ["N0", "N0d", "N1", "N2"] + (["N3", "N4"] if tier == "thorough" else [])
    for n in names:
        for prof, feat in ((("vdev", True), ("vrel", False)) if tier == "thorough" or n in ("N0",) else (("vdev", True),) if n != "N2" else (("vrel", False),)):
            out.append(Q(n, prof, feat, lite=(n not in ("N0", "N0d")), crates=(None if n == "N0" else "aes" if n in ("N0d", "N3", "N4") else sens)))
    if tier == "thorough":
        # single-feature builds: zeroize only; hazmat + bcrypt without zeroize
        out.append(Q("N0", "vdev", "fz"))
        out.append(Q("N0", "vdev", "fhb"))
    return out


def cfgs_c20(tier):
    """Profile pairs: every configuration in vdev and vrel with the same features."""
    out = []
    for n in ["N0", "N0d", "N1", "N2"] + (["N3", "N4"] if tier == "thorough" else []):
        for prof in ("vdev", "vrel"):
            lite = n not in ("N0", "N0d")
            out.append(Q(n, prof, True, lite=lite, crates=("aes" if n in ("N0d", "N3", "N4") else ("aes,kuznyechik,serpent" if lite else None))))
    return out


def _chunk_detail(cfg, name, tier):
    import subprocess
    r = subprocess.run([cfg.binary, "chunk", name, "--tier", tier], env=cfg.env(), capture_output=True, text=True)
    if r.returncode != 0:
        return None
    return json.loads(r.stdout)


def _variants(results):
    """Expand (cfg, result) into (cfg, variant, chunk map): the native code of the configuration ("") and the shadow
    builds linked into the same binary (armv8, fs32, neon)."""
    out = []
    for cfg, r in results:
        for var, m in sorted(r.get("extra", {}).get("chunks", {}).items()):
            out.append((cfg, var, m))
    return out


def _compare_maps(pid, tier, a, b, what):
    """a, b: (cfg, variant, chunk map). Returns violations for chunks whose hashes differ."""
    (ca, va, ma), (cb, vb, mb) = a, b
    la, lb = ca.label + ("@" + va if va else ""), cb.label + ("@" + vb if vb else "")
    common = sorted(set(ma) & set(mb))
    out = []
    for name in common:
        if ma[name] == mb[name]:
            continue
        if len(out) >= 6:
            break
        da, db = _chunk_detail(ca, va + "|" + name, tier), _chunk_detail(cb, vb + "|" + name, tier)
        first = None
        if da is not None and db is not None:
            for x, y in zip(da, db):
                if x["obs"] != y["obs"]:
                    first = (x, y)
                    break
        if first is None:
            case = {"kind": "cross", "chunk": name, "config_a": ca.label, "variant_a": va, "config_b": cb.label, "variant_b": vb}
            exp, obs = f"chunk hash {ma[name]} in {la}", f"chunk hash {mb[name]} in {lb} (detail runs agree: non-deterministic?)"
        else:
            x, y = first
            case = {"kind": "cross", "chunk": name, "config_a": ca.label, "variant_a": va, "config_b": cb.label, "variant_b": vb, "case": x["case"]}
            exp, obs = f"{la}: {x['obs']}", f"{lb}: {y['obs']}"
        subj = name.split("/")[0] if not name.startswith("special/") else name.split("/")[1]
        out.append(dict(property=pid, subject=subj, what=what, config=lb, case=case, expected=exp, observed=obs,
                        note="same key and data give different results in two builds"))
    return out, len(common)


def post_c03(pid, tier, cfgs, results):
    """Every configuration is compared with the first one (equality is transitive), chunk by chunk."""
    viol, compared = [], 0
    if tier == "thorough":
        viol += run_cross_targets(pid)
    ents = _variants(results)
    if not ents:
        return viol
    base = ents[0]
    for other in ents[1:]:
        v, n = _compare_maps(pid, tier, base, other, "config-dependent-output")
        viol += v
        compared += n
    POST_INFO["pairs_compared"] = len(ents) - 1
    POST_INFO["builds_compared"] = [c.label + ("@" + v if v else "") for c, v, _ in ents]
    POST_INFO["chunks_compared"] = compared
    return viol


def post_c20(pid, tier, cfgs, results):
    viol, compared, pairs = [], 0, 0
    by = {}
    for cfg, var, m in _variants(results):
        by.setdefault((cfg.name, cfg.feat, cfg.lite, var), {})[cfg.profile] = (cfg, var, m)
    for k, d in by.items():
        if "vdev" in d and "vrel" in d:
            v, n = _compare_maps(pid, tier, d["vdev"], d["vrel"], "profile-dependent-output")
            viol += v
            compared += n
            pairs += 1
    POST_INFO["pairs_compared"] = pairs
    POST_INFO["chunks_compared"] = compared
    return viol


POST_INFO = {}


def run_refcheck(quick=True):
    """E4: validate every reference model against OpenSSL / libgcrypt / nettle and the published vectors.
    A failure is a machinery error (the oracle may not judge), never a verdict."""
    import subprocess
    env = dict(os.environ)
    env.update(CARGO_NET_OFFLINE="true", CARGO_TARGET_DIR=os.path.join(core.TARGET, "refcheck"), RUSTFLAGS="")
    stamp = os.path.join(core.TARGET, "refcheck", ".ok-stamp")
    srcs = []
    for root, _, names in os.walk(os.path.join(core.HARNESS, "refmodels")):
        srcs += [os.path.join(root, n) for n in names]
    newest = max(os.path.getmtime(f) for f in srcs)
    if quick and os.path.exists(stamp) and os.path.getmtime(stamp) >= newest:
        return "cached"
    r = subprocess.run(["cargo", "test", "--offline", "--release", "-q", "-p", "refmodels", "--features", "ffi"], cwd=core.HARNESS, env=env, capture_output=True, text=True)
    if r.returncode != 0:
        core.die("refcheck failed: a reference model disagrees with its anchors (oracle may not judge):\n" + (r.stdout + r.stderr)[-5000:])
    open(stamp, "w").write("ok")
    n = sum(int(x) for x in __import__("re").findall(r"test result: ok\. (\d+) passed", r.stdout))
    return f"{n} validation tests passed"


def run_fs32_conformance():
    """Binds the `@fs32` shadow to the real thing: the unmodified /repo/aes crate is interpreted as a real 32-bit build
    (cargo +nightly miri run --target i686-unknown-linux-gnu, fixslice32 keys) on a fixed trace set and must give the
    same bytes as the shadow run natively.  A difference means the shadow misrepresents the code: machinery error."""
    import subprocess
    env = dict(os.environ)
    env.update(CARGO_NET_OFFLINE="true", RUSTFLAGS="", MIRIFLAGS="-Zmiri-disable-isolation")
    env["CARGO_TARGET_DIR"] = os.path.join(core.TARGET, "fs32trace")
    r1 = subprocess.run(["cargo", "run", "--offline", "-q", "-p", "fs32trace", "--features", "shadow"], cwd=core.HARNESS, env=env, capture_output=True, text=True)
    if r1.returncode != 0:
        core.die("fs32trace (shadow) failed:\n" + r1.stderr[-2000:])
    env["CARGO_TARGET_DIR"] = os.path.join(core.TARGET, "fs32trace-miri")
    try:
        r2 = subprocess.run(["cargo", "+nightly", "miri", "run", "--offline", "-q", "-p", "fs32trace", "--target", "i686-unknown-linux-gnu"], cwd=core.HARNESS, env=env, capture_output=True, text=True, timeout=1800)
    except Exception as e:  # noqa
        return dict(status="miri unavailable: " + str(e)[:200], traces=0)
    if r2.returncode != 0 or "size_of" not in r2.stdout:
        return dict(status="miri i686 interpretation unavailable on this image: " + r2.stderr[-300:], traces=0)
    a, b = r1.stdout.strip().splitlines(), r2.stdout.strip().splitlines()
    sa, sb = a[0].rsplit(" ", 1)[0], b[0].rsplit(" ", 1)[0]   # size_of lines without the pointer width
    if sa != sb or a[1:] != b[1:]:
        core.die("shadow conformance: the @fs32 shadow and the real 32-bit build (miri i686) disagree:\n" + sa + "\n" + sb + "\n" +
                 "\n".join(f"{x} | {y}" for x, y in zip(a[1:], b[1:]) if x != y)[:1500])
    return dict(status="identical", traces=len(a) - 1, sizes=sa)


XTARGETS = ["i686-unknown-linux-gnu", "s390x-unknown-linux-gnu"]


def run_cross_targets(pid):
    """The unmodified /repo crates interpreted for a 32-bit little-endian and a 64-bit big-endian target (miri) must print
    the same trace set as the native x86-64 build: the function a cipher computes may not depend on the target."""
    import subprocess
    env = dict(os.environ)
    env.update(CARGO_NET_OFFLINE="true", RUSTFLAGS="", MIRIFLAGS="-Zmiri-disable-isolation")
    env["CARGO_TARGET_DIR"] = os.path.join(core.TARGET, "xtrace")
    r = subprocess.run(["cargo", "run", "--offline", "-q", "-p", "xtrace"], cwd=core.HARNESS, env=env, capture_output=True, text=True)
    if r.returncode != 0:
        core.die("xtrace (native) failed:\n" + r.stderr[-2000:])
    native = r.stdout.strip().splitlines()
    info, viol = {"native_traces": len(native), "targets": {}}, []
    procs = {}
    for t in XTARGETS:
        e = dict(env)
        e["CARGO_TARGET_DIR"] = os.path.join(core.TARGET, "xtrace-miri-" + t.split("-")[0])
        procs[t] = subprocess.Popen(["cargo", "+nightly", "miri", "run", "--offline", "-q", "-p", "xtrace", "--target", t], cwd=core.HARNESS, env=e,
                                    stdout=subprocess.PIPE, stderr=subprocess.PIPE, text=True)
    for t, p in procs.items():
        try:
            out, err = p.communicate(timeout=3600)
        except Exception as ex:  # noqa
            p.kill()
            info["targets"][t] = "unavailable: " + str(ex)[:100]
            continue
        lines = out.strip().splitlines()
        if p.returncode != 0 and not lines:
            info["targets"][t] = "miri interpretation unavailable on this image: " + err[-200:]
            continue
        if p.returncode != 0:
            # the interpreted program itself failed (panic / UB detected by miri) after printing some traces
            viol.append(dict(property=pid, subject="all crates", what="target-dependent-behaviour", config="miri:" + t,
                             case={"kind": "xtrace", "target": t}, expected="the trace program completes as it does natively",
                             observed=(lines[-1] if lines else "") + " ... " + err[-800:], note="the same program fails when interpreted for another target"))
            continue
        bad = [(a, b) for a, b in zip(native, lines) if a != b]
        if len(lines) != len(native) or bad:
            a, b = bad[0] if bad else ("(missing)", "(missing)")
            viol.append(dict(property=pid, subject=a.split(" ")[0], what="target-dependent-output", config="miri:" + t,
                             case={"kind": "xtrace", "target": t, "trace": " ".join(a.split(" ")[:4])}, expected="x86_64: " + a[:300], observed=t + ": " + b[:300],
                             note="the same key and data give a different result on another target (pointer width / endianness)"))
        info["targets"][t] = f"{len(lines)} traces, {len(bad)} differ"
    POST_INFO["cross_target_traces"] = info
    return viol


def run_tfnc(pid, tier):
    """Threefish built without its `cipher` feature (own binary: cargo unifies features inside one build)."""
    import subprocess
    env = dict(os.environ)
    tdir = os.path.join(core.TARGET, "tfnc")
    env.update(CARGO_NET_OFFLINE="true", CARGO_TARGET_DIR=tdir, RUSTFLAGS="")
    r = subprocess.run(["cargo", "build", "--offline", "-q", "-p", "tfnc"], cwd=core.HARNESS, env=env, capture_output=True, text=True)
    if r.returncode != 0:
        errs = __import__("re").findall(r"-->\s*(\S+?):\d+", r.stderr)
        if errs and all(e.startswith("/repo/") for e in errs):
            return None, [dict(property=pid, subject="threefish (no cipher feature)", what="build-failure", config="T0", case={"kind": "build", "config": "threefish --no-default-features --features zeroize"},
                               expected="the documented feature combination builds", observed=r.stderr[-2000:], note="threefish without its default features fails to compile")]
        core.die("tfnc build failed:\n" + r.stderr[-3000:])
    out = os.path.join(core.TARGET, "out", f"tfnc-{pid}-{os.getpid()}.json")
    os.makedirs(os.path.dirname(out), exist_ok=True)
    r = subprocess.run([os.path.join(tdir, "debug", "tfnc"), pid, tier, "--out", out], env=env, capture_output=True, text=True)
    if r.returncode != 0 or not os.path.exists(out):
        return None, [dict(property=pid, subject="threefish (no cipher feature)", what="crash", config="T0", case={"kind": "crash"}, expected="completes", observed=r.stderr[-2000:], note="tfnc crashed")]
    res = json.load(open(out))
    os.remove(out)
    return res, []


def run_loom(pid, tier):
    """E3: build the loom harness (RUSTFLAGS --cfg loom, own target dir) from /repo's working tree and run it."""
    import subprocess
    env = dict(os.environ)
    env.update(CARGO_NET_OFFLINE="true", CARGO_TARGET_DIR=os.path.join(core.TARGET, "loom"), RUSTFLAGS="--cfg loom")
    env.pop("VERIF_DETECT", None)
    r = subprocess.run(["cargo", "build", "--offline", "-q", "--release", "-p", "loommc"], cwd=core.HARNESS, env=env, capture_output=True, text=True)
    if r.returncode != 0:
        core.die("loom harness build failed:\n" + r.stderr[-4000:])
    exe = os.path.join(core.TARGET, "loom", "release", "loommc")
    r = subprocess.run([exe] + (["thorough"] if tier == "thorough" else []), env=env, capture_output=True, text=True, timeout=3600)
    try:
        res = json.loads(r.stdout.strip().splitlines()[-1])
    except Exception:
        core.die("loom harness produced no result:\n" + r.stderr[-3000:])
    viol = []
    for h in res:
        if h.get("violation"):
            viol.append(dict(property=pid, subject="aes (threads)", what="schedule", config="loom",
                             case={"kind": "loom", "harness": h["harness"]}, expected="every thread's output equals FIPS-197 in every interleaving",
                             observed=h["violation"], note="loom found an interleaving of the detection cache under which a thread computes a wrong result"))
        elif h["harness"].startswith(("H1", "H2", "H4")) and len(h.get("detections_histogram", {})) < 2:
            core.die(f"loom vacuity guard: harness {h['harness']} produced a single detection outcome {h.get('detections_histogram')}: the threads never raced on the cache")
    POST_INFO["loom"] = res
    POST_INFO["loom_schedules"] = sum(h.get("executions", 0) for h in res)
    return viol


def post_c15(pid, tier, cfgs, results):
    return run_loom(pid, tier)

LEVEL_NOTE_DATA = "data values outside the declared alphabets (DESIGN §2.3) are not covered"
ASSUME_STD = [LEVEL_NOTE_DATA,
              "ARMv8/NEON back ends and fixslice32 are not reachable natively on this x86-64 host"]
RULE_STAR = ("cases are enumerated by the star alphabets of DESIGN §2.3 (zero/ones/walking bits/lane boundaries/byte sweeps/dense family) "
             "per (cipher type, accepted key length), deduplicated by the enumerator; ")

TABLE = {
    "C01": dict(
        level="exploration", cfgs=std_cfgs, tfnc=True,
        rule=RULE_STAR + "plus Threefish (key, tweak, block) triples through byte and u64 entry points, BelT wide-block (length, data, key) "
             "triples and full block-domain sweeps of RC5-8 (RC5-16 / Speck32 in the thorough tier); each case checks D(E(b))==b and "
             "E(D(b))==b, also across Enc-only/Dec-only/converted instance pairs; a case is non-trivial when E(b) != b.",
        assumptions=ASSUME_STD),
    "C02": dict(
        level="model_checking", cfgs=lambda t: std_cfgs(t, n0_crates="aes", sens="aes"), fs32_conformance=True,
        rule=RULE_STAR + "each case is the trace new_from_slice(key) -> encrypt_block/decrypt_block(block) (plus batches of 3 and 43 blocks per key) "
             "executed on the implementation and on the FIPS-197 reference model (validated against OpenSSL and libgcrypt); non-trivial when the model output differs from the input.",
        assumptions=ASSUME_STD + ["the FIPS-197 reference model (computed S-box, validated against OpenSSL/libgcrypt/FIPS vectors by refcheck)"]),
    "C03": dict(
        level="exploration", cfgs=cfgs_c03, post=post_c03, build_failure_is_verdict=True,
        rule="observation streams (E(b), D(b) for every star case, batches of 3/22/43 blocks per key, hazmat calls) of the aes, kuznyechik and serpent "
             "types are produced in every native configuration and feature set and compared chunk by chunk (64 keys per chunk) against the default "
             "configuration; every observation is a distinct (type, key, input) case; all are non-trivial (a permutation output).",
        assumptions=ASSUME_STD + ["hash comparison per chunk (64-bit) with full re-dump of differing chunks"]),
    "C04": dict(
        level="exploration", cfgs=std_cfgs,
        rule="cases = (cipher type, key, direction, call shape in 7 shapes, n blocks, input/output byte offsets, content class) executed inside "
             "canary-filled allocations; each checks out[i]==single(in[i]), input untouched, canaries intact, and b2b length mismatch is an error "
             "that writes nothing; non-trivial when n>0 and the output differs from the input.",
        bound={"quick": "n in 0..=48, 5 offset pairs, contents {distinct, equal, differ-in-byte-j}", "thorough": "n in 0..=130, all 256 offset pairs"},
        assumptions=ASSUME_STD),
    "C05": dict(
        level="model_checking", cfgs=only_n0,
        rule=RULE_STAR + "DES adds all keys/blocks of Hamming weight <=2 (<=3 thorough) and complements, all 256 parity patterns per key, complementation and "
             "EDE/EEE key relations; each trace is executed on the implementation and on the FIPS 46-3 table-driven model (validated against OpenSSL/libgcrypt).",
        assumptions=[LEVEL_NOTE_DATA, "FIPS 46-3 reference model validated by refcheck"]),
    "C06": dict(level="model_checking", cfgs=only_n0,
                rule=RULE_STAR + "each trace new_from_slice(key) -> encrypt/decrypt(block) is executed on the implementation and on the RFC 5794 / RFC 3713 / GB/T 32907 models (validated against OpenSSL/libgcrypt).",
                assumptions=[LEVEL_NOTE_DATA, "reference models validated by refcheck"]),
    "C07": dict(level="model_checking", cfgs=lambda t: std_cfgs(t, n0_crates="kuznyechik,magma,belt-block", sens="kuznyechik"),
                rule=RULE_STAR + "Kuznyechik (3 types, every native back end), Magma + 5 bundled + 8 harness-defined S-box sets, BeltBlock and belt_block_raw; every trace runs on the "
                     "implementation and on the GOST R 34.12-2015 / GOST 28147-89 / STB 34.101.31 models.",
                assumptions=[LEVEL_NOTE_DATA, "Kuznyechik and BelT models are anchored by the standards' vectors only; GOST 28147-89 model validated against libgcrypt for all bundled sets"]),
    "C08": dict(level="model_checking", cfgs=lambda t: std_cfgs(t, n0_crates="serpent,twofish,cast6", sens="serpent"),
                rule=RULE_STAR + "Serpent over all 17 key lengths (unrolled and looped builds), Twofish 3 sizes, CAST-256 5 sizes; every trace runs on the implementation and on the reference model.",
                assumptions=[LEVEL_NOTE_DATA, "Serpent/Twofish models validated against nettle+libgcrypt; CAST-256 anchored by RFC 2612 vectors, S-boxes shared with the OpenSSL-validated CAST-128 model"]),
    "C09": dict(level="model_checking", cfgs=only_n0,
                rule=RULE_STAR + "Blowfish over all 53 key lengths (BE and LE), CAST5 over all 12, IDEA, XTEA, RC2 from slice, plus the complete RC2 (key length 1..128) x (effective bits 1..1024) grid through "
                     "new_with_eff_key_len; every trace runs on the implementation and on the reference model.",
                assumptions=[LEVEL_NOTE_DATA, "models validated against OpenSSL (BF, CAST5, RC2 incl. effective bits) and libgcrypt (IDEA); XTEA anchored by published vectors"]),
    "C10": dict(level="model_checking", cfgs=only_n0, tfnc=True,
                rule=RULE_STAR + "229 RC5<W,R,B> instantiations (5 word sizes x 5 round counts x 9 key lengths incl. 0, plus the published triples), 10 Speck types, Threefish 3 sizes incl. (key, tweak, block) "
                     "triples through byte and u64 entry points, GIFT-128; every trace runs on the implementation and on the reference model.",
                assumptions=[LEVEL_NOTE_DATA, "RC5/Speck/Threefish/GIFT models are anchored by published vectors only (no third-party implementation on the image)",
                             "RC5 type-level space sampled by the stated 229-type grid"]),
    "C11": dict(level="exploration", cfgs=std_cfgs,
                rule="cases = (cipher type, slice length in 0..=300,1024,4096, two key fillings) for the accepted-length contract, plus constructor-equivalence cases (new vs new_from_slice, "
                     "Rc2 slice vs eff 8*len for all 128 lengths, CAST5/CAST6/Serpent short vs padded key, Threefish new vs zero tweak) compared on probe blocks; non-trivial = accepted lengths, their neighbours and every equivalence case.",
                assumptions=[LEVEL_NOTE_DATA]),
    "C12": dict(level="model_checking", cfgs=std_cfgs, engine="seqmc (stateright)",
                technique="explicit-state BFS (stateright) over construction/conversion/clone/drop histories; every history re-executed on fresh real objects next to the reference model",
                rule="states = operation histories over a pool of <=3 instances with the menu {new Full/Enc/Dec with key k0|k1(|k2), From<Enc> by value -> Full|Dec, From<&Enc> -> Full|Dec, clone, drop}; after EVERY step every live instance is probed "
                     "(encrypt/decrypt of 2 blocks, batches of 22 blocks) against the reference for the key it was made from; explored by stateright BFS for the three AES sizes and Kuznyechik in every native configuration (incl. detection off) and for every other cipher type (clone/drop chains).",
                bound={"quick": "all histories of depth <= 5", "thorough": "all histories of depth <= 6 (Full/Enc/Dec families) / 7 (plain types)"},
                assumptions=["reference models validated by refcheck", "probe data fixed (2 blocks + one 22-block batch per direction)"]),
    "C14": dict(level="model_checking", cfgs=lambda t: [Q("N0", "vdev", True, crates="blowfish")] + ([Q("N0", "vrel", True, crates="blowfish")] if t == "thorough" else []), engine="seqmc (stateright)",
                technique="explicit-state BFS (stateright) over bcrypt call histories on one Blowfish state; whole state compared with the eksblowfish reference after every step",
                rule="states = call histories over {bc_init_state, bc_expand_key(9 keys of length 1..72), salted_expand_key(9 salts of length 1..32 incl. all-zero x 3 keys), bc_encrypt(3 word pairs)}; after every step the 1042 state words and 1027 bc_encrypt probes "
                     "are compared with the Provos-Mazieres reference; plus expand == zero-salt == KeyInit equivalences and the real bcrypt cost loop for cost 0..4 (0..8 thorough).",
                bound={"quick": "all histories of depth <= 3 (64 000)", "thorough": "all histories of depth <= 4 (2 560 000)"},
                assumptions=["eksblowfish reference validated by reproducing 10 libxcrypt bcrypt hashes and OpenSSL Blowfish (refcheck)"]),
    "C15": dict(level="model_checking", cfgs=std_cfgs, post=post_c15, engine="seqmc (stateright) + loommc (loom)",
                technique="explicit-state BFS (stateright) over multi-instance call histories on the real code; loom DPOR exploration of every interleaving of the real aes detection-cache code (unbounded, 2 and 3 threads); exhaustive per-type check that calls write neither the instance nor static storage (snapshots + write-protected run)",
                rule="histories: states = operation histories over a pool of <=3 instances with the menu {construct k0|k1(|k2), clone, convert, drop, encrypt/decrypt block b0|b1, batch of 22} for every cipher family; every call result is compared with the reference "
                     "value for (key, input) and survivors are re-probed at the end. schedules: loom explores all interleavings (and all values a Relaxed load may return) of 2- and 3-thread harnesses over the real aes::autodetect / aes::hazmat detection caches, "
                     "for detection answer present and absent, asserting every thread's output against FIPS-197.",
                bound={"quick": "all histories of depth <= 4; loom unbounded (H1 2 threads, H2/H3 3 threads)", "thorough": "all histories of depth <= 5; loom unbounded"},
                assumptions=["unsynchronised (non-atomic) shared accesses are invisible to loom; sequential leakage through such state is covered by the histories",
                             "loom 0.7.2 cannot run harnesses in which a third thread loads the cache after two concurrent detection stores (internal assertion); H3 therefore initialises the cache first"]),
    "C13": dict(level="model_checking", cfgs=std_cfgs,
                rule="cases = (type, key): AES upper half zero/every single upper bit/every upper byte value x lower-half alphabet; DES 64 listed keys x 256 parity patterns, every listed key with each non-parity bit flipped, generic keys; "
                     "Triple-DES bundles from listed/generic/parity-flipped parts; every other type on generic keys. Each case evaluates weak_key_test and new_checked on the implementation and the statement's predicate (model); "
                     "distinct = distinct (type,key); non-trivial = AES/DES-family cases and every positive.",
                assumptions=["NIST weak-key list validated against libgcrypt's detector and the reference key schedule (refcheck)"]),
    "C16": dict(level="exploration", cfgs=lambda t: std_cfgs(t, feat_only=True) + ([Q("N0", "vdev", "fz"), Q("N0d", "vdev", "fz", crates="aes")] if t == "thorough" else []), tfnc=True,
                rule="cases = (type, construction route in {new, new_from_slice, clone, clone of clone, clone then drop original, From<Enc> by value, From<&Enc>, clone of converted}, key) built in canary-filled storage with 3 canaries; "
                     "a byte is key-dependent if stable across canaries and different between keys; after drop_in_place every such byte that is live (flipping it changes behaviour) must read 0; non-trivial = cases of subjects with at least one key-dependent byte.",
                assumptions=["dead storage (padding, inactive union arm) is identified by behavioural liveness and ignored", "zeroize feature on (feature-off builds are not applicable)"]),
    "C17": dict(level="model_checking", cfgs=lambda t: std_cfgs(t, n0_crates="aes", sens="aes", feat_only=True) + ([Q("N0", "vdev", "fhb", crates="aes"), Q("N0d", "vdev", "fhb", crates="aes")] if t == "thorough" else []),
                rule="cases = hazmat calls: cipher_round / equiv_inv_cipher_round on the (block, round key) star, mix_columns / inv_mix_columns on the block alphabet, *_par on 8-tuples (all different; differ in lane j only); "
                     "each executed on the implementation (AES-NI, detection-off software path, fixslice64, compact) and on the FIPS-197 round model.",
                assumptions=[LEVEL_NOTE_DATA, "FIPS-197 round functions of the reference model validated against Appendix C and OpenSSL chaining"]),
    "C18": dict(level="model_checking", cfgs=only_n0,
                rule="cases = (length, data pattern, key) for belt_wblock_enc and belt_wblock_dec: every length 0..=160 (0..=1024 thorough) + 4096 (+4095, 65537); lengths < 32 must return the error and leave the buffer untouched; "
                     "each executed on the implementation and on the STB 34.101.31 model.",
                assumptions=["BelT model anchored by the standard's vectors only"]),
    "C19": dict(level="exploration", cfgs=std_cfgs,
                rule="cases = (type, key) Debug texts compared with the text for the zero key and with the type's accepted names, plus all pairs of types for AlgorithmName distinctness and the RC5 parameter rule; non-trivial = every non-zero-key case and every pair.",
                assumptions=[]),
    "C20": dict(level="exploration", cfgs=cfgs_c20, post=post_c20,
                rule="every star case E(b)/D(b), batches of 3/22/43 blocks, the RC2 eff-bits grid, BelT wide-block lengths, Threefish tweak triples and hazmat calls are executed under catch_unwind in the vdev (overflow checks + debug assertions) and vrel builds of "
                     "every configuration; a panic/abort is a violation, and the observation streams of the two profiles are compared chunk by chunk.",
                assumptions=ASSUME_STD),
}


def run_property(pid, tier):
    t0 = time.time()
    POST_INFO.clear()
    spec = TABLE[pid]
    core.ensure_seam()
    refcheck = None
    if spec["level"] == "model_checking":
        refcheck = run_refcheck(quick=(tier == "quick"))
    cfgs = spec["cfgs"](tier)
    failures = core.build_all([c for c, _ in cfgs])
    violations = []   # dicts with at least property, subject, what, case, expected, observed, note, config
    for f in failures:
        if f.in_repo and spec.get("build_failure_is_verdict"):
            violations.append(dict(property=pid, subject="build", what="build-failure", config=f.cfg.label,
                                   case={"kind": "build", "config": f.cfg.label, "rustflags": f.cfg.rustflags()},
                                   expected="documented configuration builds", observed=f.log[-3000:], note="native configuration fails to compile inside /repo"))
        else:
            core.die(f"build of {f.cfg.label} failed:\n{f.log[-6000:]}")
    failed_builds = {f.cfg.build_key for f in failures}
    results = []
    for cfg, extra in cfgs:
        if cfg.build_key in failed_builds:
            continue
        res, crash = core.run_xplore(cfg, pid, tier, extra, timeout=spec.get("timeout", 3 * 3600))
        if crash is not None:
            # the explorer itself died (abort / signal): attribute it to the configuration
            violations.append(dict(property=pid, subject="process", what="crash", config=cfg.label,
                                   case={"kind": "crash", "config": cfg.label, "args": extra}, expected="explorer completes",
                                   observed=crash, note="explorer subprocess crashed (abort/signal inside the code under test)"))
            continue
        for v in res["violations"]:
            v["config"] = cfg.label
            violations.append(v)
        results.append((cfg, res))
    if spec.get("fs32_conformance") and tier == "thorough":
        POST_INFO["fs32_shadow_vs_real_32bit_build"] = run_fs32_conformance()
    if spec.get("tfnc"):
        res, v = run_tfnc(pid, tier)
        violations += v
        if res is not None:
            for x in res["violations"]:
                x["config"] = "T0-threefish-nocipher"
                violations.append(x)
            res["wall_s"] = res.get("wall_s", 0)
            results.append((Cfg("N0", "vdev", True), res))
            results[-1][0].name_override = "T0-threefish-nocipher"
    post = spec.get("post")
    if post:
        violations += post(pid, tier, cfgs, results)

    known = core.load_known()
    fresh, known_hits = [], {}
    for v in violations:
        k = core.match_known(v, known)
        if k is not None:
            known_hits.setdefault(k["id"], (k, 0))
            known_hits[k["id"]] = (k, known_hits[k["id"]][1] + 1)
        else:
            fresh.append(v)
    for kid, (k, n) in sorted(known_hits.items()):
        print(f"KNOWN-FINDING: property={pid} {k['text']} [{n} matching case(s) this run]")
    # one replay per (subject, what, config) class, at most 10
    seen, n = set(), 0
    for v in fresh:
        cls = (v.get("subject"), v.get("what"), v.get("config"))
        if cls in seen or n >= 10:
            continue
        seen.add(cls)
        path = core.write_replay(pid, n, v)
        n += 1
        print(f"VIOLATION property={pid} replay={path}")
        print(f"  config={v.get('config')} subject={v.get('subject')} what={v.get('what')} expected={str(v.get('expected'))[:200]} observed={str(v.get('observed'))[:300]}")

    # evidence
    ev = sum(r["evaluations"] for _, r in results)
    calls = sum(r["calls"] for _, r in results)
    dn = sum(r["distinct_nontrivial"] for _, r in results)
    refc = sum(r.get("ref_compared", 0) for _, r in results)
    samples = []
    for cfg, r in results:
        for s in r["samples"][:3]:
            s = dict(s)
            s["config"] = cfg.label
            samples.append(s)
    counters = {}
    for cfg, r in results:
        for k, v in r.get("counters", {}).items():
            counters[k] = max(counters.get(k, 0), v) if k.startswith(("max_", "depth_")) else counters.get(k, 0) + v
    cov = dict(
        evaluations=ev,
        distinct_nontrivial=dn,
        rule=spec["rule"],
        samples=samples[:12],
        exhaustive=True,
        configurations=[dict(config=getattr(c, "name_override", None) or c.label, rustflags=c.rustflags(), detection=core.CFGS[c.name][1] or "real", evaluations=r["evaluations"],
                             api_calls=r["calls"], distinct_nontrivial=r["distinct_nontrivial"], skipped_subjects=r.get("skipped", 0), wall_s=round(r["wall_s"], 2))
                        for c, r in results],
        api_calls=calls,
        counters=counters,
        bound=spec.get("bound", {}).get(tier, "declared alphabets of DESIGN §2.3 for this tier, enumerated completely"),
        known_findings_matched=sorted(known_hits.keys()),
    )
    if refcheck:
        cov["oracle_validation"] = refcheck
    if spec["level"] == "model_checking":
        extra_tr = (POST_INFO.get("fs32_shadow_vs_real_32bit_build") or {}).get("traces", 0)
        cov.update(states=counters.get("histories", ev), transitions=counters.get("transitions", calls), traces_validated_against_impl=refc + extra_tr)
    if POST_INFO:
        cov.update(POST_INFO)
    notes = []
    for _, r in results:
        for nn in r.get("notes", []):
            if nn not in notes:
                notes.append(nn)
    cov["notes"] = notes[:40]
    core.write_evidence(pid, tier, spec["level"], cov, spec["assumptions"], time.time() - t0, len(fresh))
    if fresh:
        return 1
    print(f"OK property={pid} tier={tier} evaluations={ev} api_calls={calls} distinct_nontrivial={dn} configurations={len(results)} wall={time.time()-t0:.1f}s")
    return 0


def setup():
    core.ensure_seam()
    print("setup: refcheck:", run_refcheck(quick=False))
    cfgs = []
    for pid, spec in TABLE.items():
        cfgs += [c for c, _ in spec["cfgs"]("quick")]
    fails = core.build_all(cfgs)
    for f in fails:
        print(f"setup: build of {f.cfg.label} failed (will be reported by the checks):\n{f.log[-2000:]}", file=sys.stderr)
    print("setup: ok")
    return 0


def _cfg_from_label(label):
    label = label.split("@")[0]
    parts = label.split("-")
    feat = {"feat": True, "nofeat": False}.get(parts[2], parts[2])
    return Cfg(parts[0], parts[1], feat, lite=(len(parts) > 3 and parts[3] == "lite"))


def replay(path):
    """Re-execute a recorded violation twice. Exit 1: still violated; 0: the property holds on that case; 2: machinery."""
    import subprocess
    v = json.load(open(path))
    core.ensure_seam()
    case = v.get("case", {})
    kind = case.get("kind")
    if kind == "loom":
        viol = run_loom(v["property"], "quick")
        for x in viol:
            print("replay: VIOLATED:", x["observed"][:400])
        return 1 if viol else 0
    if kind == "cross":
        ca, cb = _cfg_from_label(case["config_a"]), _cfg_from_label(case["config_b"])
        try:
            core.build(ca)
            core.build(cb)
        except core.BuildFailure as b:
            print(b.log[-3000:])
            return 2
        tier = "quick"
        bad = 0
        for rnd in range(2):
            da = _chunk_detail(ca, case.get("variant_a", "") + "|" + case["chunk"], tier)
            db = _chunk_detail(cb, case.get("variant_b", "") + "|" + case["chunk"], tier)
            diff = None
            if da is None or db is None:
                print("replay: chunk detail unavailable")
                return 2
            for x, y in zip(da, db):
                if x["obs"] != y["obs"]:
                    diff = (x, y)
                    break
            if diff:
                bad += 1
                print(f"replay {rnd}: VIOLATED: case {json.dumps(diff[0]['case'])}: {case['config_a']} gives {diff[0]['obs']}, {case['config_b']} gives {diff[1]['obs']}")
            else:
                print(f"replay {rnd}: the two builds agree on chunk {case['chunk']}")
        return 1 if bad == 2 else 0 if bad == 0 else 3
    if kind == "xtrace":
        viol = run_cross_targets(v["property"])
        for x in viol:
            print("replay: VIOLATED:", x["expected"][:200], "|", x["observed"][:200])
        return 1 if viol else 0
    if kind in ("tfnc", "tfnc-zeroize"):
        res, viol = run_tfnc(v["property"], "quick")
        viol += (res or {}).get("violations", [])
        for x in viol:
            print("replay: VIOLATED:", x["observed"][:400])
        return 1 if viol else 0
    cfg = _cfg_from_label(v.get("config", "N0-vdev-feat"))
    try:
        core.build(cfg)
    except core.BuildFailure as b:
        print(b.log[-3000:])
        return 1 if v.get("what") == "build-failure" else 2
    if kind in ("build",):
        print("replay: the configuration builds now")
        return 0
    if kind == "crash":
        res, crash = core.run_xplore(cfg, v["property"], "quick", case.get("args") or [])
        print("replay: explorer", "crashed again" if crash else "completed")
        return 1 if crash else 0
    r = subprocess.run([cfg.binary, "replay", path], env=cfg.env())
    return r.returncode
NOT_YET = {}
EXTRA_ENGINES = [
    {"name": "seqmc (stateright)", "path": "harness/vh/src/props/hist.rs, harness/vh/src/props/c14.rs", "serves_properties": ["C12", "C14", "C15"],
     "kind_free_text": "stateright 0.31 BFS; state = operation history; the always-property re-executes the history on fresh real objects and the reference model"},
    {"name": "loommc (loom)", "path": "harness/loommc", "serves_properties": ["C15"],
     "kind_free_text": "loom 0.7 DPOR over the real aes crate whose cpufeatures::new! expansion resolves to the derived cpufeatures seam (loom atomics + lazy_static under --cfg loom)"},
]
