#!/usr/bin/env python3
"""Regenerates /verif/MANIFEST.json from the property table (kept in one place so it stays valid)."""
import json, os, sys
sys.path.insert(0, os.path.dirname(os.path.abspath(__file__)))
from vlib import props

VERIF = os.path.dirname(os.path.dirname(os.path.abspath(__file__)))
TECH = {
    "exploration": "bounded-exhaustive enumeration of the declared case space on the real code (explorer E1), every case checked",
    "model_checking": "bounded-exhaustive enumeration of traces executed on the implementation and on a validated reference model, outputs compared for every trace",
}
LEVEL_TEXT = {
    "C01": "Every (type, key length, key, block) of the declared alphabets round-trips in every native configuration; full block domains for RC5-8 (RC5-16, Speck32 thorough). Identity oracle, no model needed.",
    "C02": "Every trace construct->encrypt/decrypt over the alphabets is executed on the real AES types (AES-NI, detection-off fallback, fixslice64, compact) and on a FIPS-197 model validated against OpenSSL/libgcrypt; all outputs compared.",
    "C03": "Observation streams of aes/kuznyechik/serpent are produced in every native configuration and feature set and compared pairwise through the default build; a native configuration that fails to compile inside /repo is reported too.",
    "C04": "The whole call-shape space (n, shape, offsets, content class) within the bound is enumerated per type and configuration inside canary-filled buffers.",
    "C05": "All traces over the DES/TDES alphabets (incl. low-weight strings, parity patterns, relations) run on the implementation and the FIPS 46-3 model validated against OpenSSL/libgcrypt.",
    "C06": "All traces over the alphabets run on the implementation and the RFC models validated against OpenSSL/libgcrypt.",
    "C07": "All traces over the alphabets run on the implementation (all native Kuznyechik back ends, 14 S-box sets) and the GOST/STB models.",
    "C08": "All traces over the alphabets and all accepted key lengths run on the implementation (both Serpent builds) and models validated against nettle/libgcrypt.",
    "C09": "All traces over the alphabets, all accepted key lengths and the complete RC2 length x effective-bits grid run on the implementation and models validated against OpenSSL/libgcrypt.",
    "C10": "All traces over the alphabets run on 229 RC5 instantiations, 10 Speck, 3 Threefish (with tweaks, both APIs) and GIFT-128 and on vector-anchored reference models.",
    "C11": "The length axis 0..=300 (+1024, 4096) is enumerated completely for every type; constructor equivalences on the key alphabets.",
    "C12": "All construction/conversion/clone/drop histories up to the depth bound are explored (stateright BFS) on the real types in every native configuration, each live instance compared with the reference after every step.",
    "C14": "All bcrypt call histories up to the depth bound are explored (stateright BFS) on the real Blowfish state machine; the whole state is compared with the eksblowfish reference after every step; every salt and key length 1..=80 is swept from three start states.",
    "C15": "All multi-instance call histories up to the depth bound (stateright BFS) and all thread interleavings of the detection-cache harnesses (loom, unbounded) are explored on the real code; every ordered pair (key, neighbour key) of the declared neighbour set is driven through a fixed two-instance history against the model; no call writes the instance or static storage.",
    "C13": "The predicate model of the statement (AES upper half zero; NIST list modulo parity; part equality modulo parity) is compared with weak_key_test/new_checked on a key set containing every positive class and its one-bit neighbours.",
    "C16": "For every type, route and configuration the storage of the instance is observed before and after drop; all key-dependent live bytes must be zero.",
    "C17": "All hazmat calls over the alphabets (single and 8-way) run on every native implementation and on the FIPS-197 round model.",
    "C18": "Every length in the bound (incl. < 32) is enumerated with several data patterns and keys on the implementation and the STB model.",
    "C19": "Debug text for all keys of the alphabets and all pairs of algorithm names are enumerated.",
    "C20": "The case sets are executed under catch_unwind in overflow-checking and release builds of every configuration; panics are violations and the two observation streams must be equal.",
}
NOTE = {
    "exploration": "Exhaustive within the declared finite alphabets/bounds (DESIGN §2.3); data values outside them are not covered. Native x86-64 configurations only unless stated.",
    "model_checking": "Reference models are trusted after validation by refcheck (OpenSSL/libgcrypt/nettle where available, otherwise published vectors); exhaustive within the declared alphabets/bounds.",
}


def main():
    ids = [json.loads(l)["id"] for l in open(os.path.join(VERIF, "properties.jsonl"))]
    checks = []
    for pid in ids:
        if pid not in props.TABLE:
            continue
        spec = props.TABLE[pid]
        checks.append({
            "property_id": pid,
            "quick_cmd": f"./check {pid} --tier quick",
            "thorough_cmd": f"./check {pid} --tier thorough",
            "evidence_file": f"/verif/evidence/{pid}.json",
            "replay_cmd_template": "./check replay {path}",
            "engine": spec.get("engine", "xplore"),
            "level_claimed": {"category": spec["level"], "text": LEVEL_TEXT[pid], "design_ref": f"DESIGN.md §3 {pid}"},
            "level_note": spec.get("level_note", NOTE[spec["level"]]),
            "technique": spec.get("technique", TECH[spec["level"]]),
        })
    na = [{"property_id": i, "reason": props.NOT_YET.get(i, "check under construction (DESIGN.md §3)")} for i in ids if i not in props.TABLE]
    m = {
        "version": 1,
        "setup_cmd": "./check setup",
        "hooks": {
            "guard": "rustcrypto_block_ciphers_verif",
            "enable": "no source hooks are needed: every observation goes through the public API (or raw memory of values the harness owns); checks build /repo's working tree as path dependencies with RUSTFLAGS --cfg flags of the configuration under test",
            "baseline_off_cmd": "cd /repo && cargo test --workspace --no-fail-fast --offline",
            "source_commits": [],
            "add_only": True,
        },
        "engines": [
            {"name": "xplore", "path": "harness/vh", "serves_properties": [c["property_id"] for c in checks if c["engine"] == "xplore"],
             "kind_free_text": "own bounded-exhaustive explorer over the real code, one subprocess per (property, configuration), 16 threads"},
            {"name": "refcheck", "path": "harness/refmodels", "serves_properties": ["C02", "C05", "C06", "C07", "C08", "C09", "C10", "C13", "C17", "C18"],
             "kind_free_text": "validation of the reference models against OpenSSL/libgcrypt/nettle and published vectors (cargo test -p refmodels --features ffi)"},
        ] + props.EXTRA_ENGINES,
        "checks": checks,
        "not_applicable": na,
        "notes": "See DESIGN.md. Genuine defects found and repaired by fix: commits in /repo are listed in known_findings.json (fixed entries).",
    }
    json.dump(m, open(os.path.join(VERIF, "MANIFEST.json"), "w"), indent=1)


if __name__ == "__main__":
    main()
